"""Shared machinery of the checks: Lean build / audit, model driver, sharded differential
execution, known findings, evidence.  See DESIGN.md §2.2."""
from __future__ import annotations

import hashlib
import importlib
import json
import multiprocessing as mp
import os
import random
import re
import subprocess
import sys
import time
import traceback

VERIF = os.path.dirname(os.path.dirname(os.path.abspath(__file__)))
LEAN = os.path.join(VERIF, "lean")
BINDIR = os.path.join(LEAN, ".lake", "build", "bin")
BIN = BINDIR  # kept for old callers: existence of the bin directory


def model_bin(model: str) -> str:
    return os.path.join(BINDIR, "u3-" + model)
WORK = os.path.join(VERIF, ".work")
OUT = os.path.join(VERIF, "out")
REPO = os.environ.get("U3_REPO", "/repo")
ALLOWED_AXIOMS = {"propext", "Classical.choice", "Quot.sound"}
NCPU = max(1, min(16, os.cpu_count() or 1))


def assert_repo_import():
    import urllib3

    src = os.path.realpath(os.path.join(REPO, "src")) + os.sep
    if not os.path.realpath(urllib3.__file__).startswith(src):
        raise SystemExit(f"urllib3 imported from {urllib3.__file__}, expected under {src}")


# --------------------------------------------------------------------------- line protocol helpers

def enc(s) -> str:
    """str (code points) or bytes -> protocol token"""
    if s is None:
        return "~"
    if isinstance(s, (bytes, bytearray)):
        return ".".join("%x" % b for b in s) if s else "-"
    return ".".join("%x" % ord(c) for c in s) if s else "-"


def enc_pairs(ps) -> str:
    if not ps:
        return "-"
    return ",".join(("" if not k else enc(k)) + "=" + ("" if not v else enc(v)) for k, v in ps)


def enc_list(xs) -> str:
    if not xs:
        return "-"
    return ",".join("" if not x else enc(x) for x in xs)


def dec(tok: str) -> str:
    if tok == "-":
        return ""
    return "".join(chr(int(x, 16)) for x in tok.split("."))


# --------------------------------------------------------------------------- the model driver

def run_model(model: str, lines: list[str], tag: str = "") -> list[str]:
    """Feed `lines` to `u3model <model>`; one output line per input line."""
    os.makedirs(WORK, exist_ok=True)
    base = os.path.join(WORK, f"{model}-{os.getpid()}-{tag}")
    with open(base + ".in", "w") as f:
        f.write("\n".join(lines))
        f.write("\n")
    with open(base + ".in") as fin, open(base + ".out", "w") as fout:
        p = subprocess.run([model_bin(model)], stdin=fin, stdout=fout, stderr=subprocess.PIPE)
    if p.returncode != 0:
        raise RuntimeError(f"u3-{model} exited {p.returncode}: {p.stderr.decode()[:500]}")
    with open(base + ".out") as f:
        out = f.read().split("\n")
    if out and out[-1] == "":
        out.pop()
    os.unlink(base + ".in")
    os.unlink(base + ".out")
    if len(out) != len(lines):
        raise RuntimeError(f"u3model {model}: {len(lines)} lines in, {len(out)} out")
    return out


# --------------------------------------------------------------------------- Lean: build + audit

_THM_RE = re.compile(r"^\s*(?:@\[[^\]]*\]\s*)?(?:private\s+|protected\s+)?theorem\s+([A-Za-z0-9_'.]+)", re.M)


def prop_file(pid: str) -> str:
    return os.path.join(LEAN, "U3", "Props", f"{pid}.lean")


def _blank_comments(src: str) -> str:
    """comments replaced by blanks, newlines kept (so that line numbers stay valid)"""
    def blank(m):
        return re.sub(r"[^\n]", " ", m.group(0))
    src = re.sub(r"/-.*?-/", blank, src, flags=re.S)
    return re.sub(r"--[^\n]*", blank, src)


def theorems_of(pid: str) -> list[str]:
    """names of the property theorems (`Cxx_…`) in the property file, comments ignored"""
    src = _blank_comments(open(prop_file(pid)).read())
    return [m.group(1) for m in _THM_RE.finditer(src) if re.match(r"C\d\d_", m.group(1))]


def _theorem_spans(path: str):
    src = _blank_comments(open(path).read())
    ms = list(_THM_RE.finditer(src))
    spans = []
    for i, m in enumerate(ms):
        start = src.count("\n", 0, m.start()) + 1
        end = src.count("\n", 0, ms[i + 1].start()) if i + 1 < len(ms) else src.count("\n") + 1
        spans.append((m.group(1), start, end))
    return spans


def lean_build(pid: str, models=(), timeout=1500):
    """`lake build U3.Props.<pid> u3-<model>…`.  Returns dict(ok, failed=[theorem names], broken_files,
    log).  A failure in a file other than the property file leaves every theorem undischarged."""
    t0 = time.time()
    p = subprocess.run(["lake", "build", f"U3.Props.{pid}"] + [f"u3-{m}" for m in models], cwd=LEAN,
                       stdout=subprocess.PIPE, stderr=subprocess.STDOUT, timeout=timeout)
    log = p.stdout.decode(errors="replace")
    names = theorems_of(pid)
    res = {"ok": p.returncode == 0, "failed": [], "broken_files": [], "log": log[-6000:],
           "wall_s": round(time.time() - t0, 2), "obligations": names}
    if p.returncode == 0:
        return res
    errs = re.findall(r"error: ([^\s:]+\.lean):(\d+):(\d+):", log)
    files = sorted({e[0] for e in errs})
    res["broken_files"] = files
    own = f"U3/Props/{pid}.lean"
    failed = set()
    other = [f for f in files if not f.endswith(own)]
    if other or not errs:
        failed = set(names)            # model / lemma / generated file no longer compiles
    else:
        spans = _theorem_spans(prop_file(pid))
        for f, line, _ in errs:
            line = int(line)
            hit = [n for (n, a, b) in spans if a <= line <= b]
            if hit and all(h in names for h in hit):
                failed.update(hit)
            else:
                failed = set(names)
                break
    res["failed"] = sorted(failed)
    return res


_FORBIDDEN = re.compile(r"\b(sorry|admit|native_decide|bv_decide|implemented_by|unsafe)\b|^\s*axiom\s|maxHeartbeats\s+0\b", re.M)


def _strip_comments(src: str) -> str:
    src = re.sub(r"/-.*?-/", "", src, flags=re.S)
    return re.sub(r"--.*", "", src)


def lean_sources():
    for root, _, fs in os.walk(os.path.join(LEAN, "U3")):
        for f in fs:
            if f.endswith(".lean"):
                yield os.path.join(root, f)


def lean_audit(pid: str, names: list[str], timeout=600):
    """#print axioms for every property theorem + forbidden-token grep over all Lean sources."""
    bad_tokens = []
    for path in lean_sources():
        for m in _FORBIDDEN.finditer(_strip_comments(open(path).read())):
            bad_tokens.append(f"{os.path.relpath(path, LEAN)}: {m.group(0).strip()}")
    os.makedirs(WORK, exist_ok=True)
    f = os.path.join(WORK, f"Audit_{pid}_{os.getpid()}.lean")
    with open(f, "w") as fh:
        fh.write(f"import U3.Props.{pid}\nopen U3.Props\n")
        for n in names:
            fh.write(f"#print axioms {n}\n")
    p = subprocess.run(["lake", "env", "lean", f], cwd=LEAN, stdout=subprocess.PIPE,
                       stderr=subprocess.STDOUT, timeout=timeout)
    os.unlink(f)
    out = p.stdout.decode(errors="replace")
    axioms = {}
    for m in re.finditer(r"'([^']+)' depends on axioms: \[([^\]]*)\]", out, flags=re.S):
        axioms[m.group(1)] = [a.strip() for a in m.group(2).replace("\n", " ").split(",") if a.strip()]
    for m in re.finditer(r"'([^']+)' does not depend on any axioms", out):
        axioms[m.group(1)] = []
    bad_axioms = {n: [a for a in ax if a not in ALLOWED_AXIOMS] for n, ax in axioms.items()}
    bad_axioms = {n: a for n, a in bad_axioms.items() if a}
    short = {k.split(".")[-1] for k in axioms}
    missing = [n for n in names if n not in axioms and n.split(".")[-1] not in short]
    bad_axioms = {k.split(".")[-1]: v for k, v in bad_axioms.items()}
    return {"ok": p.returncode == 0 and not bad_axioms and not bad_tokens and not missing,
            "axioms": axioms, "bad_axioms": bad_axioms, "bad_tokens": bad_tokens, "missing": missing,
            "log": out[-3000:] if p.returncode != 0 else ""}


def leanchecker(pid: str, timeout=1800):
    p = subprocess.run(["lake", "env", "leanchecker", f"U3.Props.{pid}"], cwd=LEAN,
                       stdout=subprocess.PIPE, stderr=subprocess.STDOUT, timeout=timeout)
    return {"ok": p.returncode == 0, "log": p.stdout.decode(errors="replace")[-2000:]}


def gen_deps(pid: str, models=()) -> set[str]:
    """names of the generated fact modules (`U3.Gen.X` -> "x") that the property's theorems or
    drivers import, transitively"""
    seen, todo, gens = set(), [f"U3.Props.{pid}"], set()
    drive = os.path.join(LEAN, "U3", "Drive")
    for f in os.listdir(drive) if os.path.isdir(drive) else []:
        if f.endswith(".lean"):
            m = re.search(r"^--\s*driver:\s*(\S+)", open(os.path.join(drive, f)).read(), re.M)
            if m and m.group(1) in models:
                todo.append("U3.Drive." + f[:-5])
    while todo:
        mod = todo.pop()
        if mod in seen:
            continue
        seen.add(mod)
        if mod.startswith("U3.Gen."):
            gens.add(mod.split(".")[-1].lower())
        path = os.path.join(LEAN, *mod.split(".")) + ".lean"
        if os.path.exists(path):
            todo += re.findall(r"^import\s+(U3\.[A-Za-z0-9_.]+)", open(path).read(), re.M)
    return gens


def broken_facts(pid: str, models, facts: dict) -> dict:
    """fact plugins that failed on the current source and feed a Gen module this property depends on"""
    deps = gen_deps(pid, models)
    out = {}
    for k, v in facts.items():
        if k.endswith("_error"):
            plugin = k[:-6]
            if plugin.strip("_").lower() in deps:
                out[plugin] = v
    return out


# --------------------------------------------------------------------------- findings

def load_findings():
    """KNOWN_FINDINGS.json (+ per-property proposals under known_findings/); read-only at run time"""
    out = []
    paths = [os.path.join(VERIF, "KNOWN_FINDINGS.json")]
    d = os.path.join(VERIF, "known_findings")
    if os.path.isdir(d):
        paths += [os.path.join(d, f) for f in sorted(os.listdir(d)) if f.endswith(".json")]
    for path in paths:
        if os.path.exists(path):
            out += json.load(open(path)).get("findings", [])
    return out


def known_signatures(pid: str):
    return {f["signature"]: f for f in load_findings() if f["property"] == pid and f.get("status") == "known"}


# --------------------------------------------------------------------------- sharded differential run

class Failure(dict):
    """An implementation-side property failure: {signature, what, case}"""


class ShardResult:
    def __init__(self):
        self.evaluations = 0            # cases executed on the implementation
        self.lines = 0                  # protocol lines compared with the model
        self.nontrivial = set()         # digests of distinct non-trivial cases
        self.hist = {}                  # input-distribution histogram
        self.disagreements = []         # [{case, line, impl, model, index}]
        self.failures = []              # [Failure]
        self.samples = []
        self.errors = []                # harness errors (infrastructure)

    def bump(self, key, n=1):
        self.hist[key] = self.hist.get(key, 0) + n

    def merge(self, o: "ShardResult"):
        self.evaluations += o.evaluations
        self.lines += o.lines
        self.nontrivial |= o.nontrivial
        for k, v in o.hist.items():
            self.hist[k] = self.hist.get(k, 0) + v
        self.disagreements += o.disagreements
        self.failures += o.failures
        if len(self.samples) < 6:
            self.samples += o.samples[: 6 - len(self.samples)]
        self.errors += o.errors


def digest(obj) -> str:
    return hashlib.blake2b(json.dumps(obj, sort_keys=True, default=repr).encode(), digest_size=8).hexdigest()


class CaseTimeout(BaseException):
    """raised by the per-case watchdog (BaseException: must not be swallowed by `except Exception` in harness code)"""


class Prop:
    """Base class of a property check.  Subclasses define:
      id, model (driver name or None), rule (text), assumptions, trusted (list of str)
      cases(rng, tier, escalate)  -> iterator of JSON-able cases
      execute(case, res)          -> (lines_in, impl_out) ; may append Failure to res.failures,
                                      call res.bump(...), and must be deterministic
      nontrivial(case, impl_out)  -> bool
    """
    id = "C00"
    model = None
    rule = ""
    assumptions: list[str] = []
    trusted: list[str] = []
    batch = 4000                      # protocol lines per model invocation
    time_budget = {"quick": 150, "thorough": 1500}

    def cases(self, rng, tier, escalate=False):
        raise NotImplementedError

    def execute(self, case, res):
        raise NotImplementedError

    def nontrivial(self, case, impl_out):
        return True

    def shrink_candidates(self, case):
        """smaller variants of a case (default: drop one op from case['ops'])"""
        ops = case.get("ops") if isinstance(case, dict) else None
        if ops:
            for i in range(len(ops)):
                c = dict(case)
                c["ops"] = ops[:i] + ops[i + 1:]
                yield c

    def setup_worker(self):
        pass

    # ---- engine ------------------------------------------------------------------------------
    #: wall-clock limit for one case (seconds; None = the property manages time itself).  A case that does not
    #: answer is reported as a failing input instead of hanging the check (shards are single-threaded processes).
    case_watchdog = 300

    def compare_case(self, case, res: ShardResult, pending):
        import signal
        import threading
        armed = self.case_watchdog is not None and threading.current_thread() is threading.main_thread()
        if armed:
            def fire(signum, frame):
                raise CaseTimeout()
            old = signal.signal(signal.SIGALRM, fire)
            signal.setitimer(signal.ITIMER_REAL, self.case_watchdog)
        try:
            lines, impl_out = self.execute(case, res)
        except CaseTimeout:
            res.failures.append(Failure(signature="no-answer:case", what=f"the implementation did not answer within "
                                        f"{self.case_watchdog} s on this case (hang / runaway loop)", case=case))
            res.evaluations += 1
            return
        except Exception:
            res.errors.append({"case": case, "trace": traceback.format_exc()[-1500:]})
            return
        finally:
            if armed:
                signal.setitimer(signal.ITIMER_REAL, 0)
                signal.signal(signal.SIGALRM, old)
        res.evaluations += 1
        if self.nontrivial(case, impl_out):
            res.nontrivial.add(digest(case))
        if len(res.samples) < 3:
            res.samples.append({"case": case, "protocol": list(zip(lines, impl_out))[:12]})
        if self.model is not None and lines:
            pending.append((case, lines, impl_out))

    def flush(self, res: ShardResult, pending, tag=""):
        if not pending or self.model is None:
            pending.clear()
            return
        all_lines = []
        for _, lines, _ in pending:
            all_lines.append("reset")
            all_lines += lines
        out = run_model(self.model, all_lines, tag)
        i = 0
        for case, lines, impl_out in pending:
            i += 1
            mo = out[i:i + len(lines)]
            canon = getattr(self, "canon_line", None)
            if canon is not None:               # property-specific canonicalisation applied to BOTH sides
                mo = [canon(case, x) for x in mo]
                impl_out = [canon(case, x) for x in impl_out]
            i += len(lines)
            res.lines += len(lines)
            for j, (a, b) in enumerate(zip(impl_out, mo)):
                if a != b:
                    res.disagreements.append({"case": case, "index": j, "line": lines[j], "impl": a, "model": b})
                    break
        pending.clear()

    def run_shard(self, seed, tier, escalate, shard, nshards, deadline):
        assert_repo_import()
        self.setup_worker()
        res = ShardResult()
        rng = random.Random(f"{self.id}/{seed}/{tier}/{int(escalate)}")
        pending = []
        nlines = 0
        known = set(known_signatures(self.id))
        per_sig = {}
        nf_seen = 0
        for idx, case in enumerate(self.cases(rng, tier, escalate)):
            if idx % nshards != shard:
                continue
            if time.time() > deadline:
                res.bump("stopped_at_deadline")
                break
            self.compare_case(case, res, pending)
            # keep a few failures per signature (known findings can be frequent); count the rest
            if len(res.failures) > nf_seen:
                kept = res.failures[:nf_seen]
                for f in res.failures[nf_seen:]:
                    sig = f.get("signature", "")
                    per_sig[sig] = per_sig.get(sig, 0) + 1
                    res.bump("failure:" + sig)
                    if per_sig[sig] <= 5:
                        kept.append(f)
                res.failures = kept
                nf_seen = len(kept)
            nlines = sum(len(p[1]) + 1 for p in pending)
            if nlines >= self.batch:
                self.flush(res, pending, f"s{shard}")
            unknown = sum(n for sg, n in per_sig.items() if sg not in known)
            if len(res.disagreements) > 20 or unknown > 200:
                break
        self.flush(res, pending, f"s{shard}")
        return res

    def replay_case(self, case):
        """run one case; returns ShardResult"""
        assert_repo_import()
        self.setup_worker()
        res = ShardResult()
        pending = []
        self.compare_case(case, res, pending)
        self.flush(res, pending, "replay")
        return res


def _shard_entry(args):
    modname, seed, tier, escalate, shard, nshards, deadline = args
    try:
        prop = importlib.import_module(modname).PROP
        return prop.run_shard(seed, tier, escalate, shard, nshards, deadline)
    except Exception:
        r = ShardResult()
        r.errors.append({"shard": shard, "trace": traceback.format_exc()[-3000:]})
        return r


def run_sharded(modname, seed, tier, escalate=False, nshards=None, budget=None) -> ShardResult:
    prop = importlib.import_module(modname).PROP
    nshards = nshards or getattr(prop, "nshards", NCPU)
    budget = budget or prop.time_budget["thorough" if (escalate or tier == "thorough") else "quick"]
    deadline = time.time() + budget
    total = ShardResult()
    if nshards == 1:
        total.merge(_shard_entry((modname, seed, tier, escalate, 0, 1, deadline)))
        return total
    ctx = mp.get_context("fork")
    with ctx.Pool(nshards) as pool:
        for r in pool.imap_unordered(_shard_entry, [(modname, seed, tier, escalate, i, nshards, deadline)
                                                    for i in range(nshards)]):
            total.merge(r)
    return total


def shrink(prop: Prop, case, still_bad, max_steps=300):
    """greedy delta debugging with the property's own candidates"""
    steps = 0
    improved = True
    while improved and steps < max_steps:
        improved = False
        for cand in prop.shrink_candidates(case):
            steps += 1
            if steps > max_steps:
                break
            try:
                if still_bad(cand):
                    case = cand
                    improved = True
                    break
            except Exception:
                continue
    return case
