"""C13 — a cut-off or corrupt response is never presented as complete.

C12's responses, damaged: every truncation point from the first body byte to the last framing
byte, single-byte corruptions of chunk-size lines and of the compressed stream; read through every
API (read(), loops of read(n) / read1(n) / read1() / readinto(k), stream, read_chunked, iteration,
.data, preload, and mixed prefixes) or thrown away with drain_conn(); then the connection is given
back and a second request is made on the same pool.

A *lenient reference reader* (DESIGN C13 Interpretation) written here from the RFC, independent of
urllib3 and http.client, classifies each damaged wire:
  must-raise   the framing is incomplete or a chunk-size line is unparseable (`int(tok, 16)` fails),
               or the framing is complete but the decoder reports an error / a zstd frame is cut
               (an error after a complete gzip member counts only if the bytes there begin with the
               gzip magic number: a corrupt further member, not trailing garbage);
  either       the damaged wire is still a complete message for the lenient reader (possibly with a
               different payload), or only a gzip/deflate stream is incomplete.
Oracle: a must-raise wire never produces an end-of-body signal (b"" / StopIteration / a returned
read()) before a ProtocolError / IncompleteRead / DecodeError; nothing but urllib3 exceptions ever
escapes; after a framing-level error the socket is closed at once, and the second request travels
on a fresh socket and gets its own answer.  `drain_conn()` (op `dc`) swallows the exception: after
it on a wire with framing-level damage the socket is closed (the connection is not released open)
and the second request travels on a fresh socket.
Correspondence: the same `resp` lines as C12 on the damaged wire (model-decodable codings).
"""
from __future__ import annotations

import re

import zlib

import zstandard as zstd

from ..core import Prop, Failure
from . import c12
from .c12 import make_case, drive, canonical, case_line, hx, inflating

RAISE_OK = {"ProtocolError", "IncompleteRead", "DecodeError", "InvalidChunkLength"}

PATTERNS = ["rd~", "Lrd3", "Lrd64", "Lr14", "Lr1~", "Lri5", "st3", "st64", "it", "rc7", "rc~", "da", "preload", "dc"]

# damage the framing itself shows (the connection is out of step with the peer): closed, never reused
FRAMING_LEVELS = ("cl-short", "chunked-incomplete", "chunk-line-unparseable")


# ------------------------------------------------------------------------------------------------
# the lenient reference reader


def py_int16(tok: bytes):
    try:
        return int(tok, 16)
    except ValueError:
        return None


def lenient_chunked(framed: bytes):
    """-> ('complete', body) | ('incomplete', None) | ('unparseable', None) | ('odd', None)"""
    pos, body = 0, b""
    while True:
        j = framed.find(b"\n", pos)
        line = framed[pos:] if j < 0 else framed[pos:j + 1]
        if not line:
            return "incomplete", None
        pos += len(line)
        tok = line.split(b";", 1)[0]
        n = py_int16(tok)
        if n is None:
            return "unparseable", None
        if n < 0:
            return "odd", None
        if n == 0:
            return "complete", body            # trailers / final CRLF are optional for both readers
        if len(framed) - pos < n + 2:
            return "incomplete", None
        body += framed[pos:pos + n]
        pos += n + 2


def reference_decode(ce, body: bytes):
    """one-shot reference decoding with the plain C libraries -> ('ok'|'error'|'zstd-incomplete'|'incomplete')"""
    if not ce:
        return "ok"
    data = body
    for mode in reversed([m.strip() for m in ce.lower().split(",")]):     # coding names are case-insensitive
        st, data = _decode_one(mode, data)
        if st != "ok":
            return st
    return "ok"


def _zstd_bytewise(data):
    """one frame fed byte by byte -> (status, output, bytes consumed)"""
    o = zstd.ZstdDecompressor().decompressobj()
    out = b""
    for i in range(len(data)):
        try:
            out += o.decompress(data[i:i + 1])
        except zstd.ZstdError:
            return "error", out, i
        if o.eof:
            return "ok", out, i + 1
    return "zstd-incomplete", out, len(data)


def _decode_one(mode, data):
    if mode in ("gzip", "x-gzip"):
        out, first = b"", True
        while data:
            o = zlib.decompressobj(31)
            try:
                out += o.decompress(data)
            except zlib.error:
                if first:
                    return "error", out
                # after a complete member: bytes that do not begin with the gzip magic number are
                # "trailing garbage" (ignored by gzip(1) with a warning, swallowed by urllib3 — pinned test
                # test_decode_gzip_swallow_garbage): the stream counts as decodable.  Bytes that do begin
                # with 1f 8b are a further member for every gzip reader (gzip(1) reports "crc error" /
                # "invalid compressed data" and fails): the stream is undecodable.
                return ("gzip-later-member" if data[:2] == b"\x1f\x8b" else "ok"), out
            if not o.eof:
                return "incomplete", out
            data, first = o.unused_data, False
        return "ok", out
    if mode == "zstd":
        out = b""
        while data:
            o = zstd.ZstdDecompressor().decompressobj()
            try:
                out += o.decompress(data)
            except zstd.ZstdError:
                # libzstd's verdict on some corrupt frames depends on how the input is split (a
                # Frame_Content_Size that disagrees with the blocks is "Data corruption detected" when
                # the frame arrives in one piece and a clean end of frame when it arrives in small
                # pieces): a stream counts as undecodable only if the byte-wise feed is refused too.
                st, o2, used = _zstd_bytewise(data)
                if st != "ok":
                    return st, out
                out += o2
                data = data[used:]
                continue
            if not o.eof:
                return "zstd-incomplete", out
            data = o.unused_data
        return ("ok" if out or True else "ok"), out
    # deflate: zlib wrapper, else raw
    if not data:
        return "incomplete", b""
    for wb in (15, -15):
        o = zlib.decompressobj(wb)
        try:
            out = o.decompress(data)
        except zlib.error:
            continue
        return ("ok" if o.eof else "incomplete"), out
    return "error", b""


def classify(case):
    """-> (verdict, level, why): verdict must-raise | either ; level framing | decode | none"""
    wire = bytes.fromhex(case["wire"])
    framed = wire[case["head_len"]:]
    fr = case["framing"]
    if fr in ("cl", "cl-close"):
        n = int(case["cl"])
        if len(framed) < n:
            return "must-raise", "cl-short", "short of Content-Length"
        body = framed[:n]
    elif fr == "close":
        body = framed
    else:
        st, body = lenient_chunked(framed)
        if st == "incomplete":
            return "must-raise", "chunked-incomplete", "chunked framing incomplete"
        if st == "unparseable":
            return "must-raise", "chunk-line-unparseable", "chunk-size line unparseable"
        if st == "odd":
            return "either", "none", "negative chunk size"
    if not case["decode"] or not case.get("ce"):
        return "either", "none", "framing complete"
    ce_l = case["ce"].lower()
    st = reference_decode(ce_l, body)
    if st == "error":
        return "must-raise", "decoder-error", "decoder reports an error"
    if st == "gzip-later-member":
        return "must-raise", "gzip-later-member-corrupt", "a gzip member after the first is corrupt"
    if st == "zstd-incomplete":
        stack = "," in ce_l and not ce_l.replace(" ", "").startswith("zstd")
        return "must-raise", "zstd-incomplete" + ("-inner" if stack else ""), "zstd frame incomplete"
    if "zstd" in ce_l and not body and case["framing"] != "zzz":
        # an empty zstd body: flush demands eof of a decompressobj that never saw a frame
        return "either", "none", "empty zstd body"
    return "either", "none", "complete (" + st + ")"


API = {"rd": "read", "r1": "read1", "ri": "readinto", "st": "stream", "rc": "read_chunked", "it": "iter", "da": "data",
       "pr": "preload", "dc": "drain_conn"}


def api_of(op):
    if op[0] == "L":
        op = op[1:]
    t, a = op[:2], op[2:]
    if t in ("rd", "r1"):
        return API[t] + ("()" if a == "~" else "(n)")
    return API.get(t, t)


class C13(Prop):
    id = "C13"
    model = "resp"
    rule = ("C12's responses (payloads 0..300 bytes; identity, stored gzip / zlib / raw deflate, raw-block zstd incl. "
            "multi-member / multi-frame, two-coding stacks, really compressed gzip / deflate / zstd; Content-Length, "
            "chunked, close-delimited; segmentation {1,3,7,64,whole}) damaged by (a) truncation at every position "
            "from the first body byte to the last framing byte, (b) every single-byte substitution from a hostile "
            "alphabet in every chunk-size line, (c) single-bit flips at every position of the compressed stream; "
            "x read patterns {read(), loops of read(3) / read(64) / read1(4) / read1() / readinto(5), stream(3), "
            "stream(64), iteration, read_chunked(7), read_chunked(), .data, preload, drain_conn()} and random mixed "
            "prefixes; "
            "each followed by release_conn() and a second request on the same pool. quick: all cuts of 30 responses "
            "x 13 patterns + sampled corruptions; thorough: 200 responses. non-trivial = the lenient reference "
            "reader says must-raise")
    assumptions = ["must-raise / either is decided by the lenient reference reader in harness/props/c13.py "
                   "(int(tok,16)-lenient chunk sizes; a cut inside the last-chunk line after its digit is 'either'; an "
                   "incomplete gzip/deflate stream is 'either', an incomplete zstd frame must raise)",
                   "'closed and never reused' is required after framing-level errors (cut, bad chunk line); after a "
                   "DecodeError the framing may be intact and urllib3 keeps the connection: there the second request "
                   "must merely get its own answer",
                   "the peer closes the connection after the (damaged) bytes: a cut shows as EOF, not as a timeout"]
    trusted = c12.C12.trusted
    time_budget = {"quick": 110, "thorough": 1100}
    flush = c12.C12.flush
    record = c12.C12.record

    # ---------------------------------------------------------------- generation
    def base_responses(self, rng, n):
        payloads = [b"hello world, this is the payload", b"ab\ncd", b"a", b"", bytes(range(40)),
                    b"line1\nline2\n\nline4 " * 5]
        codings = ["identity", "gzs", "zss", "zls", "rds", "gzs,zls", "zss,gzs", "gzip", "zstd", "deflate"]
        out = []
        # a fixed core first, then random ones
        for coding in ["identity", "gzs", "zss"]:
            for framing in ["cl", "chunked", "close"]:
                out.append((payloads[0], coding, framing, 1 if coding == "identity" else 2, (), (5, 1, 17)))
        while len(out) < n:
            p = rng.choice(payloads)
            coding = rng.choice(codings)
            framing = rng.choice(["cl", "chunked", "chunked", "close", "cl-close"])
            parts = rng.choice([1, 2]) if coding in c12.MULTI_OK else 1
            out.append((p, coding, framing, parts, rng.choice([(), (3,), (1, 0, 4)]),
                        tuple(rng.choice([1, 2, 5, 17, 64]) for _ in range(rng.randrange(0, 5)))))
        return out[:n]

    def with_pattern(self, base, pat, rng):
        c = dict(base)
        if pat == "preload":
            c["preload"], c["ops"] = 1, ["da"]
        else:
            c["ops"] = [pat]
        if pat == "it":
            c["decode"] = 1
        if pat.startswith("rc") and c["framing"] != "chunked":
            return None
        return c

    def damaged(self, base, kind, pos, val=None):
        c = dict(base)
        w = bytes.fromhex(base["wire"])
        if kind == "cut":
            w = w[:pos]
        else:
            w = w[:pos] + bytes([val]) + w[pos + 1:]
        c["wire"] = w.hex()
        c["damage"] = [kind, pos, val]
        c["kind"] = "cut" if kind == "cut" else kind
        return c

    def cases(self, rng, tier, escalate=False):
        deep = tier == "thorough" or escalate
        nbase = 200 if deep else 30
        hostile = [ord(c) for c in "g;_-+ x0\r\n\x00z9f"]
        for (p, coding, framing, parts, sizes, csz) in self.base_responses(rng, nbase):
            decode = 1 if rng.random() < 0.85 else 0
            base = make_case(p, coding, framing, 0, decode, [], rng, parts, sizes, csz, rng.random() < 0.3)
            w = bytes.fromhex(base["wire"])
            hl = base["head_len"]
            pats = PATTERNS
            for cut in range(hl, len(w)):
                # quick: every cut for the core, every cut x 4 random patterns beyond
                chosen = pats if (deep or nbase and cut % 3 == 0) else rng.sample(pats, 4)
                for pat in chosen:
                    c = self.with_pattern(self.damaged(base, "cut", cut), pat, rng)
                    if c is None:
                        continue
                    c["seg"] = rng.choice([1, 3, 7, 64, 0])
                    yield c
            # (b) chunk-size lines
            for (a, b) in base["spans"]:
                for pos in range(a, b):
                    for v in (hostile if deep else rng.sample(hostile, 5)):
                        if v == w[pos]:
                            continue
                        pat = rng.choice(pats)
                        c = self.with_pattern(self.damaged(base, "chunkline", pos, v), pat, rng)
                        if c is None:
                            continue
                        c["seg"] = rng.choice([1, 3, 64, 0])
                        yield c
            # (c) compressed stream
            if coding != "identity" and framing in ("cl", "cl-close", "close"):
                for pos in range(hl, len(w)):
                    for bit in (range(8) if deep else rng.sample(range(8), 2)):
                        pat = rng.choice(pats)
                        c = self.with_pattern(self.damaged(base, "corrupt", pos, w[pos] ^ (1 << bit)), pat, rng)
                        if c is None:
                            continue
                        c["decode"] = 1
                        c["seg"] = rng.choice([1, 3, 64, 0])
                        yield c
        # mixed call sequences on damaged random responses
        for _ in range(30000 if deep else 3000):
            base = c12.PROP.random_case(rng)
            base["ops"] = [o for o in base["ops"] if not o.startswith("st") or base["framing"] != "chunked"]
            w = bytes.fromhex(base["wire"])
            if len(w) > 3000 or len(w) <= base["head_len"]:
                continue
            cut = rng.randrange(base["head_len"], len(w))
            c = self.damaged(base, "cut", cut)
            c["ops"] = [o for o in c["ops"][:-3]] + [rng.choice(["rd~", "Lrd7", "Lr13", "Lr1~", "Lri2", "dc"])]
            yield c

    # ---------------------------------------------------------------- execution
    @staticmethod
    def canon_line(case, line):
        """`tell()` after a DecodeError counts how many raw bytes had been pulled in when the C library
        noticed the corruption; zlib / zstd may notice a damaged header or checksum one network segment
        earlier or later than the stored-block reference decoders of the model (decoder internals are
        trusted, DESIGN §5) — so the position is not compared once a decode error was raised.  Found by the
        thorough tier on the unchanged tree (corrupt 'zstd, gzip' body, seg=3: tell 31 vs 34).
        `length_remaining` of a Content-Length body is the same number seen from the other end
        (Content-Length - tell): masked likewise (round 2, thorough tier, seed 0: corrupt 'zstd, gzip' body
        with Content-Length 47, stream(3): lr 8 vs 2)."""
        if "!DecodeError" in line or "E:DecodeError" in line:
            line = re.sub(r"tell=\d+", "tell=*", line)
            return re.sub(r"lr=-?\d+", "lr=*", line)
        return line

    def execute(self, case, res):
        run = drive(case, second_request=True)
        verdict, level, why = classify(case)
        res.bump("verdict:" + verdict + ":" + level)
        res.bump("damage:" + str(case.get("damage", ["?"])[0]))
        res.bump("coding:" + case.get("coding", "?"))
        res.bump("framing:" + case.get("framing", "?"))
        for o in case["ops"]:
            res.bump("api:" + api_of(o))
        if case.get("preload"):
            res.bump("api:preload")
        last_op = "preload" if case.get("preload") and run.error_op in ("ctor", None) and not run.resp else (run.error_op or (case["ops"][-1] if case["ops"] else "ctor"))
        dmg = case.get("damage", ["none"])[0]
        fr = {"cl-close": "cl"}.get(case["framing"], case["framing"])
        err = run.error
        if err is not None and err not in RAISE_OK:
            sig = f"leaked-exception:{err}"
            if err == "ValueError" and why == "negative chunk size":
                sig += ":negative-chunk-size"
            self.record(res, sig, f"{last_op} raised {err} on a damaged response ({why})", case)
        elif verdict == "must-raise" and err is None:
            # the API that first signalled a normal end of body
            api = "preload" if case.get("preload") else "none"
            if not case.get("preload"):
                for (o, k, v) in run.results:
                    if k == "info" or o == "rd0":
                        continue
                    if k == "drain":
                        # drain_conn() is no read API: it returns nothing and swallows the error at the
                        # caller's request, so neither it nor the reads after it signal an end of body;
                        # what it owes is the state of the connection (checked below)
                        api = None
                        break
                    if k in ("pieces", "data") or o == "rd~" or v == b"":
                        api = api_of(o)
                        break
            sig = f"silent-end:{api}:{level}"
            if level == "zstd-incomplete":
                # classifier by cause: read(amt) returns b"" before it gets to flush the decoder
                fam = "read(amt)-family" if api in ("read(n)", "readinto", "stream", "iter") else api
                if api == "read()" and case["ops"] and case["ops"][0] != "rd~":
                    fam = "read()-after-drained"
                sig = f"silent-end:zstd-incomplete:{fam}"
            elif level == "zstd-incomplete-inner":
                sig = "silent-end:zstd-incomplete-inner"       # MultiDecoder.flush only flushes decoders[0]
            elif level == "gzip-later-member-corrupt":
                # GzipDecoder swallows every zlib.error once the first member is complete, whatever the API
                sig = "silent-end:gzip-later-member-corrupt"
            if api is not None:
                self.record(res, sig,
                            f"{why}: {api} signalled a normal end of body instead of raising "
                            f"(damage={case.get('damage')}, coding={case.get('coding')}, seg={case['seg']})", case)
        # the connection
        info = next((v for (o, k, v) in run.results if k == "info"), None)
        framing_err = err in ("ProtocolError", "IncompleteRead", "InvalidChunkLength")
        if info is not None and err in RAISE_OK:
            silent_r1 = any(o == "r1~" and k == "bytes" and v == b"" for (o, k, v) in run.results)
            if framing_err and not info["first_closed_before"] and silent_r1 and level == "cl-short":
                self.record(res, "conn-released-open-after-silent-read1()",
                            "read1() ended silently on a short Content-Length body and released the still-open "
                            "connection to the pool; the error raised by a later call can no longer close it", case)
            elif framing_err and not info["first_closed_before"]:
                self.record(res, f"conn-left-open-after:{err}:{fr}",
                            f"after {err} in {last_op} the socket of the broken response was not closed", case)
            if info.get("exc"):
                self.record(res, f"second-request-failed:{info['exc']}",
                            f"the request after the broken response raised {info['exc']}", case)
            elif info.get("body") != b"ok":
                self.record(res, "second-request-wrong-answer", f"second request got {info.get('body')!r}", case)
            elif framing_err and (info.get("nsocks") != 2 or not info["first_closed"]):
                self.record(res, "second-request-not-on-fresh-socket",
                            f"sockets={info.get('nsocks')} first_closed={info['first_closed']}", case)
        # drain_conn() on a damaged response: no exception reaches the caller, the verdict is the state of
        # the connection — after damage at the framing level the socket is closed by the time drain_conn()
        # returns (not released open), and the next request travels on a fresh socket
        drained = any(k == "drain" for (o, k, v) in run.results)
        if info is not None and drained and err is None:
            res.bump("drained:" + verdict + ":" + level)
            broken = verdict == "must-raise" and level in FRAMING_LEVELS
            if broken and not info["first_closed_before"]:
                self.record(res, f"conn-left-open-after:drain_conn:{fr}",
                            f"drain_conn() on a response with {why} returned with the socket still open "
                            f"(released={run.final})", case)
            if info.get("exc"):
                self.record(res, f"second-request-failed:{info['exc']}",
                            f"the request after drain_conn() on the damaged response raised {info['exc']}", case)
            elif info.get("body") != b"ok":
                self.record(res, "second-request-wrong-answer", f"second request got {info.get('body')!r}", case)
            elif broken and (info.get("nsocks") != 2 or not info["first_closed"]):
                self.record(res, "second-request-not-on-fresh-socket",
                            f"sockets={info.get('nsocks')} first_closed={info['first_closed']}", case)
        self._verdict = verdict
        if not case.get("model", True):
            return [], []
        if inflating(run, case):
            res.bump("model-skipped:inflating")      # oracle only, see c12.inflating
            return [], []
        return [case_line(case)], [canonical(run, case)]

    def nontrivial(self, case, impl_out):
        return classify(case)[0] == "must-raise"

    def shrink_candidates(self, case):
        ops = case.get("ops", [])
        for i in range(len(ops) - 1):
            c = dict(case)
            c["ops"] = ops[:i] + ops[i + 1:]
            yield c
        if case.get("seg"):
            c = dict(case); c["seg"] = 0
            yield c


PROP = C13()
