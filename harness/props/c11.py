"""C11 — request bodies are framed exactly and re-sent identically.

Correspondence: per-attempt wire bytes of `HTTPConnection.request` (single attempt) and of
`HTTPConnectionPool.urlopen` / `PoolManager.request` over scripted attempt histories are compared
with `U3.Wire.request` / `U3.Wire.sendHistory` (driver `wire`), including the final exception class.
Oracle (implementation only): every attempt carries exactly one framing, the de-framed payload equals
the body's bytes, body-less requests follow the method table, and every re-sent body is identical
to the first or the call ends in UnrewindableBodyError.
"""
from __future__ import annotations

import types
import warnings

from ..core import Prop, Failure, enc, enc_pairs
from .c10 import HOST, build_body, cfg_tokens, exc_name, hx, strict_parse

BODYLESS_STRICT = ("GET", "HEAD", "DELETE", "OPTIONS")
BODYLESS_LIKE = ("GET", "HEAD", "DELETE", "OPTIONS", "TRACE", "CONNECT")
METHODS = ["GET", "HEAD", "DELETE", "OPTIONS", "TRACE", "POST", "PUT", "PATCH", "FOO"]
CODES = {"s": 503, "k": 307, "K": 308, "m": 301, "n": 302, "t": 303, "o": 200}
MODEL_LETTER = {"c": "c", "r": "r", "s": "s", "k": "k", "K": "k", "m": "k", "n": "k", "t": "t", "o": "o"}


def data(n):
    return bytes((i * 7) % 251 for i in range(n))


def text(n):
    return "".join(chr(0x61 + (i % 26)) if i % 5 else ("\xe9" if i % 2 else "€") for i in range(n))


def cut(seq, lens):
    """cut `seq` into pieces of the given lengths (the last length repeats); zero lengths are skipped"""
    out, i, k = [], 0, 0
    while i < len(seq):
        m = lens[min(k, len(lens) - 1)]
        k += 1
        if m <= 0:
            if k >= len(lens):
                m = 1
            else:
                continue
        out.append(seq[i:i + m])
        i += m
    return out


def stream_scripts(n, bs):
    """(label, piece lengths) — read scripts over n items for block size bs: where the short reads are"""
    full = max(n // bs, 0)
    yield "short-first", [1, bs]                                  # 1, bs, bs, …
    yield "short-middle", [bs] * max(full // 2, 1) + [max(bs - 1, 1), bs]
    tail = n - max(full - 1, 0) * bs if full else n                # last short read just before the end
    yield "short-last", [bs] * max(full - 1, 0) + [max(tail - 1, 1), 1]
    yield "all-short", [max(bs - 1, 1)]
    yield "long-pieces", [bs + 1]                                  # cut by read(bs) into bs + 1
    yield "ones", [1] * 3 + [max(bs // 2, 1), 2, bs]


def stream_specs(n, bs):
    d, t = data(n), text(n)

    def b(lens, seq=d):
        return [hx(p) for p in cut(seq, lens)]

    for label, lens in stream_scripts(n, bs):
        yield f"stream-{label}", ["stream", False, "ok", "ok", 0, b(lens)]
    mid = [bs] * max(n // bs // 2, 1) + [max(bs - 1, 1), bs]
    for off in sorted({min(1, n), n // 2, max(n - 1, 0), n}):
        yield f"stream@{off}", ["stream", False, "ok", "ok", off, b(mid)]
    yield "textstream-short-first", ["stream", True, "ok", "ok", 0, cut(t, [1, bs])]
    yield "textstream-short-middle", ["stream", True, "ok", "ok", min(1, n), cut(t, mid)]
    yield "textstream-all-short", ["stream", True, "ok", "ok", 0, cut(t, [max(bs - 1, 1)])]
    # an empty read() result is end-of-file, whatever the object would deliver afterwards
    yield "stream-eof-marker", ["stream", False, "ok", "ok", 0, b(mid, d[:n // 2 + 1]) + ["", hx(d[n // 2 + 1:] or b"x")]]
    yield "stream-no-tell", ["stream", False, "ok", "absent", 0, b(mid)]
    yield "stream-no-tell-no-seek", ["stream", False, "absent", "absent", min(1, n), b(mid)]
    yield "stream-tell-raises", ["stream", False, "ok", "raises", 0, b(mid)]
    yield "stream-seek-raises", ["stream", False, "raises", "ok", min(1, n), b(mid)]
    yield "stream-tell-no-seek", ["stream", False, "absent", "ok", 0, b(mid)]
    yield "textstream-no-tell", ["stream", True, "ok", "absent", 0, cut(t, mid)]
    yield "textstream-utf16-short-first", ["stream", True, "ok", "ok", 0, cut(t, [1, bs]), "utf-16"]
    yield "textstream-cp1252-all-short", ["stream", True, "ok", "ok", 0, cut(t, [max(bs - 1, 1)]), "cp1252"]


def random_stream(rng, n, bs):
    """a random read script over n items: piece sizes around the block size, short pieces anywhere"""
    is_text = rng.random() < 0.3
    seq = text(n) if is_text else data(n)
    sizes = [1, 2, max(bs - 1, 1), bs, bs, bs + 1, 2 * bs, max(bs // 2, 1)]
    pieces, i = [], 0
    while i < n:
        m = rng.choice(sizes)
        pieces.append(seq[i:i + m])
        i += m
    if pieces and rng.random() < 0.1:                # an early empty read: end-of-file there
        pieces.insert(rng.randrange(len(pieces) + 1), seq[:0])
    avail = lambda: rng.choice(["ok", "ok", "ok", "ok", "absent", "raises"])
    pos = rng.choice([0, 0, min(1, n), rng.randint(0, n)])
    label = ("textstream" if is_text else "stream") + "-random"
    return label, ["stream", is_text, avail(), avail(), pos, pieces if is_text else [hx(p) for p in pieces]]


def body_specs(n, bs=16):
    """(label, spec) for every body kind at size n (read scripts of streams relative to block size bs)"""
    d, t = data(n), text(n)
    yield "none", ["none"]
    yield "bytes", ["bytes", hx(d)]
    yield "str", ["str", t]
    yield "bytearray", ["buf", "bytearray", 1, hx(d)]
    yield "memoryview", ["buf", "memoryview", 1, hx(d)]
    yield "array-B", ["buf", "array", 1, hx(d)]
    yield "array-H", ["buf", "array", 2, hx(data(n - n % 2))]
    for off in sorted({0, min(1, n), n // 2, n}):
        yield f"file@{off}", ["file", False, "ok", "ok", off, hx(d)]
        yield f"textfile@{off}", ["file", True, "ok", "ok", off, t]
    yield "file-no-tell", ["file", False, "ok", "absent", 0, hx(d)]
    yield "file-no-tell-no-seek", ["file", False, "absent", "absent", min(1, n), hx(d)]
    yield "file-tell-raises", ["file", False, "ok", "raises", 0, hx(d)]
    yield "file-seek-raises", ["file", False, "raises", "ok", min(1, n), hx(d)]
    yield "file-tell-no-seek", ["file", False, "absent", "ok", 0, hx(d)]
    yield "textfile-no-tell", ["file", True, "ok", "absent", 0, t]
    # text files stored in (and announcing) another encoding than UTF-8, as `open(path, encoding=...)` gives them:
    # what they deliver is their characters, what goes on the wire is the UTF-8 of those (7th item: the encoding)
    yield "textfile-utf16@0", ["file", True, "ok", "ok", 0, t, "utf-16"]
    yield f"textfile-cp1252@{min(1, n)}", ["file", True, "ok", "ok", min(1, n), t, "cp1252"]
    yield "textfile-cp1252-no-tell", ["file", True, "ok", "absent", 0, t, "cp1252"]
    yield "textfile-utf16-no-seek", ["file", True, "absent", "ok", 0, t, "utf-16"]
    yield "list", ["iter", False, [["b", hx(d[:3])], ["b", ""], ["b", hx(d[3:])]]]
    yield "list-str", ["iter", False, [["s", t[:2]], ["s", ""], ["s", t[2:]]]]
    yield "list-mixed", ["iter", False, [["b", hx(d[:1])], ["s", t[:n // 2]], ["u", 1, hx(d)]]]
    yield "generator", ["iter", True, [["b", hx(d[:1])], ["b", ""], ["b", hx(d[1:])]]]
    yield "generator-str", ["iter", True, [["s", t]]]
    yield "empty-list", ["iter", False, []]
    yield from stream_specs(n, bs)


def body_class(spec):
    k = spec[0]
    if k == "iter":
        return "one-shot-iterable" if spec[1] else "re-iterable"
    if k in ("file", "stream"):
        seek, tell = spec[2], spec[3]
        if tell == "absent":
            return "file-without-tell"
        if tell == "raises":
            return "file-tell-raises"
        if seek == "absent":
            return "file-tell-without-seek"
        if seek == "raises":
            return "file-seek-raises"
        return "file-seekable"
    return k


def classify(level, trigger, bclass, symptom):
    """signature of a re-send failure (the cause, not the individual case)"""
    if trigger == "303" and symptom == "error-ValueError":
        return f"C11:resend:{level}-303:recorded-position:ValueError"
    if bclass == "one-shot-iterable" and symptom == "body-differs":
        return "C11:resend:one-shot-iterable:body-differs"
    if bclass == "file-without-tell" and symptom == "body-differs":
        return "C11:resend:file-without-tell:body-differs"
    if level == "manager" and trigger == "redirect" and bclass.startswith("file") and symptom == "body-differs":
        return "C11:resend:manager-redirect:file-position-not-threaded:body-differs"
    if bclass == "file-tell-without-seek" and symptom == "error-ValueError":
        return "C11:resend:file-tell-without-seek:ValueError"
    return f"C11:resend:other:{level}:{trigger}:{bclass}:{symptom}"


class C11(Prop):
    id = "C11"
    model = "wire"
    rule = ("body kinds {None, bytes, str, bytearray, memoryview, array('B'), array('H'), binary/text files (seekable at "
            "start offsets {0,1,n/2,n}, without tell, tell raising, seek raising, tell without seek, neither), binary/text "
            "STREAMS whose read(blocksize) returns short per a read script (short read first / in the middle / just "
            "before the end, all reads short, pieces longer than the block size, single items, an early empty read, "
            "start offsets inside a piece, the same seek/tell variants; random scripts with piece sizes around the "
            "block size), lists "
            "with empty chunks / str chunks / mixed, one-shot generators, empty list} x sizes {0,1,bs-1,bs,bs+1,large} "
            "(bs=16; thorough also bs=16384) x methods {GET,HEAD,DELETE,OPTIONS,TRACE,POST,PUT,PATCH,FOO} x chunked flag "
            "on HTTPConnection.request; x attempt histories {ok, connect-error, read-error, 503, 301/302/307/308, 303}* "
            "of length <= 3 ending in ok at pool and manager level.  Per attempt: wire bytes vs the model; oracle: one "
            "framing, payload == body bytes, method table, re-sent payload identical or UnrewindableBodyError.  "
            "non-trivial = a body is present and (for histories) at least two attempts reached the wire")
    assumptions = ["every scripted response carries Connection: close, so each attempt opens a new socket and per-attempt "
                   "bytes are per-socket bytes",
                   "Retry(allowed_methods=None, status_forcelist=[503], backoff_factor=0) with the budget granted as total=10, as "
                   "per-category counters only (total=None) or both: the retry policy is "
                   "C04's subject; here it is configured so that the scripted history happens",
                   "redirect Location is the same origin-form target"]
    trusted = ["http.client request path is modelled, validated by this correspondence",
               "harness/net.py in-memory sockets and request splitting on the server side"]
    time_budget = {"quick": 110, "thorough": 1200}

    # ---------------------------------------------------------------- generation
    def histories(self, deep):
        one = ["o", "co", "ro", "so", "ko", "Ko", "to"]
        mid = ["c", "r", "s", "k", "t"]
        two = [a + b + "o" for a in mid for b in mid]
        extra = ["mo", "no", "Kko", "kKo"] + (["ksro", "crsko", "kkko", "sto"] if deep else [])
        return one + two + extra

    def cases(self, rng, tier, escalate=False):
        deep = tier == "thorough" or escalate
        bs = 16
        sizes = [0, 1, bs - 1, bs, bs + 1, 100]
        n = 0
        # 1. single attempt on HTTPConnection.request: full product
        for size in sizes:
            for label, spec in body_specs(size):
                for meth in METHODS:
                    for ch in (False, True):
                        yield {"level": "conn", "meth": meth, "body": spec, "label": label, "chunked": ch, "bs": bs,
                               "hist": "o", "headers": [], "size": size}
        # lower-case / unknown methods and caller headers that do not frame
        for meth in ("post", "get", "Delete", "CONNECT", "QUERY"):
            for label, spec in list(body_specs(3))[:3]:
                yield {"level": "conn", "meth": meth, "body": spec, "label": label, "chunked": False, "bs": bs, "hist": "o",
                       "headers": [["Content-Type", "text/plain"]], "size": 3}
        # 2. histories at pool and manager level
        hists = self.histories(deep)
        for size in ([bs + 1] if not deep else [0, 1, bs, bs + 1, 100]):
            for label, spec in body_specs(size):
                for h in hists:
                    for level in ("pool", "manager"):
                        n += 1
                        yield {"level": level, "meth": ["POST", "PUT", "PATCH", "DELETE", "FOO"][n % 5], "body": spec,
                               "label": label, "chunked": bool(n % 7 == 0), "bs": bs, "hist": h,
                               "retry": ["total", "cat", "both", "cat"][(n // 2) % 4],
                               "headers": [["Content-Type", "x/y"], ["X-A", "b"]] if n % 2 else [], "size": size}
        # 3. default blocksize boundaries
        big = 16384
        for size in ([big - 1, big, big + 1] + ([40000] if deep else [])):
            for label, spec in body_specs(size, big):
                if label in ("bytes", "str", "file@0", "textfile@0", "generator", "list", "file-no-tell",
                             "stream-short-first", "stream-short-middle", "stream-short-last", "stream-long-pieces",
                             "textstream-short-middle"):
                    yield {"level": "conn", "meth": "PUT", "body": spec, "label": label, "chunked": False, "bs": big,
                           "hist": "o", "headers": [], "size": size}
                    if deep:
                        yield {"level": "pool", "meth": "PUT", "body": spec, "label": label, "chunked": True, "bs": big,
                               "hist": "so", "headers": [], "size": size}
        # 4. random
        for _ in range(30000 if deep else 1500):
            size = rng.choice(sizes + [2, 5, 33])
            rbs = rng.choice([1, 4, 16, 17])
            if rng.random() < 0.35:
                label, spec = random_stream(rng, size, rbs)
            else:
                label, spec = rng.choice(list(body_specs(size, rbs)))
            level = rng.choice(["conn", "pool", "manager"])
            h = "o" if level == "conn" else rng.choice(hists)
            yield {"level": level, "meth": rng.choice(METHODS[:-1] if level != "conn" else METHODS), "body": spec,
                   "label": label, "chunked": rng.random() < 0.4, "bs": rbs, "hist": h,
                   "retry": rng.choice(["total", "cat", "both"]),
                   "headers": rng.choice([[], [["Content-Type", "a/b"]], [["X-A", "1"], ["Content-Language", "en"]]]),
                   "size": size}

    # ---------------------------------------------------------------- execution
    def setup_worker(self):
        warnings.simplefilter("ignore")
        import time
        import urllib3.util.retry as r
        r.time = types.SimpleNamespace(sleep=lambda s: None, time=time.time)

    def execute(self, case, res):
        from ..net import Net, Server, http_response
        import urllib3
        from urllib3.connection import HTTPConnection
        from urllib3.connectionpool import HTTPConnectionPool
        from urllib3.util.retry import Retry

        level, meth, bs, hist = case["level"], case["meth"], case["bs"], case["hist"]
        chunked = bool(case["chunked"])
        headers = [tuple(h) for h in case["headers"]]
        hdict = dict(headers)
        body, btok, payload = build_body(case["body"])
        bclass = body_class(case["body"])
        res.bump("level:" + level)
        res.bump("body:" + case.get("label", bclass).split("@")[0])
        res.bump("hist:" + "".join(MODEL_LETTER[c] for c in hist))
        res.bump("size:" + str(case.get("size")))

        net = Net()
        served = [o for o in hist if o != "c"]

        def handler(peer, req):
            o = served[req.index] if req.index < len(served) else "o"
            if o == "r":
                peer.fault_on_read(ConnectionResetError(104, "Connection reset by peer"))
                return
            code = CODES[o]
            hs = [("Connection", "close")]
            if code in (301, 302, 303, 307, 308):
                hs.append(("Location", "/p"))
            peer.reply(http_response(code, hs, b""))
            peer.close()

        # HTTPConnection.request alone never reads a response: a silent server
        net.default_server = Server(handler if level != "conn" else None)

        def on_connect(sock, host, port):
            k = len(net.connects) - 1
            if k < len(hist) and hist[k] == "c":
                raise ConnectionRefusedError(111, "Connection refused")
        net.connect_hook = on_connect

        err = None
        # the budget is C04's subject; here three ways of granting enough of it for the scripted history to happen:
        # one total, per-category counters only (`total=None`), both
        rk = case.get("retry", "total")
        if rk == "cat":
            retry = Retry(total=None, connect=6, read=6, status=6, redirect=6, other=6, allowed_methods=None,
                          status_forcelist=[503], backoff_factor=0)
        elif rk == "both":
            retry = Retry(total=10, connect=6, read=6, status=6, redirect=6, allowed_methods=None,
                          status_forcelist=[503], backoff_factor=0)
        else:
            retry = Retry(total=10, allowed_methods=None, status_forcelist=[503], backoff_factor=0)
        res.bump("retry:" + rk)
        with net.installed():
            try:
                if level == "conn":
                    conn = HTTPConnection(HOST, 80, blocksize=bs)
                    try:
                        conn.request(meth, "/p", body=body, headers=hdict, chunked=chunked)
                    finally:
                        conn.close()
                elif level == "pool":
                    pool = HTTPConnectionPool(HOST, 80, blocksize=bs)
                    try:
                        pool.urlopen(meth, "/p", body=body, headers=hdict, chunked=chunked, retries=retry)
                    finally:
                        pool.close()
                else:
                    pm = urllib3.PoolManager(blocksize=bs)
                    try:
                        pm.request(meth, "http://" + HOST + "/p", body=body, headers=hdict, chunked=chunked, retries=retry)
                    finally:
                        pm.clear()
            except Exception as e:          # noqa: BLE001 - the class is the observation
                err = exc_name(e)
            wires = [bytes(net.sent[s]) for s in sorted(net.sent)]
        res.bump("outcome:" + (err or "ok"))

        # ---- model line
        hs_tok = enc_pairs(list(hdict.items()))
        if level == "conn":
            w = wires[0] if wires else b""
            lines = [f"req {cfg_tokens('/p', bs)} {enc(meth)} {enc('/p')} {hs_tok} {btok} {int(chunked)}"]
            out = [("ok " + enc(w)) if err is None else f"err {err} {enc(w)}"]
        else:
            letters = "".join(MODEL_LETTER[c] for c in hist)
            lines = [f"hist {level} {cfg_tokens('/p', bs)} {enc(meth)} {enc('/p')} {hs_tok} {btok} {int(chunked)} {letters}"]
            out = [f"result={err or 'ok'} n={len(wires)}" + "".join(" " + enc(w) for w in wires)]

        # ---- oracle
        def fail(sig, what, detail=None):
            res.bump("failure:" + sig)
            if res.hist["failure:" + sig] <= 5:          # a few witnesses per shard and signature are enough
                res.failures.append(Failure(signature=sig, what=f"{level}/{case.get('label')}/{hist}: {what}", case=case,
                                            detail=detail))

        caller_frames = any(k.lower() in ("content-length", "transfer-encoding") for k in hdict)
        first_payload = None
        differed = False
        seen303 = False
        sent = [c for c in hist if c != "c"]
        for i, w in enumerate(wires):
            p = strict_parse(w)
            trig = sent[i - 1] if 0 < i <= len(sent) else None
            if trig == "t":
                seen303 = True
            if p is None or (p["frame"] is None and not caller_frames):
                itemsize = case["body"][2] if case["body"][0] == "buf" else 1
                if itemsize > 1 and p is not None:
                    fail("C11:framing:chunked-buffer-itemsize", "chunk-size line counts items, the data is bytes: "
                         "malformed chunked body", {"wire": w[-60:].decode("latin-1")})
                else:
                    fail("C11:framing:malformed", "attempt %d is not exactly one framed request" % i,
                         {"wire": w[:200].decode("latin-1")})
                continue
            names = [k.lower() for k, _ in p["headers"]]
            nframing = names.count(b"content-length") + names.count(b"transfer-encoding")
            if seen303:
                if p["method"] != b"GET" or p["payload"] != b"" or (nframing and not chunked):
                    fail("C11:after-303", "the request following a 303 is not a body-less GET")
                continue
            if nframing > 1:
                fail("C11:framing:double", "both / repeated framing headers")
            if chunked and p["frame"] != "chunked":
                fail("C11:framing:chunked-not-honoured", f"chunked=True but framing is {p['frame']}")
            if case["body"][0] == "none" and not chunked:
                m = meth.upper()
                if m in BODYLESS_STRICT and p["frame"] != "unframed":
                    fail("C11:bodyless-table", f"body-less {meth} is framed ({p['frame']})")
                if m not in BODYLESS_LIKE and (p["frame"] != "content-length" or p["payload"] != b""):
                    fail("C11:bodyless-table", f"body-less {meth} lacks Content-Length: 0")
            elif case["body"][0] != "none" and nframing != 1:
                fail("C11:framing:count", f"{nframing} framing headers for a request with a body")
            if i == 0:
                first_payload = p["payload"]
                if payload is not None and p["payload"] != payload:
                    fail("C11:payload", f"framed payload ({len(p['payload'])} bytes) != body bytes ({len(payload)} bytes)")
            elif p["payload"] != first_payload and not differed:
                differed = True                 # only the first deviation is classified
                trigger = "redirect" if trig in "kKmn" else "retry"
                fail(classify(level, trigger, bclass, "body-differs"),
                     f"attempt {i} (after {CODES.get(trig, 'an error')}) carried {len(p['payload'])} body bytes, the first "
                     f"attempt {len(first_payload or b'')}: silently changed body")
        if err is not None and err != "UnrewindableBodyError":
            k = len(wires)
            trig = sent[k - 1] if 0 < k <= len(sent) else None
            trigger = "303" if trig == "t" else ("redirect" if trig and trig in "kKmn" else "retry")
            if payload is None and err == "UnicodeEncodeError":
                pass                            # unencodable str chunk: C10's subject
            else:
                fail(classify(level, trigger, bclass, "error-" + err),
                     f"the call failed with {err} (neither an identical re-send nor UnrewindableBodyError)")
        return lines, out

    def nontrivial(self, case, impl_out):
        if case["body"][0] == "none":
            return False
        if case["level"] == "conn":
            return True
        return any(o.startswith("result=") and int(o.split(" ")[1][2:]) >= 2 for o in impl_out)

    def shrink_candidates(self, case):
        h = case["hist"]
        for i in range(len(h) - 1):
            c = dict(case); c["hist"] = h[:i] + h[i + 1:]
            yield c
        if case["headers"]:
            c = dict(case); c["headers"] = []
            yield c
        if case["chunked"]:
            c = dict(case); c["chunked"] = False
            yield c


PROP = C11()
