"""C15 — what goes on the wire is exactly what the URL says.

Correspondence (driver `route`): every case builds one real `PoolManager` / `ProxyManager` over the
in-memory network (`harness/net.py`, fake TLS recording the SNI) and sends one GET per URL; per
request the pool identity (small integers in order of creation), the address that reached
`socket.connect` on the carrying connection, the `server_hostname` of every TLS handshake on it, the
CONNECT request (tunnels), the request target, the `Host` header values and the complete request
bytes — or the exception class — are compared with `U3.Route.routeUrl` on the same manager state.
Redirect cases (`follow`) send a 302 from the first origin and compare the follow-up request too.

Oracle (implementation only, straight from the property text; the expectations are computed from
the *components the generator assembled the URL from*, never from `parse_url`):
  dial      the TCP connection is opened to the URL's host (no brackets) and port (80/443 when
            absent) — through a proxy: to the proxy, and the CONNECT authority (tunnel) / the
            authority of the absolute-form target (forwarding) names the URL's host and port;
  host      exactly one Host header, naming that host (IPv6 in one pair of brackets) and port
            (absent only when it is the scheme's default);
  sni       the TLS server name is the host without brackets, zone id or trailing dot;
  target    origin form: normalised path?query, "/" when the path is empty; never the fragment or
            the userinfo (unique markers are planted in both and searched in all bytes sent);
  equiv     URLs of one group (differing only in scheme / host ASCII letter case or in an explicit
            default port) reach the same pool, the same address and produce byte-identical requests.
"""
from __future__ import annotations

import itertools
import re
import ssl
import warnings

from ..core import Prop, Failure, enc, enc_list, enc_pairs
from ..net import Net, Server, http_response
from .c14 import idna_table, idna_answer, ascii_lower, unquote_bytes, expected_bytes

UMARK = "uSrX7"          # planted in every generated userinfo
FMARK = "fRgZ9"          # planted in every generated fragment

HOSTNAMES = ["example.com", "a.b.c", "localhost", "h", "xn--bcher-kva.de", "a-b.c0.example", "www.example.org",
             "x1.y2", "a.example", "b.example"]
IPV4 = ["127.0.0.1", "1.2.3.4", "10.0.0.255", "192.168.1.1"]
V6 = ["::1", "1::", "::", "1:2:3:4:5:6:7:8", "::ffff:1.2.3.4", "fe80::abcd", "fe80::1", "2001:db8::8:800:200c:417a",
      "1:2:3:4:5:6:1.2.3.4", "::2"]
ZONES = ["%25eth0", "%eth0", "%25Eth0", "%251", "%25a%2fb", "%25~._-", "%25en0", "%2525a", "%25251", "%en0"]
IDN = ["bücher.de", "éx.éy", "例え.jp", "straße.de", "www.bücher.example"]
# hosts outside the classes the property lists: correspondence only (error paths, odd reg-names)
ODD = ["a b", "a..b", ".h", "%41b", "1.2.3.4%41", "ex%2eample", "a_b", "h\t", "a" * 64 + ".com", "a" * 63 + ".com",
       "256.1.1.1", "1.2.3", "h..", "[::1]x", "", "[::1%25]", "[1:2]", "h\n", "[::1%25a b]", "ü" * 70 + ".de", "-a-"]
PATHS = [None, "/", "/a/b", "/a/./b/../c", "/%7euser", "/a b", "/ä", "//x", "/..", "/a;b=c", "/@x", "/:",
         "/%zz", "/%2e%2e/x", "/a/", "/a/../../b", "/index.html", "/%41%2f", "/a//b", "/.", "/a/b/.."]
QUERIES = [None, "", "q=1", "a=b&c=d", "x y", "ö", "?", "a/b?c", "%41", "%", "k=v%20w", "u=http://x/"]
USERINFO = [None, UMARK, UMARK + ":pw", "a@" + UMARK, UMARK + "%40x:p%3a", UMARK + ":", ":" + UMARK, "U:" + UMARK + "!$&"]
FRAGS = [None, FMARK, "", FMARK + "?x/y", "a#" + FMARK, FMARK + "%41", " " + FMARK]
PROXIES = [("http://proxy.example:3128", False), ("http://10.0.0.9", False), ("https://proxy.example", False),
           ("https://[::2]:8443", False), ("http://PROXY.Example.:3128", False), ("https://proxy.example", True),
           ("https://Proxy.Example.:8443", True), ("http://[fe80::9%25eth1]:3128", False)]
MODES = [["d"]] + [["p", u, f] for u, f in PROXIES]
ORACLE_KINDS = ("name", "dot", "v4", "v6", "v6z", "idn", "idndot")


def flip_case(s, rng):
    return "".join((ch.upper() if rng.random() < 0.5 else ch.lower()) if ("a" <= ch.lower() <= "z") else ch for ch in s)


def host_case(ht, f):
    """apply the case mapping `f` to the host text, leaving an IPv6 zone id alone (a zone id is not
    case-insensitive; C14 reads "host lower-cased" the same way)"""
    if ht.startswith("[") and "%" in ht:
        k = ht.index("%")
        return f(ht[:k]) + ht[k:]
    return f(ht)


def assemble(m):
    s = m["st"] + "://"
    if m["ui"] is not None:
        s += m["ui"] + "@"
    s += m["ht"]
    if m["pt"] is not None:
        s += ":" + m["pt"]
    s += m["path"] or ""
    if m["q"] is not None:
        s += "?" + m["q"]
    if m["f"] is not None:
        s += "#" + m["f"]
    return s


def mode_class(mode, scheme):
    """direct | tunnel | forward, as the documented routing says"""
    if mode[0] == "d":
        return "direct"
    if scheme == "http":
        return "forward"
    if mode[1].lower().startswith("https:") and mode[2]:
        return "forward"
    return "tunnel"


# ------------------------------------------------------------------ expectations from the components

def url_host(meta):
    """the host the URL names, from the generator's components: dict(v6, name | addr, zone) or None
    when a label has no IDNA form (the URL is then not one the manager accepts)"""
    hk, ht = meta["hk"], meta["ht"]
    if hk in ("name", "dot", "v4"):
        return {"v6": False, "name": ascii_lower(ht)}
    if hk in ("idn", "idndot"):
        labels = []
        for lab in ht.split("."):
            if lab.isascii():
                labels.append(ascii_lower(lab))
            else:
                a = idna_answer(lab)
                if a is None:
                    return None
                labels.append(a)
        return {"v6": False, "name": ".".join(labels)}
    if hk in ("v6", "v6z"):
        body = ht[1:-1]
        k = body.find("%")
        if k < 0:
            return {"v6": True, "addr": ascii_lower(body), "zone": None, "zone25": False}
        z = body[k + 1:]
        if z.startswith("25") and len(z) > 2:          # RFC 6874 delimiter "%25"; a bare "%" is urllib3's lenient form
            z = z[2:]
        return {"v6": True, "addr": ascii_lower(body[:k]), "zone": unquote_bytes(z), "zone25": z.startswith("25") and len(z) > 2,
                "zone_alt": unquote_bytes(z[2:]) if z.startswith("25") and len(z) > 2 else None}
    return None


def url_port(meta, zero_as_absent=False):
    dflt = 80 if meta["scheme"] == "http" else 443
    pt = meta["pt"]
    if pt in (None, ""):
        return dflt, dflt
    p = int(pt)
    if p == 0 and zero_as_absent:
        return dflt, dflt
    return p, dflt


def split_zone(h):
    k = h.find("%")
    return (h, None) if k < 0 else (h[:k], h[k + 1:])


def same_host_text(got, exp, zone_alt=False, dot_optional=False, zone_optional=False):
    """is `got` (unbracketed text) the host `exp`?  ASCII case-insensitive, zone modulo
    percent-decoding (and, optionally, allowed to be left out), trailing dot exact unless optional"""
    if exp["v6"]:
        a, z = split_zone(got)
        if ascii_lower(a) != exp["addr"]:
            return False
        want = exp["zone_alt"] if zone_alt else exp["zone"]
        if z is None:
            return want is None or zone_optional
        if want is None:
            return False
        return ascii_lower(unquote_bytes(z).decode("latin-1")) == ascii_lower(want.decode("latin-1"))
    g, e = ascii_lower(got), exp["name"]
    if dot_optional:
        g, e = g.rstrip("."), e.rstrip(".")
    return g == e


def parse_hostport(s):
    """'host[:port]' / '[v6]:port' -> (unbracketed host, port | None, bracketed) or None when malformed"""
    if s.startswith("["):
        j = s.find("]")
        if j < 0:
            return None
        host, rest, br = s[1:j], s[j + 1:], True
        if "[" in host:
            return None
    else:
        k = s.find(":")
        host, rest, br = (s, "", False) if k < 0 else (s[:k], s[k:], False)
        if "]" in host or "[" in host:
            return None
    if rest == "":
        return host, None, br
    if rest[0] == ":" and rest[1:].isdigit():
        return host, int(rest[1:]), br
    return None


def ref_dotless(path):
    return not any(seg in (".", "..") for seg in path.split("/"))


class Obs:
    """what was observed for one request"""
    __slots__ = ("pool", "dial", "tls", "connect", "target", "hosts", "raw", "line")


class C15(Prop):
    id = "C15"
    model = "route"
    rule = ("URLs assembled from components: scheme http/https in random letter case; userinfo (with nested '@', "
            "escapes); host = LDH hostname / trailing dot / IPv4 / bracketed IPv6 without and with zone id (RFC 6874 "
            "'%25' and bare '%' forms, zone ids starting with '25') / IDN labels (answers of the idna package handed "
            "to the model) / a few odd reg-names for the error paths; port absent, empty, explicit default (also with "
            "leading zeros), other scheme's default, odd, 0, out of range; path (empty, dot segments, escapes, "
            "non-ASCII, '//x'), query (absent, empty, hostile), fragment. Every case sends 6-12 such URLs, several "
            "of them variants of one another (scheme/host letter case, explicit default port), through ONE manager: "
            "a PoolManager or a ProxyManager (http / https proxy, tunnelling or use_forwarding_for_https, IPv6 and "
            "trailing-dot proxy hosts) over the in-memory network with fake TLS; plus a systematic product "
            "host x port form x scheme x manager, and cross-host / same-host redirect follow-ups. Compared with the "
            "Lean model per request: pool identity, dial address, SNI list, CONNECT bytes, target, Host values, "
            "request bytes or exception class. Oracle on the implementation: dial / host / sni / target / equiv "
            "clauses of the property text from the generator's components. "
            "non-trivial = at least one URL of the case was accepted and sent")
    assumptions = [
        "name resolution is an echo: the dial address is what reaches socket.connect (real DNS is never consulted)",
        "TLS is the harness's recording layer: the server name is the server_hostname handed to ssl_wrap_socket",
        "idna.encode is an uninterpreted function (answers computed by the harness and handed to the model)",
        "host comparison is ASCII-case-insensitive; an IPv6 zone id is compared modulo percent-decoding and may be "
        "left out of the Host header, the CONNECT authority and an absolute-form target",
        "with a proxy, 'the TCP connection is opened to the URL's host and port' is read as: the connection goes to "
        "the proxy and the CONNECT authority / absolute-form authority names the URL's host and port",
        "a Host header that carries the default port explicitly still 'names that host and port' (the byte-identity "
        "clause, not the Host clause, objects to it)",
    ]
    trusted = ["harness/net.py (socketpair-based in-memory network, fake TLS)", "CPython http.client / encodings.idna "
               "(modelled: Host header code, set_tunnel/_tunnel, ASCII fast path of the idna codec)",
               "idna package (answers taken as given)"]
    time_budget = {"quick": 140, "thorough": 1500}
    exhaustive = {"quick": False, "thorough": False}
    batch = 1500
    MAX_PER_SIG = 4

    # ------------------------------------------------------------ generation
    def host_of(self, rng, kind=None):
        kind = kind or rng.choice(["name", "name", "name", "dot", "v4", "v6", "v6", "v6z", "v6z", "idn", "idndot", "odd"])
        if kind == "name":
            return kind, rng.choice(HOSTNAMES)
        if kind == "dot":
            return kind, rng.choice(HOSTNAMES) + "."
        if kind == "v4":
            return kind, rng.choice(IPV4)
        if kind == "v6":
            return kind, "[" + rng.choice(V6) + "]"
        if kind == "v6z":
            return kind, "[" + rng.choice(V6) + rng.choice(ZONES) + "]"
        if kind == "idn":
            return kind, rng.choice(IDN)
        if kind == "idndot":
            return kind, rng.choice(IDN) + "."
        return "odd", rng.choice(ODD)

    def port_of(self, rng, scheme):
        d = "80" if scheme == "http" else "443"
        o = "443" if scheme == "http" else "80"
        r = rng.random()
        if r < 0.45:
            return "dflt", rng.choice([None, None, "", d, d, "0" + d, "000" + d])
        if r < 0.9:
            return "odd", rng.choice(["8080", "1", "65535", "81", o, "8443", "3128", "08080"])
        return "edge", rng.choice(["0", "00", "65536", "99999"])

    def base(self, rng, hk=None):
        scheme = rng.choice(["http", "https"])
        hk, ht = self.host_of(rng, hk)
        pk, pt = self.port_of(rng, scheme)
        return {"scheme": scheme, "st": scheme, "ui": rng.choice(USERINFO) if rng.random() < 0.35 else None,
                "hk": hk, "ht": ht, "pk": pk, "pt": pt,
                "path": rng.choice(PATHS), "q": rng.choice(QUERIES) if rng.random() < 0.5 else None,
                "f": rng.choice(FRAGS) if rng.random() < 0.35 else None}

    def variant(self, rng, b):
        m = dict(b)
        m["st"] = flip_case(b["scheme"], rng)
        if b["hk"] != "odd":
            m["ht"] = host_case(b["ht"], lambda t: flip_case(t, rng))
        if b["pk"] == "dflt":
            d = "80" if b["scheme"] == "http" else "443"
            m["pt"] = rng.choice([None, "", d, "0" + d])
        return m

    def group_case(self, rng, mode=None):
        mode = mode or rng.choice(MODES + [["d"], ["d"]])
        items, g = [], 0
        for _ in range(rng.randint(2, 4)):
            b = self.base(rng)
            vs = [b] + [self.variant(rng, b) for _ in range(rng.choice([0, 1, 1, 2]))]
            for v in vs:
                v = dict(v)
                v["grp"] = g
                items.append(v)
            g += 1
            if b["hk"] == "v6z" and rng.random() < 0.5:
                # the same address with the zone id in another letter case: NOT an equivalent URL (own
                # group), but it lands on the same pool key -- exercised for the correspondence
                k = b["ht"].index("%")
                items.append(dict(b, ht=b["ht"][:k] + flip_case(b["ht"][k:], rng), grp=g))
                g += 1
        rng.shuffle(items)
        return {"kind": "urls", "mode": mode, "urls": [dict(m, url=assemble(m)) for m in items]}

    def systematic(self):
        """every listed host x port form x scheme x manager, in cases of one host each"""
        hosts = ([("name", h) for h in HOSTNAMES[:4]] + [("dot", "example.com."), ("dot", "h.")] + [("v4", IPV4[0])] +
                 [("v6", "[" + a + "]") for a in V6[:5]] + [("v6z", "[fe80::1" + z + "]") for z in ZONES] +
                 [("idn", h) for h in IDN[:3]] + [("idndot", IDN[0] + ".")] + [("odd", h) for h in ODD])
        for mode in MODES:
            for hk, ht in hosts:
                items = []
                for g, scheme in enumerate(("http", "https")):
                    d = "80" if scheme == "http" else "443"
                    for pt, pk in ((None, "dflt"), (d, "dflt"), ("0" + d, "dflt"), ("", "dflt"), ("8080", "odd"), ("0", "edge")):
                        m = {"scheme": scheme, "st": scheme, "ui": None, "hk": hk, "ht": ht, "pk": pk, "pt": pt,
                             "path": "/p", "q": None, "f": None, "grp": g if pk == "dflt" else 10 + len(items)}
                        items.append(dict(m, url=assemble(m)))
                    up = {"scheme": scheme, "st": scheme.upper(), "ui": UMARK + ":pw", "hk": hk,
                          "ht": host_case(ht, str.upper) if hk != "odd" else ht, "pk": "dflt", "pt": None,
                          "path": None, "q": "q=1", "f": FMARK, "grp": 20 + g}
                    lo = dict(up, st=scheme, ht=ht, pt=d, grp=20 + g)
                    items += [dict(up, url=assemble(up)), dict(lo, url=assemble(lo))]
                yield {"kind": "urls", "mode": mode, "urls": items}

    def redirect_case(self, rng, mode=None):
        mode = mode or rng.choice(MODES)
        scheme = rng.choice(["http", "http", "https"])
        a = {"scheme": scheme, "st": scheme, "ui": None, "hk": "name", "ht": rng.choice(["a.example", "h", "example.com"]),
             "pk": "dflt", "pt": rng.choice([None, "8080"]), "path": "/start", "q": None, "f": None, "grp": 0}
        b = self.base(rng, rng.choice(["name", "name", "v4", "v6", "dot"]))
        if rng.random() < 0.25:
            b = dict(a, path="/next")              # same-origin redirect
        b = dict(b, grp=1, ui=None, f=None)
        if b["pk"] == "edge":
            b["pk"], b["pt"] = "dflt", None
        from urllib.parse import urljoin
        if urljoin(assemble(a), assemble(b)) != assemble(b):     # the follow-up is urljoin's answer (drops an empty query, …)
            b = dict(b, path="/next", q=None)
        return {"kind": "redirect", "mode": mode, "urls": [dict(a, url=assemble(a)), dict(b, url=assemble(b))]}

    SEEDS = [
        # DESIGN §7 candidates and the non-vacuity examples of the Props file
        (["d"], ["http://[FE80::1%25eth0]:080/a/../b?x#" + FMARK, "https://" + UMARK + ":pw@Example.COM./?q#" + FMARK,
                 "https://example.com.:443?q=1", "http://h:0/", "https://[::1%2525a]/", "http://EXAMPLE.com:80/a?b#c",
                 "http://example.com/a?b"]),
        (["p", "http://proxy.example:3128", False],
         ["http://" + UMARK + ":pw@example.com:80/p?q#" + FMARK, "http://example.com/p?q", "https://[::1]:8443/x",
          "https://[fe80::1%25eth0]/z", "https://example.com./x", "http://h:0/", "https://h:0/"]),
        (["p", "https://proxy.example", True], ["https://example.com:443/", "https://example.com/", "https://h:0/"]),
    ]

    def seed_cases(self):
        for mode, urls in self.SEEDS:
            items = []
            for i, u in enumerate(urls):
                items.append(self.meta_from_text(u, i))
            yield {"kind": "urls", "mode": mode, "urls": items}
        a = self.meta_from_text("http://a.example/start", 0)
        b = self.meta_from_text("http://b.example/next", 1)
        yield {"kind": "redirect", "mode": ["p", "http://proxy.example:3128", False], "urls": [a, b]}
        yield {"kind": "redirect", "mode": ["d"], "urls": [a, b]}

    def meta_from_text(self, u, grp):
        """components of a hand-written seed URL (simple split; seeds are well-formed)"""
        st, rest = u.split("://", 1)
        f = q = None
        if "#" in rest:
            rest, f = rest.split("#", 1)
        if "?" in rest:
            rest, q = rest.split("?", 1)
        k = rest.find("/")
        auth, path = (rest, None) if k < 0 else (rest[:k], rest[k:])
        ui = None
        if "@" in auth:
            ui, auth = auth.rsplit("@", 1)
        if auth.startswith("["):
            j = auth.index("]")
            ht, tail = auth[:j + 1], auth[j + 1:]
        else:
            j = auth.find(":")
            ht, tail = (auth, "") if j < 0 else (auth[:j], auth[j:])
        pt = tail[1:] if tail.startswith(":") else None
        hk = ("v6z" if "%" in ht else "v6") if ht.startswith("[") else ("dot" if ht.endswith(".") else "name")
        if not ht.isascii():
            hk = "idn"
        scheme = st.lower()
        d = "80" if scheme == "http" else "443"
        pk = "dflt" if pt in (None, "", d) else ("edge" if pt.strip("0") == "" else "odd")
        return {"scheme": scheme, "st": st, "ui": ui, "hk": hk, "ht": ht, "pk": pk, "pt": pt, "path": path, "q": q,
                "f": f, "grp": 100 + grp, "url": u}

    # how the caller hands over its (Host-less) headers: not at all, one object re-used for every request of the
    # history (a plain dict / an HTTPHeaderDict), or the same as the manager's default headers.  The derivations of
    # C15 do not depend on it; a manager that writes what it derived for one URL into the caller's object would.
    HDR_MODES = [None, "hd", None, "dict", "mgr-hd", None, "mgr-dict", "hd"]

    def cases(self, rng, tier, escalate=False):
        k = 0
        for c in self.cases_plain(rng, tier, escalate):
            if c.get("kind") != "redirect" and "hdr" not in c:
                k += 1
                c = dict(c, hdr=self.HDR_MODES[k % len(self.HDR_MODES)])
            yield c

    def cases_plain(self, rng, tier, escalate=False):
        deep = tier == "thorough" or escalate
        yield from self.seed_cases()
        yield from self.systematic()
        for mode in MODES:
            for _ in range(6 if deep else 2):
                yield self.redirect_case(rng, mode)
        n = 50000 if deep else 2500
        for i in range(n):
            if i % 12 == 11:
                yield self.redirect_case(rng)
            else:
                yield self.group_case(rng)

    def shrink_candidates(self, case):
        urls = case.get("urls") or []
        if case.get("kind") == "redirect":
            return
        for i in range(len(urls)):
            c = dict(case)
            c["urls"] = urls[:i] + urls[i + 1:]
            if c["urls"]:
                yield c

    # ------------------------------------------------------------ running the implementation
    def setup_worker(self):
        warnings.simplefilter("ignore")
        self._ctx = ssl.SSLContext(ssl.PROTOCOL_TLS_CLIENT)
        self._ctx.check_hostname = False
        self._ctx.verify_mode = ssl.CERT_NONE
        self._pctx = ssl.SSLContext(ssl.PROTOCOL_TLS_CLIENT)
        self._pctx.check_hostname = False
        self._pctx.verify_mode = ssl.CERT_NONE

    def add_failure(self, res, sig, what, case):
        key = "failure:" + sig
        res.bump(key)
        if res.hist[key] <= self.MAX_PER_SIG:
            res.failures.append(Failure(signature=sig, what=what, case=case))

    @staticmethod
    def exc_name(e):
        # `urlopen` re-labels an OSError / HTTPException as ProxyError instead of ProtocolError when the
        # connection has a proxy and has not connected to it yet (connection life-cycle state, the subject
        # of C04 / C09): one class here
        if type(e).__name__ == "ProxyError":
            return "ProtocolError"
        if isinstance(e, UnicodeError) and not isinstance(e, (UnicodeEncodeError, UnicodeDecodeError)):
            return "UnicodeError"
        return type(e).__name__

    def model_line(self, op, url):
        line = op + " " + enc(url)
        ok_tbl = [(k, v) for k, v in idna_table(url).items() if v is not None]
        if ok_tbl:
            line += " " + enc_pairs(ok_tbl)
        return line

    def observe(self, net, peer, req, pool_id):
        o = Obs()
        sock = net.socks[peer.sid]
        tls, t = [], sock.tls
        while t:
            tls.append(t.get("sni"))
            t = t.get("outer")
        tls.reverse()
        first = peer.requests[0]
        o.pool = pool_id
        o.dial = peer.addr
        o.tls = tls
        o.connect = bytes(first.raw) if first.method == "CONNECT" else None
        raw = bytes(req.raw)
        head = raw.split(b"\r\n\r\n", 1)[0].split(b"\r\n")
        rest = head[0].split(b" ", 1)[1] if b" " in head[0] else b""
        o.target = rest.rsplit(b" ", 1)[0] if b" " in rest else rest
        hosts = []
        for ln in head[1:]:
            name, _, val = ln.partition(b":")
            if name.lower() == b"host":
                hosts.append(val[1:] if val.startswith(b" ") else val)
        o.hosts = hosts
        o.raw = raw
        # the caller's own (Host-less, opaque) header lines are passed through: not part of what C15 derives
        for ln in getattr(self, "_caller_lines", ()):
            raw = raw.replace(ln, b"", 1)
        o.line = (f"ok pool={o.pool} dial={enc(o.dial[0])} {o.dial[1]} tls={enc_list([x if x is not None else '~' for x in tls])} "
                  f"connect={enc(o.connect) if o.connect is not None else '~'} target={enc(o.target)} "
                  f"host={enc_list(hosts)} req={enc(raw)}")
        return o

    def execute(self, case, res):
        import urllib3
        from urllib3 import PoolManager, ProxyManager

        if not hasattr(self, "_ctx"):
            self.setup_worker()
        lines, out = [], []
        mode = case["mode"]
        items = case["urls"]
        redirect = case.get("kind") == "redirect"
        net = Net()
        state = {"redirect_to": items[1]["url"] if redirect else None}

        def handler(peer, req):
            if req.method == "CONNECT":
                h, _, p = req.target.rpartition(":")
                peer.tunnel_to = (h, int(p) if p.isdigit() else 0)
                peer.reply(b"HTTP/1.1 200 OK\r\n\r\n")
            elif state["redirect_to"] is not None:
                loc, state["redirect_to"] = state["redirect_to"], None
                peer.reply(http_response(302, headers=[("Location", loc)], body=b""))
            else:
                peer.reply(http_response(200, body=b"ok"))

        net.default_server = Server(handler)
        res.bump("mode:" + ("direct" if mode[0] == "d" else ("proxy-" + mode[1].split(":")[0].lower() + ("-fwd" if mode[2] else ""))))
        with net.installed(fake_tls=True):
            kw = dict(num_pools=500, cert_reqs="CERT_NONE", ssl_context=self._ctx)
            hm = case.get("hdr")
            res.bump("hdr:" + str(hm))
            shared = None
            self._caller_lines = ()
            if hm:
                self._caller_lines = (b"X-Trace: 1\r\n", b"Accept-Language: en\r\n")
                pairs = [("X-Trace", "1"), ("Accept-Language", "en")]
                shared = urllib3.HTTPHeaderDict(pairs) if hm.endswith("hd") else dict(pairs)
                if hm.startswith("mgr-"):
                    kw["headers"] = shared
            rkw = {"headers": shared} if (hm and not hm.startswith("mgr-")) else {}
            if mode[0] == "d":
                lines.append("mgr d")
                pm = PoolManager(**kw)
                out.append("ok")
            else:
                lines.append(f"mgr p {enc(mode[1])} {int(bool(mode[2]))}")
                try:
                    pm = ProxyManager(mode[1], proxy_ssl_context=self._pctx, use_forwarding_for_https=bool(mode[2]), **kw)
                    out.append("ok")
                except Exception as e:
                    out.append("err " + self.exc_name(e))
                    return lines, out
            keep, ids, last = [], {}, []
            orig = pm.connection_from_host

            def recording(*a, **k):
                p = orig(*a, **k)
                if id(p) not in ids:
                    ids[id(p)] = len(keep)
                    keep.append(p)
                last.append(ids[id(p)])
                return p

            pm.connection_from_host = recording
            observed = []
            if redirect and any(self.origin_is_proxy(mode, m) for m in items):
                res.bump("skipped:origin-is-proxy")
                return lines, out
            if redirect:
                n0 = len(net.requests)
                del last[:]
                lines.append(self.model_line("route", items[0]["url"]))
                try:
                    pm.request("GET", items[0]["url"], redirect=True,
                               retries=urllib3.Retry(total=None, connect=0, read=0, redirect=3, status=0, other=0))
                    err = None
                except Exception as e:
                    err = e
                reqs = [(p, r) for p, r in net.requests[n0:] if r.method != "CONNECT"]
                for i, (p, r) in enumerate(reqs[:2]):
                    if i == 1:
                        lines.append(self.model_line("follow", items[1]["url"]))
                    o = self.observe(net, p, r, last[i] if i < len(last) else -1)
                    out.append(o.line)
                    observed.append((items[i], o))
                if err is not None:
                    if len(reqs) == 1:
                        lines.append(self.model_line("follow", items[1]["url"]))
                    if len(reqs) < 2:
                        out.append("err " + self.exc_name(err))
                    res.bump("result:err:" + self.exc_name(err))
                elif len(reqs) != 2:
                    res.errors.append({"case": case, "trace": f"redirect case produced {len(reqs)} requests"})
            else:
                for m in items:
                    if mode[0] == "p" and m["ht"] == "":
                        continue            # no host through a proxy: forwarded with the proxy's own Host (not modelled)
                    if self.origin_is_proxy(mode, m):
                        res.bump("skipped:origin-is-proxy")
                        continue            # origin == proxy address: pool shared between forwarding and tunnelling (not modelled)
                    n0 = len(net.requests)
                    del last[:]
                    lines.append(self.model_line("route", m["url"]))
                    try:
                        pm.request("GET", m["url"], retries=False, redirect=False, **rkw)
                    except Exception as e:
                        out.append("err " + self.exc_name(e))
                        res.bump("result:err:" + self.exc_name(e))
                        observed.append((m, None))
                        continue
                    reqs = [(p, r) for p, r in net.requests[n0:] if r.method != "CONNECT"]
                    if len(reqs) != 1 or not last:
                        out.append(f"ok but {len(reqs)} requests")
                        continue
                    o = self.observe(net, reqs[0][0], reqs[0][1], last[-1])
                    out.append(o.line)
                    observed.append((m, o))
                    res.bump("result:ok")
            pm.clear()
        self.oracle(case, mode, observed, res)
        return lines, out

    # ------------------------------------------------------------ the oracle (implementation only)
    def proxy_addr(self, mode):
        """(host text without brackets, port) of the proxy, from the proxy URL text"""
        sch, rest = mode[1].split("://", 1)
        d = 80 if sch.lower() == "http" else 443
        if rest.startswith("["):
            j = rest.index("]")
            h, tail = rest[1:j], rest[j + 1:]
            a, z = split_zone(h)
            if z is not None and z.startswith("25"):
                z = z[2:]
            h = a if z is None else a + "%" + z
        else:
            j = rest.find(":")
            h, tail = (rest, "") if j < 0 else (rest[:j], rest[j:])
        return ascii_lower(h), (int(tail[1:]) if tail[1:] else d)

    def origin_is_proxy(self, mode, m):
        """an https URL whose host and port are the https proxy's own address, to be tunnelled: the pool key
        of the tunnelled origin pool then coincides with the key of the proxy's own pool (the one that
        forwards http URLs), so forwarded and tunnelled requests share one pool and its idle connections —
        connection reuse across request kinds is outside the model (and outside what the property says:
        origin and proxy are the same server); see notes/C15.md "Domain restriction" """
        if mode[0] != "p" or mode[2] or not mode[1].lower().startswith("https:") or m["scheme"] != "https":
            return False
        if m["hk"] not in ORACLE_KINDS:
            return False
        hx = url_host(m)
        if hx is None:
            return False
        try:
            P, _ = url_port(m, zero_as_absent=True)
        except ValueError:
            return False
        ph, pp = self.proxy_addr(mode)
        if hx["v6"]:
            name = hx["addr"] if hx["zone"] is None else None
        else:
            name = hx["name"]
        return name is not None and (name, P) == (ph, pp)

    def clause_failures(self, mode, m, o, hx, P, dflt, zone_alt):
        """list of (clause, detail) the observation violates, under the expectation (hx, P)"""
        bad = []
        mc = mode_class(mode, m["scheme"])
        # ---- dial
        if mc == "direct":
            if not (same_host_text(o.dial[0], hx, zone_alt) and o.dial[1] == P) or "[" in o.dial[0]:
                bad.append(("dial", f"connected to {o.dial!r}"))
        else:
            ph, pp = self.proxy_addr(mode)
            if (ascii_lower(o.dial[0]), o.dial[1]) != (ph, pp):
                bad.append(("dial", f"connected to {o.dial!r}, the proxy is {(ph, pp)!r}"))
        if mc == "tunnel":
            ok = False
            if o.connect is not None:
                parts = o.connect.split(b"\r\n", 1)[0].split(b" ")
                if len(parts) == 3 and parts[0] == b"CONNECT":
                    hp = parse_hostport(parts[1].decode("latin-1"))
                    ok = (hp is not None and hp[1] == P and hp[2] == hx["v6"] and
                          same_host_text(hp[0], hx, zone_alt, zone_optional=True))
            if not ok:
                bad.append(("dial", f"CONNECT request {o.connect!r}"))
        elif o.connect is not None:
            bad.append(("dial", "a CONNECT was sent although no tunnel is documented"))
        # ---- Host header
        if len(o.hosts) != 1:
            bad.append(("host-header", f"{len(o.hosts)} Host headers"))
        else:
            hp = parse_hostport(o.hosts[0].decode("latin-1"))
            if (hp is None or hp[2] != hx["v6"] or not same_host_text(hp[0], hx, zone_alt, dot_optional=True, zone_optional=True)
                    or not (hp[1] == P or (hp[1] is None and P == dflt))):
                bad.append(("host-header", f"Host: {o.hosts[0]!r}"))
        # ---- SNI
        if m["scheme"] == "https" and mc in ("direct", "tunnel"):
            want = hx["addr"] if hx["v6"] else hx["name"].rstrip(".")
            if not o.tls or o.tls[-1] is None or ascii_lower(o.tls[-1]) != want:
                bad.append(("sni", f"TLS server names {o.tls!r}, expected the last to be {want!r}"))
        elif m["scheme"] == "http" and mc == "direct" and o.tls:
            bad.append(("sni", f"TLS on a plain http connection: {o.tls!r}"))
        # ---- target
        t = o.target.decode("latin-1")
        path, q = m["path"] or "", m["q"]
        if mc == "forward":
            ok = False
            detail = f"target {t!r}"
            if "://" in t:
                sch, rest = t.split("://", 1)
                k = min([i for i in (rest.find("/"), rest.find("?"), rest.find("#")) if i >= 0] or [len(rest)])
                auth, pq = rest[:k], rest[k:]
                hp = parse_hostport(auth) if "@" not in auth else None
                ok = (sch == m["scheme"] and hp is not None and hp[2] == hx["v6"] and
                      same_host_text(hp[0], hx, zone_alt, dot_optional=True, zone_optional=True) and
                      (hp[1] == P or (hp[1] is None and P == dflt)) and self.pq_ok(pq, path, q, allow_empty=True))
            if not ok:
                bad.append(("target", detail))
        else:
            if not self.pq_ok(t, path, q, allow_empty=False):
                bad.append(("target", f"target {t!r}"))
        # ---- never the userinfo / the fragment: in the request line it is a target failure (above or
        # here), anywhere else in what was sent it is a leak
        line0 = o.raw.split(b"\r\n", 1)[0]
        elsewhere = o.raw[len(line0):] + (o.connect or b"")
        for what, mark in (("userinfo", UMARK if m["ui"] is not None else None), ("fragment", FMARK if m["f"] is not None else None)):
            if mark is None:
                continue
            if mark.encode() in line0 and not any(b[0] == "target" for b in bad):
                bad.append(("target", f"the {what} is in the request line {line0!r}"))
            if mark.encode() in elsewhere:
                bad.append(("leak", f"the {what} is on the wire outside the request line"))
        return bad

    def pq_ok(self, pq, path, q, allow_empty):
        """is `pq` the normalised path?query of the URL (path, q)?  printable ASCII, no '#', starts with '/'
        ('/' when the path is empty; in absolute form an empty path may stay empty); for paths without dot
        segments: equal to the URL's path and query modulo percent-encoding"""
        if "#" in pq or any(not (0x21 <= ord(c) <= 0x7e) for c in pq):
            return False
        p, sep, qq = pq.partition("?")
        if (q is None) != (sep == ""):
            return False
        if path == "":
            if not (p == "/" or (allow_empty and p == "")):
                return False
        else:
            if not p.startswith("/"):
                return False
            if ref_dotless(path):
                if unquote_bytes(p) != expected_bytes(path):
                    return False
            elif any(seg in (".", "..") for seg in p.split("/")):
                return False
        if q is not None and unquote_bytes(qq) != expected_bytes(q):
            return False
        return True

    def oracle(self, case, mode, observed, res):
        def fail(sig, what, m):
            # the whole case is the reproducer (what a request does may depend on the pools and idle
            # connections earlier requests of the same manager left behind); the engine shrinks it
            self.add_failure(res, sig, what, case)

        redirect = case.get("kind") == "redirect"
        accepted = {}
        for idx, (m, o) in enumerate(observed):
            if o is None or m["hk"] not in ORACLE_KINDS:
                res.bump("oracle:skipped")
                continue
            hx = url_host(m)
            if hx is None:
                continue
            res.bump("oracle:" + mode_class(mode, m["scheme"]) + ":" + m["hk"])
            P, dflt = url_port(m)
            bad = self.clause_failures(mode, m, o, hx, P, dflt, False)
            mc = mode_class(mode, m["scheme"])
            if bad:
                # known root causes: a clause failure that disappears when the expectation is computed
                # with the substitution the root cause stands for is attributed to that root cause
                zero = m["pt"] not in (None, "") and int(m["pt"]) == 0
                z25 = bool(hx["v6"] and hx.get("zone25"))
                alts = []
                if zero:
                    alts.append((("port-zero-treated-as-absent",), self.clause_failures(mode, m, o, hx, dflt, dflt, False)))
                if z25:
                    alts.append((("zone-25-prefix-stripped-twice",), self.clause_failures(mode, m, o, hx, P, dflt, True)))
                if zero and z25:
                    alts.append((("port-zero-treated-as-absent", "zone-25-prefix-stripped-twice"),
                                 self.clause_failures(mode, m, o, hx, dflt, dflt, True)))
                blamed = {}
                for bfail in list(bad):
                    if bfail[0] not in ("dial", "host-header", "target"):
                        continue
                    for names, alt in alts:
                        if not any(x[0] == bfail[0] for x in alt):
                            for nm in names:
                                blamed.setdefault(nm, []).append(bfail[1])
                            bad.remove(bfail)
                            break
                texts = {"port-zero-treated-as-absent": "explicit port 0 is handled like an absent port",
                         "zone-25-prefix-stripped-twice": "a zone id starting with '25' loses those two characters"}
                for nm, details in blamed.items():
                    fail(nm, f"{m['url']!r} ({mc}): {texts[nm]}: " + "; ".join(details), m)
            for clause, detail in bad:
                fail(self.classify(mode, clause, mc, m, o, hx, P, dflt, observed, idx, redirect),
                     f"{m['url']!r} via {mode!r} ({mc}): {clause}: {detail}", m)
            accepted.setdefault(m["grp"], []).append((m, o))
        # ---- equivalence groups
        if redirect:
            return
        for grp, lst in accepted.items():
            m0, o0 = lst[0]
            mc = mode_class(mode, m0["scheme"])
            for m1, o1 in lst[1:]:
                diffs = []
                if o1.pool != o0.pool:
                    diffs.append("pool")
                if (ascii_lower(o1.dial[0]), o1.dial[1]) != (ascii_lower(o0.dial[0]), o0.dial[1]):
                    diffs.append("address")
                if o1.raw != o0.raw or o1.connect != o0.connect:
                    diffs.append("bytes")
                if not diffs:
                    continue
                features = ["other"]
                if diffs == ["bytes"] and mc == "forward":
                    def strip_port(raw, m):
                        pt = m["pt"]
                        if pt in (None, ""):
                            return raw
                        return re.sub(rb":%d(?=[/?# \r])" % int(pt), b"", raw)
                    ports_differ = (m0["pt"] or "") != (m1["pt"] or "")
                    a0, a1 = strip_port(o0.raw, m0), strip_port(o1.raw, m1)
                    if a0 == a1 and ports_differ:
                        features = ["explicit-default-port"]
                for feature in features:
                    self.add_failure(res, f"equiv:{mc}:{'+'.join(diffs)}:{feature}",
                                     f"{m0['url']!r} and {m1['url']!r} differ only in scheme/host letter case or an explicit "
                                     f"default port but differ in {diffs} via {mode!r}: {o0.raw[:120]!r} vs {o1.raw[:120]!r}",
                                     case)

    def classify(self, mode, clause, mc, m, o, hx, P, dflt, observed, idx, redirect):
        sig = f"{clause}:{mc}:"
        if clause == "host-header" and mc == "tunnel" and hx["v6"] and len(o.hosts) == 1:
            v = o.hosts[0].decode("latin-1")
            ports = ["" if P == dflt else ":%d" % P] + ([""] if P == 0 else [])      # (port 0: see port-zero-treated-as-absent)
            addr = hx["addr"]
            if any(ascii_lower(v) == "[[" + addr + "]]" + port for port in ports):
                return sig + "ipv6-double-bracket"
            if any(ascii_lower(v) == "[[" + addr + "]" + port for port in ports) and hx["zone"] is not None:
                return sig + "ipv6-zone-unbalanced-bracket"
        if clause == "sni" and hx["v6"] and hx["zone"] is not None and o.tls and o.tls[-1]:
            zt = m["ht"][1:-1].split("%", 1)[1]
            got = ascii_lower(o.tls[-1])
            if "%" in zt[1:] and got.startswith(hx["addr"] + "%") and "%" not in got[len(hx["addr"]) + 1:]:
                return sig + "zone-with-escape-cut-at-last-percent"
        if clause == "host-header" and redirect and idx == 1 and len(o.hosts) == 1:
            # the Host sent is the one computed for (and correct for) the first hop
            m0, prev = observed[0]
            hx0 = url_host(m0)
            if prev is not None and prev.hosts == o.hosts and hx0 is not None:
                P0, d0 = url_port(m0)
                hp = parse_hostport(o.hosts[0].decode("latin-1"))
                if (hp is not None and hp[2] == hx0["v6"] and same_host_text(hp[0], hx0, False, dot_optional=True, zone_optional=True)
                        and (hp[1] == P0 or (hp[1] is None and P0 == d0))):
                    return sig + "redirect-stale-host"
        if clause == "target" and mc == "forward":
            t = o.target.decode("latin-1")
            feats = []
            if m["f"] is not None and "#" in t:
                t = t.split("#", 1)[0]
                feats.append("fragment-kept")
            if m["ui"] is not None and "://" in t:
                sch, rest = t.split("://", 1)
                k = min([i for i in (rest.find("/"), rest.find("?")) if i >= 0] or [len(rest)])
                if "@" in rest[:k]:
                    rest = rest[:k].rsplit("@", 1)[1] + rest[k:]
                    t = sch + "://" + rest
                    feats.append("userinfo-kept")
            if feats:
                o2 = Obs()
                o2.dial, o2.tls, o2.connect, o2.hosts, o2.raw, o2.target = o.dial, o.tls, o.connect, o.hosts, b"", t.encode("latin-1")
                m2 = dict(m, ui=None, f=None)
                still = [b for b in self.clause_failures(mode, m2, o2, hx, P, dflt, False) if b[0] == "target"]
                if not still:
                    return sig + "+".join(feats)
        return sig + "other"

    def nontrivial(self, case, impl_out):
        return any(o.startswith("ok pool=") for o in impl_out)


PROP = C15()
