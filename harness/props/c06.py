"""C06 — credentials are never forwarded to a different origin on redirect.

Same model and correspondence as C05 (`harness/props/c05.py`: real urllib3 on the in-memory network
vs `u3model manager`, ordered wire log + outcome), with a generator biased towards header carriers
(plain dicts incl. case-duplicate keys, `HTTPHeaderDict` with repeated fields, manager / pool level
defaults; every casing of the sensitive names; custom `remove_headers_on_redirect` sets) and chains
that cross origins differing in host, port, scheme, or only in letter case / explicit default port; a
small share of the cases enters a `PoolManager` through a scheme-less URL `//host/path` (deprecated,
still served as http), where `urljoin` keeps scheme-relative Locations scheme-relative.
Every case also carries a few direct `is_same_host` probes (`samehost` lines of the driver).

Oracles (implementation only, the property text):
* leak — once a hop goes to an origin (scheme, host, effective port — stdlib reading of the wire)
  different from the previous request's, no header line of that or any later request (the whole
  wire, not just the caller's lines) has a lower-cased name in the supplied policy's
  `remove_headers_on_redirect` (default: authorization, cookie, proxy-authorization);
* lost — every other caller header line of a request re-appears (name compared case-insensitively,
  same value) in the follow-up request (after a 303 the content-specific names are exempt);
* single-host — a bare pool that asserts the host answers a redirect to another origin with
  `HostChangedError` and sends nothing after it;
* same-origin — `is_same_host(url)` is true iff `url` is a bare path (starts with `/` but not with
  `//`) or scheme, lower-cased host and effective port agree with the pool's (a scheme-relative
  `//host/path` names a host and is compared like an absolute URL).
"""
from __future__ import annotations

from urllib.parse import urlsplit, urljoin

from ..core import Prop, Failure, enc
from . import c05 as M
from .c05 import (REDIRECT, CONTENT_SPECIFIC, DEFAULT_PORT, ORIGIN_SPELLINGS, ORIGINS, origin_of, supplied_policy,
                  budget_of, user_section, is_followable, placement_of, request_uri_of)


def proxy_origin(case):
    return origin_of(case["proxy"]) if case["client"] == "px" else None


def code_seen_urls(case, reqs):
    """the `url` argument of the `PoolManager.urlopen` pass that sent request i: the entry URL, then
    `urljoin(previous url, Location)` — what `is_same_host` is asked about"""
    cur = case["url"]
    out = [cur]
    for r in reqs[:-1]:
        cur = urljoin(cur, r["location"] or "")
        out.append(cur)
    return out


def _flags(as_code_judges):
    """`True` (historic spelling) = judge forwarded hops the way the code does; otherwise a tuple of
    {"proxy", "schemerel"}"""
    if as_code_judges is True:
        return ("proxy",)
    return tuple(as_code_judges or ())


def crossings(case, reqs, as_code_judges=False):
    """indices i >= 1 whose request goes to another origin than request i-1.  With the flag
    `proxy`, a hop leaving a *forwarded* request is judged the way `PoolManager.urlopen` does it behind
    a forwarding proxy — against the proxy's own origin; with the flag `schemerel`, a hop whose target
    URL (as the code sees it) starts with `/` is judged the way `is_same_host` does it — same host."""
    flags = _flags(as_code_judges)
    px = proxy_origin(case)
    seen = code_seen_urls(case, reqs) if "schemerel" in flags and case["client"] != "pool" else None
    out = []
    for i in range(1, len(reqs)):
        a, b = reqs[i - 1], reqs[i]
        if seen is not None and seen[i].startswith("/"):
            continue
        if "proxy" in flags and px is not None and not a["tunnel"] and a["dial"] == px:
            if b["dest"] != px:
                out.append(i)
        elif a["dest"] != b["dest"]:
            out.append(i)
    return out


def merged_fields(lines):
    out = {}
    for k, v in lines:
        lk = k.lower()
        out[lk] = out[lk] + ", " + v if lk in out else v
    return out


def c06_problems(case, reqs, outcome, as_code_judges=False):
    probs = []
    pol, place = supplied_policy(case)
    remove = budget_of(pol, case.get("redirect"))[3]
    pxnames = {k.lower() for k, _ in case.get("pxhdr", [])}
    cr = crossings(case, reqs, as_code_judges)
    if cr:
        for j in range(cr[0], len(reqs)):
            leaked = [k for k, _ in reqs[j]["wire"] if k.lower() in remove]
            if leaked:
                probs.append(("leak", f"request {j} to {reqs[j]['dest']} carries {leaked} although request {cr[0]} "
                                      f"crossed from {reqs[cr[0] - 1]['dest']} to {reqs[cr[0]]['dest']}"))
                break
    for i, (a, b) in enumerate(zip(reqs, reqs[1:])):
        # field lines of one name are compared in combined form (RFC 9110 5.3: `a: 1` + `a: 2` == `a: 1, 2`)
        ua = merged_fields(user_section(a["wire"]) or [])
        have = merged_fields(b["wire"])
        lost = []
        for lk, v in ua.items():
            if lk in remove or lk in pxnames:
                continue
            if a["status"] == 303 and lk in CONTENT_SPECIFIC:
                continue
            if have.get(lk) != v:
                lost.append((lk, v, have.get(lk)))
        if lost:
            probs.append(("lost", f"request {i + 1} dropped or changed {lost} (not in the policy's remove set {sorted(remove)})"))
            break
    if case["client"] == "pool" and case.get("ash") is not False:
        sc, h, p = case["pool"]
        me = (sc, h.lower(), p or DEFAULT_PORT[sc])
        budget, ror, disabled, _ = budget_of(pol, case.get("redirect"))
        for i, r in enumerate(reqs):
            loc = r["location"] or ""
            if is_followable(r) and "://" in loc and origin_of(loc) != me:
                if i != len(reqs) - 1:
                    probs.append(("single-host", f"a request was sent after the redirect to {loc} (pool is {me})"))
                elif outcome != "HostChangedError" and not disabled and (budget is None or i < budget):
                    probs.append(("single-host", f"redirect to {loc} ended in {outcome}, not HostChangedError"))
                break
    return probs


def classify(case, reqs, outcome, kind):
    place = placement_of(case)
    c_nomgr = dict(case)
    c_nomgr.pop("mret", None)
    kinds = lambda c, code: [k for k, _ in c06_problems(c, reqs, outcome, code)]
    # a leak that the proxy judgement alone explains (the supplied policy applied, forwarded hops judged
    # against the proxy's origin) is the proxy finding, wherever the policy was placed; only what it
    # does not explain is attributed to the placement
    if case["client"] == "px" and kind == "leak" and kind not in kinds(case, True):
        return "leak:proxymanager-forwarding-same-host-judged-against-proxy"
    if place == "manager" and kind not in kinds(c_nomgr, False):
        return f"{kind}:manager-constructor-policy-ignored"
    if case["client"] == "px" and kind == "leak":
        if place == "manager" and kind not in kinds(c_nomgr, True):
            return "leak:manager-constructor-policy-ignored+proxymanager-forwarding-same-host-judged-against-proxy"
    if case["client"] == "pm" and kind == "leak" and any(u.startswith("/") for u in code_seen_urls(case, reqs)[1:]):
        if kind not in kinds(case, ("schemerel",)):
            return "leak:scheme-relative-target-judged-same-host"
    return f"{kind}:placement={place}:client={case['client']}:unexplained"


def gen_schemeless_case(rng):
    """a `PoolManager` asked for a scheme-less URL `//host[:port]/path` (deprecated; served as http):
    `urljoin` keeps scheme-relative Locations scheme-relative, which is what `is_same_host` then sees"""
    http_origins = [o for o in ORIGINS if o[0] == "http"]
    hp = lambda o: rng.choice([sp.split("://", 1)[1] for sp in ORIGIN_SPELLINGS[o]])
    start = rng.choice(http_origins)
    cur = "//" + hp(start) + rng.choice(["/p0", "/d/p0", "/d/e/p0?x=1"])
    entry, urls, rules, seen = cur, [cur], [], set()
    for i in range(rng.randint(1, 4)):
        o = origin_of(cur)
        key = (o, request_uri_of(cur))
        if key in seen:
            break
        seen.add(key)
        tgt = rng.choice(http_origins)
        path = rng.choice([f"/p{i + 1}", f"/d/p{i + 1}?y={i}"])
        r = rng.random()
        if r < 0.55:
            loc = "//" + hp(tgt) + path                          # scheme-relative
        elif r < 0.75:
            loc = rng.choice([path, f"q{i + 1}", f"../q{i + 1}"])  # relative: stays on the origin
        else:
            loc = rng.choice(ORIGIN_SPELLINGS[rng.choice(ORIGINS)]) + path
        rules.append([o[0], o[1], o[2], "*", request_uri_of(cur), rng.choice(REDIRECT), loc])
        cur = urljoin(cur, loc)
        urls.append(cur)
    case = {"client": "pm", "rules": rules, "urls": urls, "url": entry,
            "method": rng.choice(["GET", "GET", "POST"]), "via": rng.choice([0, 1])}
    if rng.random() < 0.3:
        case["ret"] = rng.choice([{"total": 10, "remove": ["X-Secret"]}, {"redirect": 5, "remove": ["x-secret", "Cookie"]}, 5,
                                  {"total": 10, "remove": ["X-Secret", "Cookie"], "rmtype": "frozenset"},
                                  {"redirect": 5, "remove": ["X-Secret"], "rmtype": "set"},
                                  {"total": 10, "remove": ["Authorization", "X-Secret"], "rmtype": "frozenset"},
                                  {"total": 10, "remove": ["x-secret", "COOKIE"], "rmtype": "tuple"}])
    if rng.random() < 0.2:
        case["mhdr"] = M.gen_headers(rng, 0.8)
    case["hdr"] = M.gen_headers(rng, 0.8) or ["d", [["Authorization", "s"], ["X-Keep", "k"]]]
    return case


# ------------------------------------------------------------------------------ is_same_host probes

def gen_samehost(rng):
    o = rng.choice(ORIGINS)
    sc, h, p = o
    host = rng.choice([h, h.upper(), h.title()])
    port = rng.choice([p, p, None]) if p == DEFAULT_PORT[sc] else rng.choice([p, p, None])
    r = rng.random()
    if r < 0.15:
        url = rng.choice(["/x", "/", "/a/b?c=d", "//x"])
    else:
        t = rng.choice(ORIGINS) if rng.random() < 0.6 else o
        url = rng.choice(ORIGIN_SPELLINGS[t]) + rng.choice(["/x", "", "/a?b=c", "/#f"])
        if rng.random() < 0.1:
            url = url.split("://", 1)[1]                     # scheme-less: parse_url reads `host[:port]/path`
    return [sc, host, port, url]


def samehost_probe(probe, case, res):
    from urllib3 import HTTPConnectionPool, HTTPSConnectionPool
    sc, host, port, url = probe
    pool = (HTTPSConnectionPool if sc == "https" else HTTPConnectionPool)(host, port)
    try:
        got = pool.is_same_host(url)
    finally:
        pool.close()
    entry = M.parse_entry(url)[0]
    line = f"samehost {enc(sc)},{enc(host)},{'~' if port is None else port} {enc(url)} {entry}"
    # the property's reading, from the stdlib parse
    if url.startswith("/") and not url.startswith("//"):
        want = True
    else:
        s = urlsplit(url if "://" in url or url.startswith("//") else "//" + url)
        usc = (s.scheme or "http").lower()
        want = (usc, (s.hostname or "").lower(), s.port or DEFAULT_PORT.get(usc)) == \
               (sc, host.lower(), port or DEFAULT_PORT[sc])
    if got != want:
        res.failures.append(Failure(signature="same-origin", case=case,
                                    what=f"{sc} pool ({host!r}, {port!r}).is_same_host({url!r}) = {got}, "
                                         f"scheme/host/effective-port comparison says {want}"))
    return line, "1" if got else "0"


class C06(M.C05):
    id = "C06"
    model = "manager"
    emphasis = "headers"
    rule = ("as C05 (same generator family, biased to header carriers: plain dict incl. case-duplicate keys, "
            "HTTPHeaderDict with repeated fields, manager / pool defaults; 11 casings of Authorization / Cookie / "
            "Proxy-Authorization; custom remove_headers_on_redirect sets incl. the empty one; chains A->B->A, "
            "relative hops after a cross-origin hop, origins differing only in letter case or explicit default "
            "port; ProxyManager chains that touch the proxy's own origin; ~3% PoolManager chains entered through a "
            "scheme-less URL //host/path with scheme-relative Locations) plus 3 direct is_same_host probes per "
            "case. Oracles on the wire log: after the first origin-changing hop no request carries a header whose "
            "lower-cased name is in the supplied policy's remove set; all other caller header lines re-appear in "
            "the follow-up request; an asserting bare pool ends a cross-origin redirect in HostChangedError with "
            "nothing sent afterwards; is_same_host iff scheme, host and effective port agree. non-trivial = a "
            "redirect reply was seen and the request carried at least one header")
    time_budget = {"quick": 110, "thorough": 1100}

    def cases(self, rng, tier, escalate=False):
        deep = tier == "thorough" or escalate
        n = 60000 if deep else 9000
        for i in range(n):
            r = rng.random()
            if r < 0.5:
                c = M.gen_manager_case(rng, "pm", "headers")
            elif r < 0.83:
                c = M.gen_manager_case(rng, "px", "headers")
            elif r < 0.86:
                c = gen_schemeless_case(rng)
            else:
                c = M.gen_pool_case(rng)
            if c["client"] != "pool" and not (c.get("hdr") or c.get("mhdr")):
                c["hdr"] = M.gen_headers(rng, 0.8) or ["d", [["Authorization", "s"], ["X-Keep", "k"]]]
            c["probes"] = [gen_samehost(rng) for _ in range(3)]
            yield c

    def problems(self, case, reqs, outcome):
        return c06_problems(case, reqs, outcome)

    def execute(self, case, res):
        lines, out, reqs, outcome, chain, sleeps = M.execute_case(case, res)
        M.annotate_urls(case, reqs)
        res.bump("client:" + case["client"])
        res.bump("placement:" + placement_of(case))
        res.bump("crossings:%d" % len(crossings(case, reqs)))
        if case["url"].startswith("//"):
            res.bump("entry:scheme-less")
        for k in ("hdr", "mhdr", "phdr"):
            if case.get(k):
                res.bump(f"carrier:{k}:{case[k][0]}")
        if sleeps:
            res.failures.append(Failure(signature="harness:unexpected-sleep", what=f"time.sleep called: {list(sleeps)}", case=case))
        seen = set()
        for kind, text in c06_problems(case, reqs, outcome):
            sig = classify(case, reqs, outcome, kind)
            if sig in seen:
                continue
            seen.add(sig)
            M.report(res, self.id, sig, text, case,
                     {"outcome": outcome, "log": [(r["dest"], r["method"], r["target"], r["status"],
                                                   [k for k, _ in r["wire"]]) for r in reqs]})
        for probe in case.get("probes", []):
            ln, o = samehost_probe(probe, case, res)
            lines.append(ln)
            out.append(o)
            res.bump("samehost:" + o)
        return lines, out

    def nontrivial(self, case, impl_out):
        return M.C05.nontrivial(self, case, impl_out) and bool(case.get("hdr") or case.get("mhdr") or case.get("phdr"))

    def shrink_candidates(self, case):
        if case.get("probes"):
            c = dict(case)
            c["probes"] = []
            yield c
        yield from M.C05.shrink_candidates(self, case)


PROP = C06()
