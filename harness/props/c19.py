"""C19 — socket waits never exceed the configured timeouts.

Implementation side: the real `Timeout`, `HTTPConnectionPool.urlopen/_make_request/_get_timeout/
_new_conn` and `HTTPConnection.request/getresponse/_new_conn` run on a recording `ConnectionCls`
(a subclass of urllib3's `HTTPConnection` whose `timeout` attribute records every assignment) and an
in-memory socket (records `settimeout`, counts reads), with `create_connection` replaced by a fake
that records the timeout it is given and advances a virtual clock by the scripted connect duration;
`time.monotonic` and `getdefaulttimeout` as seen by `urllib3.util.timeout` are replaced for the
duration of a case.

Correspondence: the recorded event sequence + outcome class of every request, every direct
`Timeout` API call, and the started-flags of the pool's and the caller's Timeout objects, against
`U3.Timeout.step` (driver `timeout`).

Oracle (implementation only, written from the property text): see `C19.oracle_request`.
"""
from __future__ import annotations

import contextlib
import inspect
import io
from fractions import Fraction

from ..core import Prop, Failure

UNIT = 1024
VALS = ["omit", "N", 0.5, 2, 10]
DURS = [0, 0.25, 1, 5, 20]
INVALID = [0, 0.0, -1, -0.5, "T", "F", "X:str", "X:numstr", "X:list", "X:obj", "X:complex", "X:bytes"]
DECOY = [7, 7, 7]


class _Obj:
    pass


def py_value(a, default):
    """case token -> Python value (MISSING = leave the keyword out)"""
    from urllib3.util.timeout import _DEFAULT_TIMEOUT
    if a == "omit":
        return default
    if a == "U":
        return _DEFAULT_TIMEOUT
    if a == "N":
        return None
    if a == "T":
        return True
    if a == "F":
        return False
    if isinstance(a, str) and a.startswith("X:"):
        return {"str": "x", "numstr": "5", "list": [], "obj": _Obj(), "complex": 1j, "bytes": b"1"}[a[2:]]
    return a


def canon(v):
    """a timeout value as seen at the socket / connection -> protocol token"""
    from urllib3.util.timeout import _DEFAULT_TIMEOUT
    if v is _DEFAULT_TIMEOUT:
        return "U"
    if v is None:
        return "N"
    if isinstance(v, bool) or not isinstance(v, (int, float)):
        return "bad:" + type(v).__name__
    if v != v or v in (float("inf"), float("-inf")):
        return "bad:" + repr(v)
    f = Fraction(v) * UNIT
    if f.denominator != 1:
        return "inexact:" + repr(v)
    return str(f.numerator)


def q(v):
    """dyadic number -> model units"""
    f = Fraction(v) * UNIT
    assert f.denominator == 1, v
    return int(f.numerator)


def arg_token(a, default_tok):
    """case token of a constructor argument -> model token"""
    if a == "omit":
        return default_tok
    if a in ("U", "N", "T", "F"):
        return a
    if isinstance(a, str) and a.startswith("X:"):
        return "X"
    return str(q(a))


def is_num(a):
    return isinstance(a, (int, float)) and not isinstance(a, bool)


def valid_arg(a):
    """the property's notion of a valid constructor argument"""
    if a in ("omit", "U", "N"):
        return True
    return is_num(a) and a > 0


class Clock:
    def __init__(self, t):
        self.t = t

    def monotonic(self):
        return self.t


class World:
    """everything recorded during one case"""

    def __init__(self, base):
        self.clock = Clock(base)
        self.events = []
        self.gdt = None
        self.cdur = 0
        self.sdur = 0
        self.close = False
        self.reads = 0


class FakeSock:
    def __init__(self, world):
        self.w = world
        self.inbuf = b""
        self.out = b""
        self.dead = False
        self._timeout = None

    def settimeout(self, t):
        self.w.events.append(("sock", t))
        self._timeout = t

    def gettimeout(self):
        return self._timeout

    def setsockopt(self, *a):
        pass

    def sendall(self, data):
        self.out += bytes(data)
        if b"\r\n\r\n" in self.out:
            self.out = b""
            self.w.clock.t += self.w.sdur
            extra = b"Connection: close\r\n" if self.w.close else b""
            self.inbuf += b"HTTP/1.1 200 OK\r\nContent-Length: 2\r\n" + extra + b"\r\nok"

    def makefile(self, mode, *a, **k):
        s = self

        class R(io.RawIOBase):
            def readable(self_):
                return True

            def readinto(self_, b):
                s.w.reads += 1
                n = min(len(b), len(s.inbuf))
                b[:n] = s.inbuf[:n]
                s.inbuf = s.inbuf[n:]
                return n
        return io.BufferedReader(R())

    def close(self):
        self.dead = True

    def shutdown(self, *a):
        pass

    def fileno(self):
        return -1


def make_conn_cls(world):
    from urllib3.connection import HTTPConnection

    class RecConn(HTTPConnection):
        def __init__(self, *a, **kw):
            world.events.append(("new", kw.get("timeout", "missing")))
            super().__init__(*a, **kw)

        @property
        def timeout(self):
            return self.__dict__.get("_rec_timeout")

        @timeout.setter
        def timeout(self, v):
            world.events.append(("set", v))
            self.__dict__["_rec_timeout"] = v

        @property
        def is_connected(self):
            return self.sock is not None and not self.sock.dead and not self.sock.inbuf

    return RecConn


@contextlib.contextmanager
def patched(world):
    import urllib3.util.timeout as utm
    import urllib3.util.connection as uconn

    def fake_create_connection(address, timeout=None, source_address=None, socket_options=None):
        world.events.append(("connect", timeout))
        world.clock.t += world.cdur
        return FakeSock(world)

    saved = (utm.time, utm.getdefaulttimeout, uconn.create_connection)
    utm.time = world.clock
    utm.getdefaulttimeout = lambda: world.gdt
    uconn.create_connection = fake_create_connection
    try:
        yield
    finally:
        utm.time, utm.getdefaulttimeout, uconn.create_connection = saved


def show_events(evs):
    return ",".join(f"{k}:{canon(v)}" for k, v in evs) if evs else "-"


INF = None  # "no bound"


def fin(a):
    """configured bound of one slot: a number, or None for 'no bound' (unset / None)"""
    return a if is_num(a) else None


def mn(*xs):
    xs = [x for x in xs if x is not None]
    return min(xs) if xs else None


class C19(Prop):
    id = "C19"
    model = "timeout"
    rule = ("(total, connect, read) over {omitted, None, 0.5, 2, 10} (+ explicit sentinel, + every invalid kind in "
            "every slot, + legacy numbers) x connect durations {0, 0.25, 1, 5, 20} x pool-level vs request-level "
            "placement (the other level holding a decoy Timeout(7,7,7)) x fresh vs reused connection x urlopen vs "
            "direct _make_request x two requests sharing one Timeout object with a clock gap in between x global "
            "default timeout {None, 3}; thorough adds random dyadic values, longer request sequences, send "
            "durations and direct Timeout API calls (start_connect / clone / connect_timeout / read_timeout / "
            "get_connect_duration).  Recorded: every conn.timeout assignment, the timeout given to "
            "create_connection, every sock.settimeout, reads on the socket, outcome class, started flags.  "
            "non-trivial = a request whose response wait is bounded by a finite value or refused with "
            "ReadTimeoutError")
    assumptions = ["float arithmetic is exact on the generated (dyadic) values; rounding is not modelled",
                   "no socket faults: connect and send succeed after the scripted duration even when that exceeds "
                   "the applied timeout (name resolution is not covered by the socket timeout)",
                   "direct plain-HTTP pools only (no CONNECT tunnel, no TLS handshake)",
                   "'unset' = argument omitted / sentinel: no bound of its own; the system default applies only when "
                   "no other bound does; nan/inf are not generated"]
    trusted = ["the in-memory socket and the recording ConnectionCls subclass (harness/props/c19.py)",
               "http.client's request/response state machine (auto-open in send, will_close)"]
    time_budget = {"quick": 110, "thorough": 900}
    exhaustive = {"quick": False, "thorough": False}

    # ------------------------------------------------------------------ generation
    def two_requests(self, triple, placement, cdur, close, idx, mode="u", gdt=None):
        """two requests sharing one Timeout object (pool-level or request-level)"""
        cdur2 = DURS[(idx * 7 + 3) % len(DURS)]
        gap = [0, 3, 30][idx % 3]
        if placement == "pool":
            pool, objs, arg = ["T", triple], [], "D"
        else:
            pool, objs, arg = ["T", DECOY], [triple], "h0"
        return {"gdt": gdt, "base": 100.0, "pool": pool, "objs": objs,
                "steps": [["req", mode, arg, cdur, 0, int(close)], ["obs"], ["adv", gap],
                          ["req", mode, arg, cdur2, 0, 0], ["obs"]]}

    def cases(self, rng, tier, escalate=False):
        deep = tier == "thorough" or escalate
        idx = 0
        # the property's grid
        for t in VALS:
            for c in VALS:
                for r in VALS:
                    for cdur in DURS:
                        for placement in ("pool", "request"):
                            for close in (0, 1):
                                idx += 1
                                case = self.two_requests([t, c, r], placement, cdur, close, idx)
                                case["kind"] = "grid"
                                yield case
        # direct _make_request, global default timeout set, explicit sentinel as total
        for t in VALS + ["U"]:
            for c in VALS:
                for r in VALS:
                    for cdur in (0, 1, 20):
                        idx += 1
                        placement = ("pool", "request")[idx % 2]
                        if t != "U":
                            case = self.two_requests([t, c, r], placement, cdur, idx % 3 == 0, idx, mode="d")
                            case["kind"] = "direct"
                            yield case
                        case = self.two_requests([t, c, r], placement, cdur, idx % 3 == 1, idx, gdt=3.0)
                        case["kind"] = "gdt" if t != "U" else "sentinel-total"
                        yield case
                        if t == "U":
                            case = self.two_requests([t, c, r], ("pool", "request")[(idx + 1) % 2], cdur, 0, idx)
                            case["kind"] = "sentinel-total"
                            yield case
        # invalid values: every kind in every slot, built as pool Timeout / user Timeout / legacy number
        for bad in INVALID:
            for slot in range(3):
                for other in ("omit", 2):
                    triple = [other, other, other]
                    triple[slot] = bad
                    yield {"kind": "invalid", "gdt": None, "base": 50.0, "pool": ["T", triple], "objs": [], "steps": []}
                    yield {"kind": "invalid", "gdt": None, "base": 50.0, "pool": ["T", DECOY], "objs": [triple, [2, 2, 2]],
                           "steps": [["req", "u", "h1", 1, 0, 0], ["obs"]]}
            yield {"kind": "invalid", "gdt": None, "base": 50.0, "pool": ["num", bad], "objs": [], "steps": []}
            yield {"kind": "invalid", "gdt": None, "base": 50.0, "pool": ["T", DECOY], "objs": [],
                   "steps": [["req", "u", ["n", bad], 1, 0, 0], ["obs"], ["req", "u", "D", 1, 0, 0], ["obs"],
                             ["req", "d", ["n", bad], 1, 0, 0], ["obs"]]}
        # legacy numbers at both levels
        for v in ["omit", "U", "N", 0.5, 2, 10]:
            for w in ["D", ["n", "N"], ["n", 0.5], ["n", 2], ["n", 10], ["n", "U"]]:
                for cdur in (0, 1, 20):
                    idx += 1
                    yield {"kind": "legacy", "gdt": [None, 3.0][idx % 2], "base": 10.0, "pool": ["num", v], "objs": [],
                           "steps": [["req", "u", w, cdur, 0, idx % 2], ["obs"], ["adv", 4],
                                     ["req", "ud"[idx % 2], w, DURS[idx % 5], 0, 0], ["obs"]]}
        # the Timeout API on its own
        for t in VALS + ["U"]:
            for c in VALS:
                for r in VALS:
                    idx += 1
                    d = DURS[idx % 5]
                    yield {"kind": "api", "gdt": [None, 3.0][idx % 2], "base": 7.0, "pool": ["T", DECOY], "objs": [[t, c, r]],
                           "steps": [["ct", 0], ["rt", 0], ["dur", 0], ["start", 0], ["adv", d], ["ct", 0], ["rt", 0],
                                     ["dur", 0], ["clone", 0], ["rt", 1], ["start", 0], ["start", 1], ["adv", 1], ["rt", 1],
                                     ["rt", 0], ["obs"], ["req", "u", "h0", d, 0, 0], ["obs"]]}
        # random
        nrand = 250000 if deep else 30000
        for _ in range(nrand):
            yield self.random_case(rng)

    def rand_val(self, rng):
        k = rng.random()
        if k < 0.2:
            return "omit"
        if k < 0.35:
            return "N"
        if k < 0.38:
            return "U"
        if k < 0.43:
            return rng.choice(INVALID)
        if k < 0.7:
            return rng.choice([0.25, 0.5, 1, 2, 2.0, 3, 5, 10, 10.0, 20])
        return rng.randrange(1, 24 * UNIT) / UNIT

    def rand_dur(self, rng):
        k = rng.random()
        if k < 0.25:
            return 0
        if k < 0.7:
            return rng.choice(DURS + [0.5, 2, 10])
        return rng.randrange(0, 24 * UNIT) / UNIT

    def random_case(self, rng):
        triple = lambda: [self.rand_val(rng) for _ in range(3)]
        pool = ["T", triple()] if rng.random() < 0.8 else ["num", self.rand_val(rng)]
        if pool[0] == "T" and pool[1][0] == "U" and rng.random() < 0.7:
            pool[1][0] = "omit"
        objs = [triple() for _ in range(rng.choice([0, 1, 1, 2, 3]))]
        steps = []
        nobj = len(objs)
        for _ in range(rng.randint(1, 6)):
            k = rng.random()
            if k < 0.6 or not objs:
                a = rng.random()
                if a < 0.35 or not objs:
                    arg = "D" if rng.random() < 0.8 else ["n", self.rand_val(rng)]
                else:
                    arg = f"h{rng.randrange(nobj)}"
                sdur = 0 if rng.random() < 0.7 else self.rand_dur(rng)
                steps.append(["req", "u" if rng.random() < 0.7 else "d", arg, self.rand_dur(rng), sdur,
                              int(rng.random() < 0.3)])
                steps.append(["obs"])
            elif k < 0.7:
                steps.append(["adv", self.rand_dur(rng)])
            elif k < 0.78:
                steps.append(["start", rng.randrange(nobj)])
            elif k < 0.84 and nobj < 6:
                steps.append(["clone", rng.randrange(nobj)])
                nobj += 1
            else:
                steps.append([rng.choice(["ct", "rt", "dur"]), rng.randrange(nobj)])
        return {"kind": "rand", "gdt": rng.choice([None, None, None, 3.0, 0.5]),
                "base": rng.randrange(0, 1000 * UNIT) / UNIT, "pool": pool, "objs": objs, "steps": steps}

    def shrink_candidates(self, case):
        steps = case.get("steps") or []
        for i in range(len(steps)):
            if steps[i][0] != "clone":
                c = dict(case)
                c["steps"] = steps[:i] + steps[i + 1:]
                yield c
        if case.get("gdt") is not None:
            c = dict(case)
            c["gdt"] = None
            yield c

    # ------------------------------------------------------------------ execution
    def fail(self, res, case, sig, what):
        # at most a few failures per signature and shard, so that a known finding cannot exhaust the
        # engine's per-shard failure cap and cut the search short
        counts = res.__dict__.setdefault("_c19_sig_counts", {})
        counts[sig] = counts.get(sig, 0) + 1
        res.bump("oracle-failure:" + sig)
        if counts[sig] <= 4:
            res.failures.append(Failure(signature=sig, what=what, case=case))

    def build_timeout(self, triple):
        """-> (Timeout or exception class name, model tokens)"""
        from urllib3.util.timeout import Timeout
        params = inspect.signature(Timeout.__init__).parameters
        kw, toks = {}, []
        for name, a in zip(("total", "connect", "read"), triple):
            default = params[name].default
            toks.append(arg_token(a, canon(default)))
            if a != "omit":
                kw[name] = py_value(a, default)
        try:
            return Timeout(**kw), toks
        except Exception as e:      # noqa: BLE001 - the class is the observation
            return type(e).__name__, toks

    def check_construction(self, res, case, triple, built, where):
        ok = all(valid_arg(a) for a in triple)
        if ok and isinstance(built, str):
            self.fail(res, case, "valid-timeout-rejected", f"{where}: Timeout{tuple(triple)} raised {built}")
        if not ok and not isinstance(built, str):
            kinds = sorted({("bool" if a in ("T", "F") else "non-number" if isinstance(a, str) else "non-positive")
                            for a in triple if not valid_arg(a)})
            self.fail(res, case, "invalid-timeout-accepted:" + "+".join(kinds),
                      f"{where}: Timeout(total, connect, read)={tuple(triple)} was accepted")
        if not ok and isinstance(built, str) and built != "ValueError":
            self.fail(res, case, "invalid-timeout-wrong-exception:" + built, f"{where}: Timeout{tuple(triple)} raised {built}")

    def execute(self, case, res):
        from urllib3.connectionpool import HTTPConnectionPool
        from urllib3.util.timeout import Timeout
        from urllib3.exceptions import ReadTimeoutError, TimeoutStateError
        world = World(case.get("base", 100.0))
        world.gdt = case.get("gdt")
        lines, out = [], []
        res.bump("kind:" + case.get("kind", "?"))
        with patched(world):
            lines.append("gdt " + canon(world.gdt))
            out.append("ok")
            # ---- the pool
            pspec = case["pool"]
            if pspec[0] == "T":
                pt, toks = self.build_timeout(pspec[1])
                lines.append("pool " + " ".join(toks))
                self.check_construction(res, case, pspec[1], pt, "pool-level")
                pool_cfg = list(pspec[1])
                if isinstance(pt, str):
                    out.append(pt)
                    return lines, out
                pool = HTTPConnectionPool("h", 80, timeout=pt, retries=False, maxsize=1)
            else:
                a = pspec[1]
                lines.append("poolnum " + arg_token(a, "U"))
                kw = {} if a == "omit" else {"timeout": py_value(a, None)}
                pool_cfg = ["N", a if a != "omit" else "U", a if a != "omit" else "U"]
                try:
                    pool = HTTPConnectionPool("h", 80, retries=False, maxsize=1, **kw)
                except Exception as e:      # noqa: BLE001
                    out.append(type(e).__name__)
                    self.check_construction(res, case, pool_cfg, type(e).__name__, "pool-level number")
                    return lines, out
                self.check_construction(res, case, pool_cfg, pool.timeout, "pool-level number")
                pt = pool.timeout
            out.append("ok")
            pool.ConnectionCls = make_conn_cls(world)
            # ---- the caller's Timeout objects
            objs, cfgs, explicit_start = [], [], []
            handle_of = {}
            for i, triple in enumerate(case.get("objs", [])):
                t, toks = self.build_timeout(triple)
                lines.append("tmo " + " ".join(toks))
                self.check_construction(res, case, triple, t, "request-level")
                if isinstance(t, str):
                    out.append(t)
                    continue
                handle_of[i] = len(objs)
                out.append(f"h{len(objs)}")
                objs.append(t)
                cfgs.append(list(triple))
                explicit_start.append(False)
            spec_count = len(case.get("objs", []))
            # spec indices of clones are allocated after the declared objects
            next_spec = spec_count
            conn_alive = False
            for st in case.get("steps", []):
                op = st[0]
                if op == "adv":
                    world.clock.t += st[1]
                    lines.append(f"adv {q(st[1])}")
                    out.append("ok")
                elif op == "obs":
                    slot = pool.pool.queue[-1] if pool.pool.queue else "missing"
                    cs = "none" if slot is None else "missing" if slot == "missing" else \
                        ("closed" if slot.sock is None else "alive")
                    lines.append("obs")
                    out.append(f"pool={int(pool.timeout._start_connect is not None)} conn={cs} objs="
                               + ("".join(str(int(o._start_connect is not None)) for o in objs) or "-"))
                    if pool.timeout is not pt:
                        self.fail(res, case, "pool-timeout-replaced", "pool.timeout was replaced by a request")
                    if pool.timeout._start_connect is not None:
                        self.fail(res, case, "pool-timeout-started", "a request started the clock of the pool's own Timeout")
                    for o, es in zip(objs, explicit_start):
                        if (o._start_connect is not None) and not es:
                            self.fail(res, case, "request-timeout-started",
                                      "a request started the clock of the caller's Timeout object")
                elif op in ("ct", "rt", "dur", "start", "clone"):
                    if st[1] not in handle_of:
                        continue
                    h = handle_of[st[1]]
                    o = objs[h]
                    lines.append(f"{op} h{h}")
                    res.bump("api:" + op)
                    try:
                        if op == "ct":
                            out.append(canon(o.connect_timeout))
                        elif op == "rt":
                            v = o.read_timeout
                            out.append(canon(v))
                            self.oracle_api_read(res, case, cfgs[h], o, v, world)
                        elif op == "dur":
                            out.append(canon(o.get_connect_duration()))
                        elif op == "start":
                            o.start_connect()
                            explicit_start[h] = True
                            out.append("ok")
                        else:
                            n = o.clone()
                            handle_of[next_spec] = len(objs)
                            next_spec += 1
                            out.append(f"h{len(objs)}")
                            objs.append(n)
                            cfgs.append(list(cfgs[h]))
                            explicit_start.append(False)
                            if n._start_connect is not None:
                                self.fail(res, case, "clone-started", "Timeout.clone() returned a started clock")
                    except (TimeoutStateError, TypeError, ValueError) as e:
                        out.append(type(e).__name__)
                    if op == "clone" and out[-1][0] != "h":
                        next_spec += 1
                elif op == "req":
                    _, mode, arg, cdur, sdur, close = st
                    if isinstance(arg, str) and arg.startswith("h"):
                        if int(arg[1:]) not in handle_of:
                            continue
                        h = handle_of[int(arg[1:])]
                        tok, targ, eff = f"h{h}", objs[h], cfgs[h]
                    elif arg == "D":
                        tok, targ, eff = "D", None, pool_cfg
                    else:
                        a = arg[1]
                        tok, targ = "n:" + arg_token(a, "U"), py_value(a, None)
                        if a in ("omit", "U"):
                            tok, targ, eff = "D", None, pool_cfg
                        else:
                            eff = ["N", a, a]
                    lines.append(f"req {mode} {tok} {q(cdur)} {q(sdur)} {int(close)}")
                    world.cdur, world.sdur, world.close = cdur, sdur, bool(close)
                    world.events = []
                    world.reads = 0
                    slot = pool.pool.queue[-1] if pool.pool.queue else None
                    fresh = slot is None or slot.sock is None or slot.sock.dead
                    kw = {} if targ is None and tok == "D" else {"timeout": targ}
                    t0 = world.clock.t
                    try:
                        if mode == "u":
                            r = pool.urlopen("GET", "/", **kw)
                        else:
                            conn = None
                            try:
                                conn = pool._get_conn()
                                r = pool._make_request(conn, "GET", "/", **kw)
                                r.read()
                                r.release_conn()
                                pool._put_conn(conn)
                            except BaseException:
                                if conn is not None:
                                    conn.close()
                                pool._put_conn(None)
                                raise
                        outcome = "ok" if r.status == 200 and r.data == b"ok" else f"bad-response:{r.status}"
                    except ReadTimeoutError:
                        outcome = "ReadTimeoutError"
                    except Exception as e:      # noqa: BLE001
                        outcome = type(e).__name__
                    evs = list(world.events)
                    out.append(f"out={outcome} ev={show_events(evs)}")
                    res.bump("req:" + mode + ":" + ("fresh" if fresh else "reused"))
                    res.bump("outcome:" + outcome)
                    self.oracle_request(res, case, eff, fresh, cdur, sdur, world.gdt, outcome, evs, world.reads,
                                        world.clock.t - t0, tok, pool_cfg)
                else:
                    raise ValueError(op)
        return lines, out

    # ------------------------------------------------------------------ oracle
    def oracle_api_read(self, res, case, cfg, o, v, world):
        """read_timeout of a started clock == min(read, total - elapsed), never negative"""
        t, r = fin(cfg[0] if cfg[0] != "omit" else None), fin(cfg[2])
        if not all(valid_arg(a) for a in cfg) or o._start_connect is None:
            return
        el = world.clock.t - o._start_connect
        exp = mn(r, None if t is None else max(0, t - el))
        if exp is None:
            return
        if not is_num(v) or v != exp:
            self.fail(res, case, "read-timeout-not-min-remaining",
                      f"read_timeout of Timeout{tuple(cfg)} after {el}s is {v!r}, expected {exp!r}")

    def oracle_request(self, res, case, cfg, fresh, cdur, sdur, gdt, outcome, evs, reads, elapsed_clock, tok,
                       pool_cfg):
        """The property, on the recorded behaviour of the implementation only.
        cfg = the (total, connect, read) that governs this request: the request-level one if the
        request carries one, else the pool-level one."""
        T, C, R = cfg
        if outcome == "TypeError" and any(c[0] == "U" and is_num(c[1]) for c in (cfg, pool_cfg)):
            # classifier of a repaired defect (known_findings/C19.json, status "fixed": reported as a
            # VIOLATION if it ever returns): min(number, _DEFAULT_TIMEOUT) in connect_timeout, reached
            # through the governing Timeout or through the pool's own (in `_new_conn`)
            self.fail(res, case, "total-default-sentinel-with-numeric-connect:TypeError",
                      f"request governed by Timeout(total, connect, read)={tuple(cfg)} on a pool with "
                      f"{tuple(pool_cfg)} raised TypeError")
            return
        if not all(valid_arg(a) for a in cfg):
            # built inside the request (legacy number): must be rejected there, nothing may reach the socket
            if outcome != "ValueError":
                self.fail(res, case, "invalid-timeout-accepted:request-number",
                          f"request with timeout={tok} ended with {outcome}, expected ValueError")
            if any(k in ("connect", "sock") for k, _ in evs):
                self.fail(res, case, "invalid-timeout-reached-socket", f"timeout={tok}: socket saw {show_events(evs)}")
            return
        sentinel_total = T == "U"
        tot, con, rd = fin(T), fin(C), fin(R)
        applied_connect = [v for k, v in evs if k == "connect"]
        sock_sets = [v for k, v in evs if k == "sock"]
        wire = [("connect", v) for v in applied_connect] + [("sock", v) for v in sock_sets]
        if outcome not in ("ok", "ReadTimeoutError"):
            sig = "request-raised:" + outcome
            self.fail(res, case, sig, f"request governed by Timeout(total, connect, read)={tuple(cfg)} raised {outcome}")
            return
        # what "unset" resolves to when nothing else bounds the wait
        def open_ended(slot):
            return gdt if slot in ("omit", "U") else None
        # -- connect phase
        exp_c = mn(con, tot)
        if exp_c is None:
            exp_c_set = {open_ended(C)} | ({gdt} if sentinel_total else set())
        else:
            exp_c_set = {exp_c}
        if fresh:
            if len(applied_connect) != 1:
                self.fail(res, case, "connect-count", f"fresh connection: create_connection called {len(applied_connect)} times")
            elif applied_connect[0] not in exp_c_set or isinstance(applied_connect[0], bool):
                self.fail(res, case, "connect-timeout-not-min",
                          f"Timeout{tuple(cfg)} gdt={gdt}: connect phase ran with timeout {applied_connect[0]!r}, "
                          f"expected min(connect, total) = {sorted(exp_c_set, key=repr)!r}")
        elif applied_connect:
            self.fail(res, case, "connect-count", "reused connection connected again")
        # -- response wait
        spent = (cdur if fresh else 0) + sdur
        rem = None if tot is None else max(0, tot - spent)
        exp_r = mn(rd, rem)
        if exp_r is None:
            exp_r_set = {open_ended(R)}
        else:
            exp_r_set = {exp_r}
        n_phase1 = 0 if fresh else 1      # a reused socket gets the connect-phase value for sending
        if exp_r_set == {0}:
            if outcome != "ReadTimeoutError":
                self.fail(res, case, "zero-budget-not-refused",
                          f"Timeout{tuple(cfg)} with {spent}s already spent: no read budget left but the request ended with {outcome}")
            if reads or len(sock_sets) > n_phase1:
                self.fail(res, case, "zero-budget-waited",
                          f"no read budget left but the socket was used: reads={reads} settimeout={sock_sets!r}")
        else:
            if outcome != "ok":
                self.fail(res, case, "spurious-read-timeout",
                          f"Timeout{tuple(cfg)} with {spent}s spent: budget {sorted(exp_r_set, key=repr)!r} but got {outcome}")
            elif len(sock_sets) != n_phase1 + 1:
                self.fail(res, case, "settimeout-count", f"expected {n_phase1 + 1} settimeout calls, saw {sock_sets!r}")
            elif sock_sets[-1] not in exp_r_set or isinstance(sock_sets[-1], bool):
                self.fail(res, case, "read-timeout-not-min-remaining",
                          f"Timeout{tuple(cfg)} gdt={gdt} after {spent}s: response wait ran with timeout {sock_sets[-1]!r}, "
                          f"expected min(read, total - spent) = {sorted(exp_r_set, key=repr)!r}")
        # -- never negative, never looser than configured, only real timeouts reach the socket
        from urllib3.util.timeout import _DEFAULT_TIMEOUT
        for i, (k, v) in enumerate(wire):
            if v is _DEFAULT_TIMEOUT or isinstance(v, bool) or not (v is None or is_num(v)):
                self.fail(res, case, "non-timeout-at-socket", f"{k} got {v!r}")
                continue
            if v is not None and v < 0:
                self.fail(res, case, "negative-timeout", f"{k} got {v!r}")
            is_read_phase = k == "sock" and i == len(wire) - 1 and outcome == "ok"
            bounds = [("total", tot)] + ([("read", rd)] if is_read_phase else [("connect", con)] if k == "connect" else [])
            for name, bnd in bounds:
                if bnd is not None and (v is None or v > bnd):
                    self.fail(res, case, "looser-than-configured:" + name,
                              f"Timeout{tuple(cfg)}: {k} timeout {v!r} exceeds configured {name}={bnd!r}")
        if outcome == "ok" and sock_sets and sock_sets[-1] not in (None,) and is_num(sock_sets[-1]):
            res.bump("finite-read-wait")

    def nontrivial(self, case, impl_out):
        for o in impl_out:
            if o.startswith("out=ReadTimeoutError"):
                return True
            if o.startswith("out=ok"):
                last = o.rsplit("sock:", 1)[-1]
                if last.lstrip("-").isdigit():
                    return True
        return False


PROP = C19()
