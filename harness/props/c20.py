"""C20 — multipart/form-data encoding is structurally sound for any field content.

Correspondence: every field list is encoded by the real `encode_multipart_formdata` (and, for a
share of the cases, through `PoolManager.request_encode_body` with a fake `urlopen`) and by
`U3.Multipart.encode` (driver `multipart`); body bytes and content type are compared byte for byte.
`format_multipart_header_param` is compared directly on every short hostile string.  The model's
strict reference parser is cross-checked against the Python oracle parser on the real output and on
corrupted variants of it.

Oracle (implementation only, from the property text): the real body is parsed with an independent
strict multipart parser; it must yield exactly one part per field, in order, each with exactly the
header lines the field specifies (Content-Disposition with the WHATWG-escaped name / filename,
Content-Type, …) and byte-identical data; no raw `"`, CR or LF inside a quoted parameter; the
returned content type names the boundary that delimits the body.
"""
from __future__ import annotations

import itertools
import re
import types

from ..core import Prop, Failure, enc

HOSTILE = ['"', "\r", "\n", ";", "\\", " ", "=", "a", "\u00e9", "\u2028", "\x00"]
NAME_EXTRA = ["file.txt", "a.png", "x.tar.gz", "p.html", "n", "%22", "%0D%0A", "a\"; filename=\"evil.sh",
              "a\r\nContent-Type: text/html\r\n\r\n<script>", "\ud800", "x\udfffy", "\U0001f600.gif", "--B", "\r\n--B--\r\n"]
CTYPES = [None, "", "text/plain", "image/jpeg", "application/x-custom; charset=utf-8", 'text/plain; x="y"', "téxt/plain"]
HNAMES = ["X-Custom", "Content-Type", "Content-Location", "Content-Disposition", "X-Empty", "content-type", "Z"]
HVALUES = ["v", "", None, "a: b", 'x; y="z"', "é", 'form-data; name="q"', "attachment"]
CDS = [None, "", "attachment", "form-data"]
CLS = [None, "", "/loc", "http://e/x"]
SAFE_BOUNDARIES = ["B", "BOUNDARY", "b0undary", "----x", "a.b_c", "0123456789abcdef0123456789abcdef", "xY-1"]
ODD_BOUNDARIES = ["", " ", "a b", "B\r\n", "\r\n--\r\n--", "é", "Ā", "\ud800", '"', "--"]
_BCHARS = set("abcdefghijklmnopqrstuvwxyzABCDEFGHIJKLMNOPQRSTUVWXYZ0123456789'()+_,-./=?")

CD = "Content-Disposition"
SORT_KEYS = [CD, "Content-Type", "Content-Location"]


# ------------------------------------------------------------------ independent strict parsers (oracle)

def strict_parse(body: bytes, bb: bytes):
    """multipart body -> [(headers [(name, value)], data)] or None.  No preamble, padding, epilogue."""
    dash = b"--" + bb
    delim = b"\r\n" + dash
    if not body.startswith(dash):
        return None
    rest = body[len(dash):]
    parts = []
    while rest != b"--\r\n":
        # dash-boundary CRLF body-part delimiter   (RFC 2046 5.1.1, without padding)
        if not rest.startswith(b"\r\n"):
            return None
        rest = rest[2:]
        i = rest.find(delim)
        if i < 0:
            return None
        seg, rest = rest[:i], rest[i + len(delim):]
        if seg.startswith(b"\r\n"):
            parts.append(([], seg[2:]))
            continue
        head, sep, data = seg.partition(b"\r\n\r\n")
        if not sep:
            return None
        hs = []
        for line in head.split(b"\r\n"):
            k, sep, v = line.partition(b": ")
            if not sep:
                return None
            hs.append((k, v))
        parts.append((hs, data))
    return parts


_DISP_RE = re.compile(rb'([A-Za-z0-9_*-]+)((?:; [A-Za-z0-9_*-]+="[^"\r\n]*")*)', re.S)
_PARAM_RE = re.compile(rb'; ([A-Za-z0-9_*-]+)="([^"\r\n]*)"', re.S)


def strict_disposition(v: bytes):
    m = _DISP_RE.fullmatch(v)
    if not m:
        return None
    return m.group(1), [(a, b) for a, b in _PARAM_RE.findall(m.group(2))]


def whatwg_escape(s: str) -> str:
    return s.replace('"', "%22").replace("\r", "%0D").replace("\n", "%0A")


_PCT = re.compile(rb"%(0[aAdD]|22)")


def pct_norm(b: bytes) -> bytes:
    """the WHATWG rule writes %0A %0D %22; the hex case of these three triplets is not held against
    the implementation (weaker, code-compatible reading)"""
    return _PCT.sub(lambda m: m.group(0).upper(), b)


def truthy(v):
    return v is not None and v != ""


# ------------------------------------------------------------------ case <-> objects

def data_obj(d):
    return d["s"] if "s" in d else bytes.fromhex(d["b"])


def data_bytes(d):
    return d["s"].encode("utf-8") if "s" in d else bytes.fromhex(d["b"])


def data_tok(d):
    return "s:" + enc(d["s"]) if "s" in d else "b:" + enc(bytes.fromhex(d["b"]))


def encodable(s):
    try:
        s.encode("utf-8")
        return True
    except UnicodeEncodeError:
        return False


def as_param(s, as_bytes):
    """names / filenames may be handed over as UTF-8 bytes (the code decodes them)"""
    if s is not None and as_bytes and encodable(s):
        return s.encode("utf-8")
    return s


def guess(fn):
    import mimetypes
    if not fn:
        return None
    return mimetypes.guess_type(fn)[0]


def opt(s):
    return "~" if s is None else enc(s)


def hdrs_tok(hs):
    if not hs:
        return "-"
    return ",".join(enc(k) + "=" + opt(v) for k, v in hs)


class C20(Prop):
    id = "C20"
    model = "multipart"
    rule = ("field lists of 0..4 fields; names and filenames over the hostile alphabet {\" CR LF ; \\ space = a é U+2028 NUL} "
            "exhaustively up to length 3 (thorough: 4) for a single field name / filename / both, random up to length 8 beyond "
            "(plus injection-shaped names, '%22', lone surrogates, boundary-like text); values str/bytes with CRLF, dash runs, "
            "boundary-like text, non-ASCII, arbitrary bytes; inputs as value / (filename,data) / (filename,data,type) tuples, "
            "RequestField.from_tuples objects and hand-built RequestField objects with header dicts and make_multipart(); list "
            "and dict containers; explicit boundaries (benign and odd) and the random boundary (os.urandom shimmed in "
            "urllib3.filepost); a third of the cases go through PoolManager.request_encode_body with a fake urlopen. Compared "
            "with the Lean model: body bytes + content type (or exception class), format_multipart_header_param on every "
            "short hostile string, the reference parser's result on the real and on corrupted output. Oracle: independent "
            "strict parser on the real output. non-trivial = some name/filename contains a quote, CR or LF, or some value "
            "contains CRLF or '--'")
    assumptions = [
        "explicit content types, make_multipart() arguments and RequestField(headers=...) entries are header text the caller "
        "wrote: drawn from a benign alphabet (no CR/LF; header names without ':')",
        "a bytes name/filename is valid UTF-8 (the code decodes it with CPython's decoder; the model takes code points)",
        "the round-trip oracle applies when the boundary is non-empty, made of RFC 2046 bchars without space and ':' and "
        "'--'+boundary occurs in no caller-supplied string or bytes value; other boundaries are compared with the model only",
        "mimetypes.guess_type is an oracle: its answer travels on the protocol line",
        "int data (str(data) backwards-compatibility branch) is not exercised",
    ]
    trusted = ["CPython str.translate, str/bytes codecs (utf-8, latin-1), dict order, io.BytesIO", "mimetypes.guess_type"]
    time_budget = {"quick": 100, "thorough": 1100}
    exhaustive = {"quick": False, "thorough": False}

    # ------------------------------------------------------------ generation
    def rand_name(self, rng):
        r = rng.random()
        if r < 0.12:
            return rng.choice(NAME_EXTRA)
        n = rng.choice([0, 1, 2, 3, 4, 4, 5, 6, 8])
        s = "".join(rng.choice(HOSTILE) for _ in range(n))
        if r > 0.9:
            s += rng.choice([".txt", ".png", ".gif"])
        return s

    def rand_data(self, rng, boundary):
        b = boundary if boundary is not None else "B"
        pieces = ["\r\n", "--", "-", "\r", "\n", "a", "é", b, "--" + b, "\r\n--" + b + "\r\n", "--" + b + "--",
                  "Content-Disposition: form-data; name=\"x\"\r\n\r\n", "\x00", '"', ": ", " "]
        n = rng.choice([0, 1, 2, 3, 5, 8])
        if rng.random() < 0.7 and b:
            pieces = [p for p in pieces if "--" + b not in p]
        s = "".join(rng.choice(pieces) for _ in range(n))
        k = rng.random()
        if k < 0.45:
            if rng.random() < 0.02:
                s += "\udc80"
            return {"s": s}
        if k < 0.8:
            return {"b": s.encode("utf-8", "surrogatepass").hex()}
        return {"b": bytes(rng.randrange(256) for _ in range(rng.choice([1, 3, 7, 20]))).hex()}

    def rand_field(self, rng, boundary):
        kind = rng.choice(["t", "t", "t2", "t2", "t3", "t3", "rf", "rf"])
        f = {"k": kind, "name": self.rand_name(rng), "data": self.rand_data(rng, boundary),
             "nb": rng.random() < 0.1, "fb": False, "obj": False}
        if kind in ("t2", "t3", "rf"):
            f["fn"] = None if rng.random() < 0.08 else self.rand_name(rng)
        if kind in ("t", "t2", "t3"):
            f["obj"] = rng.random() < 0.25
        if kind == "t3":
            f["ct"] = rng.choice(CTYPES)
            f["fb"] = rng.random() < 0.15
        if kind == "rf":
            f["fb"] = rng.random() < 0.15
            hs = {}
            for _ in range(rng.choice([0, 0, 1, 2, 4])):
                hs[rng.choice(HNAMES)] = rng.choice(HVALUES + CTYPES[2:])
            f["headers"] = [[k, v] for k, v in hs.items()]
            f["mm"] = None if rng.random() < 0.25 else [rng.choice(CDS), rng.choice(CTYPES), rng.choice(CLS)]
        return f

    def single(self, s, variant):
        if variant == "name":
            return {"k": "t", "name": s, "data": {"s": "DATA"}, "nb": False, "fb": False, "obj": False}
        if variant == "fn2":
            return {"k": "t2", "name": "x", "fn": s, "data": {"b": b"DATA".hex()}, "nb": False, "fb": False, "obj": False}
        if variant == "both3":
            return {"k": "t3", "name": s, "fn": s, "data": {"s": "D\r\nATA"}, "ct": "text/plain", "nb": False, "fb": False, "obj": False}
        return {"k": "rf", "name": s, "fn": s, "data": {"b": b"--\r\n".hex()}, "headers": [["X-Custom", "v"]],
                "mm": [None, "image/jpeg", None], "nb": False, "fb": False}

    def cases(self, rng, tier, escalate=False):
        deep = tier == "thorough" or escalate
        maxlen = 4 if deep else 3
        for L in range(0, maxlen + 1):
            for t in itertools.product(HOSTILE, repeat=L):
                s = "".join(t)
                yield {"kind": "param", "value": s}
                variants = ["name", "fn2", "both3"] if L >= 4 else ["name", "fn2", "both3", "rf"]
                for v in variants:
                    yield {"kind": "exh", "boundary": "B", "rand": "", "container": "list", "via": "encode",
                           "fields": [self.single(s, v)]}
        nrand = 400000 if deep else 16000
        for i in range(nrand):
            r = rng.random()
            if r < 0.55:
                boundary = rng.choice(SAFE_BOUNDARIES)
            elif r < 0.85:
                boundary = None
            else:
                boundary = rng.choice(ODD_BOUNDARIES)
            rand = bytes(rng.randrange(256) for _ in range(16)).hex()
            bused = boundary if boundary is not None else rand
            n = rng.choice([0, 1, 1, 2, 2, 3, 4])
            fields = [self.rand_field(rng, bused) for _ in range(n)]
            container = "list"
            if fields and all(f["k"] != "rf" and not f["obj"] for f in fields) and rng.random() < 0.4:
                keys = [(f["name"], bool(f["nb"] and encodable(f["name"]))) for f in fields]
                if len(set(keys)) == len(keys):
                    container = "dict"
            case = {"kind": "rand", "boundary": boundary, "rand": rand, "container": container,
                    "via": "reb" if rng.random() < 0.33 else "encode", "fields": fields}
            rfs = [f for f in fields if f["k"] == "rf" and f.get("headers")]
            if len([f for f in fields if f["k"] == "rf"]) >= 2 and rfs and rng.random() < 0.5:
                # one headers dict object handed to several RequestFields
                for f in fields:
                    if f["k"] == "rf":
                        f["headers"] = [list(x) for x in rfs[0]["headers"]]
                case["share"] = True
            if case["via"] == "reb":
                case["hdrs"] = rng.choice([None, None, [["X-A", "1"]], [["content-type", "text/x-mine"]], [["Content-Type", "multipart/form-data; boundary=mine"]]])
            yield case

    def shrink_candidates(self, case):
        fs = case.get("fields") or []
        for i in range(len(fs)):
            c = dict(case)
            c["fields"] = fs[:i] + fs[i + 1:]
            yield c
        for i, f in enumerate(fs):
            for key in ("name", "fn"):
                s = f.get(key)
                if s:
                    for j in range(len(s)):
                        g = dict(f)
                        g[key] = s[:j] + s[j + 1:]
                        c = dict(case)
                        c["fields"] = fs[:i] + [g] + fs[i + 1:]
                        yield c
            if f.get("headers"):
                g = dict(f)
                g["headers"] = f["headers"][:-1]
                c = dict(case)
                c["fields"] = fs[:i] + [g] + fs[i + 1:]
                yield c
            d = f["data"]
            raw = d.get("s") if "s" in d else d["b"]
            if raw:
                g = dict(f)
                g["data"] = {"s": raw[: len(raw) // 2]} if "s" in d else {"b": raw[: (len(raw) // 4) * 2]}
                c = dict(case)
                c["fields"] = fs[:i] + [g] + fs[i + 1:]
                yield c
        if case.get("via") == "reb":
            c = dict(case)
            c["via"] = "encode"
            yield c

    # ------------------------------------------------------------ building inputs
    def build_field(self, f, shared=None):
        """-> (python object for `fields`, protocol token, expectation dict for the oracle).  `shared`: a dict
        cache — RequestFields whose `headers=` have equal content are then given THE SAME dict object (a caller
        re-using one headers dict for several fields): each part must still carry its own field's headers"""
        from urllib3.fields import RequestField
        k = f["k"]
        name = f["name"]
        pname = as_param(name, f.get("nb"))
        d = f["data"]
        exp = {"data": None, "name": name, "fn": None, "ct": None, "cl": None, "cd_type": "form-data", "other": [], "has_cd": True}
        if k == "t":
            val = data_obj(d)
            tok = f"t/{enc(name)}/{data_tok(d)}"
        elif k == "t2":
            fn = f["fn"]
            g = guess(fn)
            val = (fn, data_obj(d))
            tok = f"t2/{enc(name)}/{opt(fn)}/{data_tok(d)}/{opt(g)}"
            exp["fn"] = fn
            exp["ct"] = (g or "application/octet-stream") if fn else "application/octet-stream"
        elif k == "t3":
            fn = f["fn"]
            val = (as_param(fn, f.get("fb")), data_obj(d), f["ct"])
            tok = f"t3/{enc(name)}/{opt(fn)}/{data_tok(d)}/{opt(f['ct'])}"
            exp["fn"] = fn
            exp["ct"] = f["ct"]
        else:
            fn = f["fn"]
            hs = [(a, b) for a, b in f["headers"]]
            if shared is not None and hs:
                hobj = shared.setdefault(tuple(map(tuple, hs)), dict(hs))
            else:
                hobj = dict(hs) if hs else None
            obj = RequestField(pname, data_obj(d), filename=as_param(fn, f.get("fb")), headers=hobj)
            mm = f["mm"]
            if mm is not None:
                obj.make_multipart(content_disposition=mm[0], content_type=mm[1], content_location=mm[2])
                mmt = "mm:" + ":".join(opt(x) for x in mm)
            else:
                mmt = "-"
            tok = f"rf/{enc(name)}/{opt(fn)}/{data_tok(d)}/{hdrs_tok(hs)}/{mmt}"
            exp["fn"] = fn
            hd = dict(hs)
            if mm is not None:
                exp["cd_type"] = mm[0] or "form-data"
                exp["ct"], exp["cl"] = mm[1], mm[2]
            else:
                exp["has_cd"] = False
                exp["raw_cd"] = hd.get(CD)
                exp["ct"], exp["cl"] = hd.get("Content-Type"), hd.get("Content-Location")
            exp["other"] = [(a, b) for a, b in hd.items() if a not in SORT_KEYS and truthy(b)]
            return obj, tok, exp
        if f.get("obj"):
            return RequestField.from_tuples(pname, val), tok, exp
        return (pname, val), tok, exp

    @staticmethod
    def expected_headers(exp):
        """the header lines the field specifies, from the property text: Content-Disposition with the
        WHATWG-escaped parameters, then Content-Type, Content-Location, then the caller's other headers"""
        hs = []
        if exp["has_cd"]:
            v = exp["cd_type"] + '; name="' + whatwg_escape(exp["name"]) + '"'
            if exp["fn"] is not None:
                v += '; filename="' + whatwg_escape(exp["fn"]) + '"'
            hs.append((CD, v))
        elif truthy(exp.get("raw_cd")):
            hs.append((CD, exp["raw_cd"]))
        if truthy(exp["ct"]):
            hs.append(("Content-Type", exp["ct"]))
        if truthy(exp["cl"]):
            hs.append(("Content-Location", exp["cl"]))
        return hs + list(exp["other"])

    @staticmethod
    def caller_texts(case):
        """every string / bytes the caller supplied (for the 'boundary does not occur' premise)"""
        out = []
        for f in case["fields"]:
            out.append(f["name"].encode("utf-8", "surrogatepass"))
            if f.get("fn") is not None:
                out.append(f["fn"].encode("utf-8", "surrogatepass"))
            d = f["data"]
            out.append(d["s"].encode("utf-8", "surrogatepass") if "s" in d else bytes.fromhex(d["b"]))
            if f.get("ct"):
                out.append(f["ct"].encode())
            for a, b in f.get("headers") or []:
                out.append(a.encode())
                if b:
                    out.append(b.encode())
            for x in f.get("mm") or []:
                if x:
                    out.append(x.encode())
        return out

    # ------------------------------------------------------------ execution
    def execute(self, case, res):
        import urllib3
        from urllib3 import filepost

        def fail(sig, what, **detail):
            res.failures.append(Failure(signature=sig, what=what, case=case, detail=detail or None))

        if case["kind"] == "param":
            from urllib3.fields import format_multipart_header_param
            v = case["value"]
            res.bump("param")
            out = format_multipart_header_param("n", v)
            inner = out[3:-1]
            if not (out.startswith('n="') and out.endswith('"')) or any(c in inner for c in '"\r\n'):
                fail("param-raw-char", f"format_multipart_header_param('n', {v!r}) = {out!r}: raw quote/CR/LF inside the quoted value")
            elif pct_norm(inner.encode("utf-8", "surrogatepass")) != pct_norm(whatwg_escape(v).encode("utf-8", "surrogatepass")):
                fail("param-escape-differs", f"format_multipart_header_param('n', {v!r}) = {out!r}, WHATWG escaping gives {whatwg_escape(v)!r}")
            return [f"param {enc('n')} {enc(v)}"], ["str " + enc(out)]

        boundary = case["boundary"]
        rand = bytes.fromhex(case["rand"])
        bused = boundary if boundary is not None else rand.hex()
        objs, toks, exps = [], [], []
        shared = {} if case.get("share") else None
        if shared is not None:
            res.bump("shared-headers-dict")
        for f in case["fields"]:
            o, t, e = self.build_field(f, shared)
            objs.append(o); toks.append(t); exps.append(e)
            res.bump("field:" + f["k"] + ("/obj" if f.get("obj") else ""))
        fields = dict(objs) if case["container"] == "dict" else objs
        res.bump("container:" + case["container"])
        res.bump("via:" + case["via"])
        res.bump("nfields:%d" % len(objs))
        line = " ".join(["enc", opt(boundary), enc(rand)] + toks)
        lines, out = [line], []

        saved = filepost.os
        filepost.os = types.SimpleNamespace(urandom=lambda n: rand[:n])
        captured = {}
        try:
            try:
                body, ct = filepost.encode_multipart_formdata(fields, boundary=boundary)
            except UnicodeEncodeError:
                res.bump("outcome:UnicodeEncodeError")
                out.append("err UnicodeEncodeError")
                return lines, out
            except Exception as e:      # any other class is outside the property's domain of the model
                fail("unexpected-exception:" + type(e).__name__, f"encode_multipart_formdata raised {type(e).__name__}: {e}")
                out.append("err " + type(e).__name__)
                return lines, out
            if case["via"] == "reb" and objs:
                class PM(urllib3.PoolManager):
                    def urlopen(self, method, url, **kw):
                        captured.update(kw, method=method, url=url)
                        return None
                fields2 = [self.build_field(f)[0] for f in case["fields"]]
                fields2 = dict(fields2) if case["container"] == "dict" else fields2
                hd = case.get("hdrs")
                PM().request_encode_body("POST", "http://h.example/", fields=fields2, multipart_boundary=boundary,
                                         headers=dict(hd) if hd is not None else None)
        finally:
            filepost.os = saved
        res.bump("outcome:ok")
        out.append("ok " + enc(body) + " " + enc(ct))

        # ---- oracle 1: the returned content type names the boundary used
        if ct != "multipart/form-data; boundary=" + bused:
            fail("content-type-boundary", f"content type {ct!r} does not name the boundary {bused!r}")
        try:
            bb = bused.encode("latin-1")
        except UnicodeEncodeError:
            bb = None
        # ---- request_encode_body: Content-Type header set from the encoder, body is the encoder's
        if captured:
            if captured.get("body") != body:
                fail("reb-body", "request_encode_body passed a body different from encode_multipart_formdata's")
            hct = captured["headers"].get("Content-Type")
            caller = None
            for a, b in (case.get("hdrs") or []):
                if a.lower() == "content-type":
                    caller = b
            lines.append(f"reqct {opt(caller)} {enc(ct)}")
            out.append("str " + enc(hct if hct is not None else ""))
            if caller is None and hct != ct:
                fail("reb-content-type", f"request_encode_body sent Content-Type {hct!r}, encoder returned {ct!r}")
            res.bump("reb:caller-ct" if caller is not None else "reb:encoder-ct")

        # ---- oracle 2: strict parse of the real output
        premise = (bb is not None and bused != "" and set(bused) <= _BCHARS
                   and not any((b"--" + bb) in t for t in self.caller_texts(case)))
        res.bump("premise:" + ("holds" if premise else "boundary-odd-or-collides"))
        parsed = strict_parse(body, bb) if bb is not None else None
        if bb is not None:
            lines.append(f"parse {enc(bb)} {enc(body)}")
            out.append(self.parts_line(parsed))
        if premise:
            if parsed is None:
                fail("roundtrip:unparseable", f"strict parser rejects the body {body[:200]!r}")
            elif len(parsed) != len(exps):
                fail("roundtrip:count", f"{len(exps)} fields encoded, strict parser sees {len(parsed)} parts")
            else:
                for i, ((hs, data), e, f) in enumerate(zip(parsed, exps, case["fields"])):
                    want = [(a.encode("utf-8"), b.encode("utf-8")) for a, b in self.expected_headers(e)]
                    if data != data_bytes(f["data"]):
                        fail("roundtrip:data", f"part {i}: data {data[:80]!r} differs from the field's {data_bytes(f['data'])[:80]!r}")
                    if [(a, pct_norm(b)) for a, b in hs] != [(a, pct_norm(b)) for a, b in want]:
                        fail("roundtrip:headers", f"part {i}: headers {hs!r}, the field specifies {want!r}")
                    for a, b in hs:
                        if a == CD.encode() and e["has_cd"]:
                            dp = strict_disposition(b)
                            lines.append(f"disp {enc(b)}")
                            out.append("none" if dp is None else
                                       "disp " + enc(dp[0]) + " " + (",".join(enc(x) + "=" + enc(y) for x, y in dp[1]) or "-"))
                            names = [x for x, _ in dp[1]] if dp else None
                            wantn = [b"name"] + ([b"filename"] if e["fn"] is not None else [])
                            if dp is None or names != wantn:
                                fail("param-raw-char", f"part {i}: Content-Disposition {b!r} does not parse into quoted parameters {wantn!r}")
        # ---- reference-parser cross-check on corrupted output (model parser vs oracle parser)
        if bb is not None and len(body) > 4 and (len(body) * 7 + len(toks)) % 5 == 0:
            pos = (len(body) * 31 + sum(body[:16])) % len(body)
            for mut in (body[:pos] + body[pos + 1:], body[:pos] + b"\r\n" + body[pos:], body[:pos] + b"--" + bb + body[pos:]):
                lines.append(f"parse {enc(bb)} {enc(mut)}")
                out.append(self.parts_line(strict_parse(mut, bb)))
                res.bump("parser-crosscheck")
        return lines, out

    @staticmethod
    def parts_line(parsed):
        if parsed is None:
            return "none"
        s = "parts"
        for hs, data in parsed:
            s += " " + (",".join(enc(a) + "=" + enc(b) for a, b in hs) if hs else "-") + "/" + enc(data)
        return s

    def nontrivial(self, case, impl_out):
        if case["kind"] == "param":
            return any(c in case["value"] for c in '"\r\n')
        for f in case["fields"]:
            if any(c in f["name"] + (f.get("fn") or "") for c in '"\r\n'):
                return True
            d = f["data"]
            raw = d["s"].encode("utf-8", "surrogatepass") if "s" in d else bytes.fromhex(d["b"])
            if b"\r\n" in raw or b"--" in raw:
                return True
        return False


PROP = C20()
