"""C08 — certificate name and fingerprint matching accept exactly what the rules allow.

Correspondence: every query goes to the public functions of the real urllib3
(`_dnsname_match`, `_ipaddress_match`, `match_hostname`, `connection._match_hostname`,
`util.ssl_.is_ipaddress`, `util.ssl_.assert_fingerprint`, plus `ipaddress.ip_address` for the
modelled stdlib parser) and, as one protocol line, to the Lean model (driver `hostname`).

Oracle: an independent three-valued RFC 6125 reference ('A' must accept / 'R' must reject /
'E' either) written from the property text, with its own strict IPv4/IPv6 text parser, and the
fingerprint rule evaluated with hashlib directly.  It never looks at the model.
"""
from __future__ import annotations

import hashlib
import itertools

from ..core import Prop, Failure, enc, enc_pairs

LABELS = ["a", "b", "ab", "*", "a*", "*a", "a*b", "**", "xn--a", "xn--*", ""]
# labels outside the property's alphabet used by the random stream (case, regex specials, A-label
# capitalisations, a caseless non-ASCII letter, characters `re.escape` has to protect)
EXTRA_LABELS = ["A", "aB", "AB", "B", "A*", "*A", "a*B", "XN--a", "Xn--a", "XN--*", "xn--A*", "XN--A*", "xn--ab",
                "XN--AB", "xn--", "x", "xn-", "a-b", "1", "01", "a+", "(a", "a|b", "[a]", "^a", "a$", "\\", "\\*",
                "a?", "a\n", "中", "*中", "a b", "***", "*a*", "ba", "aab", "abb", "abab", "b*", "*b"]

V4_BASES = ["1.2.3.4", "127.0.0.1", "0.0.0.0", "255.255.255.255", "10.0.0.1", "1.2.3.5"]
V6_BASES = ["::1", "::", "fe80::1", "2001:db8::1", "::ffff:1.2.3.4", "1:2:3:4:5:6:7:8", "::102:304",
            "2001:db8:0:0:1:0:0:1", "ff02::2", "1::", "::2"]
ZONES = ["%eth0", "%25eth0", "%1", "%", "%a%b", "%25", "%e!", "%eth0\n", "%%41"]


# =================================================================== independent reference (oracle)

def _strict_v4(s):
    parts = s.split(".")
    if len(parts) != 4:
        return None
    out = []
    for p in parts:
        if not (1 <= len(p) <= 3) or any(c not in "0123456789" for c in p):
            return None
        if len(p) > 1 and p[0] == "0":
            return None
        v = int(p)
        if v > 255:
            return None
        out.append(v)
    return bytes(out)


_HEX = "0123456789abcdefABCDEF"
_UNRES = "ABCDEFGHIJKLMNOPQRSTUVWXYZabcdefghijklmnopqrstuvwxyz0123456789._-~"


def _groups(txt, allow_v4):
    """list of 16-bit values spelled by h16:h16:...[:dotted quad]; None if malformed"""
    if txt == "":
        return []
    gs = txt.split(":")
    vals = []
    for i, g in enumerate(gs):
        if i == len(gs) - 1 and "." in g:
            if not allow_v4:
                return None
            q = _strict_v4(g)
            if q is None:
                return None
            vals += [q[0] * 256 + q[1], q[2] * 256 + q[3]]
            continue
        if not (1 <= len(g) <= 4) or any(c not in _HEX for c in g):
            return None
        vals.append(int(g, 16))
    return vals


def _strict_v6(s):
    """RFC 4291 section 2.2 text forms -> 16 bytes, or None"""
    if s.count("::") > 1 or ":::" in s:
        return None
    if "::" in s:
        l, r = s.split("::")
        lg = _groups(l, False)
        rg = _groups(r, True)
        if lg is None or rg is None or len(lg) + len(rg) > 7:
            return None
        vals = lg + [0] * (8 - len(lg) - len(rg)) + rg
    else:
        vals = _groups(s, True)
        if vals is None or len(vals) != 8:
            return None
    return b"".join(v.to_bytes(2, "big") for v in vals)


def _zone_ok(z):
    """RFC 6874 ZoneID restricted to unreserved characters (a zone with pct-encoded characters is
    left to the 'ambiguous' class: match_hostname cuts at the last '%')"""
    return bool(z) and all(c in _UNRES for c in z)


def classify_host(host, wrapper):
    """('ip', packed) | ('dns',) | ('amb',) — is the reference identity an IP literal?"""
    h = host
    if wrapper and len(h) >= 2 and h[0] == "[" and h[-1] == "]" and "[" not in h[1:-1] and "]" not in h[1:-1]:
        inner = h[1:-1]
        addr, sep, zone = inner.partition("%")
        v = _strict_v6(addr)
        if v is not None and (not sep or _zone_ok(zone)):
            return ("ip", v)
        return ("amb",)
    if "[" in h or "]" in h:
        # brackets are no part of a DNS name; the wrapper strips them only around IP literals
        return ("amb",)
    v = _strict_v4(h)
    if v is not None:
        return ("ip", v)
    addr, sep, zone = h.partition("%")
    v = _strict_v6(addr)
    if v is not None and (not sep or _zone_ok(zone)):
        return ("ip", v)
    head = h[: h.rfind("%")] if "%" in h else h
    if ":" not in h and any((c.isascii() and c.isalpha()) or c in "*-" or ord(c) > 127 for c in head):
        return ("dns",)
    return ("amb",)


def parse_san_ip(value):
    """('v', packed) for a strictly spelled address (trailing white space tolerated: OpenSSL quirk
    named by the code), ('amb',) otherwise"""
    t = value.rstrip(" \t\n\r")
    v = _strict_v4(t)
    if v is None:
        v = _strict_v6(t)
    return ("v", v) if v is not None else ("amb",)


def ref_dns(san, host):
    """one dNSName entry against a DNS host: (verdict, clause)"""
    if san == "":
        return ("E", "empty-san") if host == "" else ("R", "empty-san")
    sl = san.lower().split(".")
    hl = host.lower().split(".")
    if "*" not in san:
        return ("A", "exact") if san.lower() == host.lower() else ("R", "mismatch")
    if san.lower() == host.lower():
        return ("E", "literal-star-host")          # host itself carries '*': no valid reference identity
    if any("*" in l for l in sl[1:]):
        if "*" in host and sl[1:] == hl[1:]:
            return ("E", "literal-star-host")      # the later labels coincide literally, stars included
        return ("R", "not-leftmost")
    if sl[0].count("*") > 1:
        return ("R", "multi-wildcard")
    if len(sl) != len(hl):
        return ("R", "spans-dots")
    if sl[1:] != hl[1:]:
        return ("R", "mismatch")
    left, h0 = sl[0], hl[0]
    if left == "*":
        return ("A", "wildcard") if h0 != "" else ("R", "empty-label")
    if left.startswith("xn--"):
        return ("R", "a-label")
    pre, post = left.split("*")
    if len(h0) >= len(pre) + len(post) and h0.startswith(pre) and h0.endswith(post):
        return ("E", "partial-wildcard")
    return ("R", "mismatch")


def ref_cert(san, cns, host, cn_flag, wrapper):
    """whole certificate: (verdict, clause)"""
    cls = classify_host(host, wrapper)
    dns_entries = [v for k, v in san if k == "DNS"]
    ip_entries = [v for k, v in san if k == "IP Address"]
    san_present = bool(dns_entries or ip_entries)
    if cls[0] == "ip":
        parsed = [parse_san_ip(v) for v in ip_entries]
        if any(p[0] == "amb" for p in parsed):
            return ("E", "odd-ip-san")
        if any(p[1] == cls[1] for p in parsed):
            return ("A", "ip-value")
        return ("R", "ip-value" if ip_entries else ("dns-vs-ip" if dns_entries else "cn-vs-ip" if cns else "no-names"))
    dv = [ref_dns(v, host) for v in dns_entries]
    cv = [ref_dns(v, host) for v in cns]
    order = ["a-label", "not-leftmost", "multi-wildcard", "spans-dots", "empty-label", "empty-san", "mismatch"]
    if cls[0] == "amb":
        if any(x[0] in "AE" for x in dv) or ip_entries or (cn_flag and any(x[0] in "AE" for x in cv)):
            return ("E", "ambiguous-host")
        return ("R", min((x[1] for x in dv), key=order.index) if dv else "no-names")
    for x in dv:
        if x[0] == "A":
            return x
    for x in dv:
        if x[0] == "E":
            return x
    if any(x[0] in "AE" for x in cv):
        if not cn_flag:
            return ("R", "cn-not-enabled")
        if san_present:
            return ("R", "cn-with-san")
        return ("E", "cn-enabled")
    if dv:
        # the most specific reject clause among the entries
        return ("R", min((x[1] for x in dv), key=order.index))
    return ("R", "ip-san-vs-dns-host" if ip_entries else "no-names")


def ref_fingerprint(cert: bytes, pin: str) -> bool:
    p = pin.replace(":", "")
    algs = {32: hashlib.md5, 40: hashlib.sha1, 64: hashlib.sha256}
    if len(p) not in algs:
        return False
    want = algs[len(p)](cert).hexdigest()
    return p.lower() == want and len(p) == len(want)


def ace_prefixed(label):
    return label[:4].lower() == "xn--"


# =================================================================== generators

def names(maxlabels, labels=LABELS):
    for n in range(1, maxlabels + 1):
        for t in itertools.product(labels, repeat=n):
            yield ".".join(t)


def derived_hosts(san):
    """hosts near a SAN: every '*' instantiated, labels added / dropped, case changed"""
    out = {san, san.upper(), san.swapcase(), san + ".", "." + san, "x." + san, san + ".a"}
    fills = ["", "a", "b", "ab", "a.b", "xn--a", ".", "*", "A"]
    if "*" in san and san.count("*") <= 3:
        for f in itertools.product(fills, repeat=san.count("*")):
            parts = san.split("*")
            h = parts[0]
            for x, p in zip(f, parts[1:]):
                h += x + p
            out.add(h)
            out.add(h.upper())
    labs = san.split(".")
    if len(labs) > 1:
        out.add(".".join(labs[1:]))
        out.add(".".join(labs[:-1]))
        out.add(".".join(["a"] + labs[1:]))
        out.add(".".join(["xn--a"] + labs[1:]))
        out.add(".".join(["XN--AB"] + labs[1:]))
        out.add(".".join(["ab"] + labs[1:]))
        out.add(".".join(["a", "b"] + labs[1:]))
    return sorted(out)


def ip_spellings(rng, n_random):
    out = []
    for b in V4_BASES:
        out += [b, b + ".", "0" + b, b + "\n", b + " ", " " + b, b.replace(".", ".0", 1), b + ".5", b.rsplit(".", 1)[0],
                "[" + b + "]", b + "%eth0", "::ffff:" + b, "::" + b, b + "/32"]
    out += ["256.1.1.1", "999.1.1.1", "1.2.3.256", "0x7f.0.0.1", "1.2.3", "1.2.3.4.5", "1..3.4", "01.02.03.04",
            "1.2.3.04", "00.0.0.0", "0.0.0.00", "1.2.3.4\n\n", "１.2.3.4", "1.2.3.٤", "1234.1.1.1", ""]
    for b in V6_BASES:
        out += [b, b.upper(), "[" + b + "]", "[[" + b + "]]", "[" + b, b + "]", b + "\n", "[" + b + "]\n", "[" + b + "\n]",
                b + "/128", " " + b]
        for z in ZONES:
            out += [b + z, "[" + b + z + "]"]
    out += ["0:0:0:0:0:0:0:1", "0000:0000:0000:0000:0000:0000:0000:0001", "00000::1", "0::1", "0:0::1", "::0:1", "::0001",
            "0:0:0:0:0:0:0::1", "::0:0:0:0:0:0:1", "::0:0:0:0:0:0:0:1", "1:2:3:4:5:6:7::", "::2:3:4:5:6:7:8", "1::8",
            "1:2:3:4:5:6:7:8:9", "1:2:3:4:5:6:7", ":1:2:3:4:5:6:7", "1:2:3:4:5:6:7:", ":::", "::1::", "1::2::3", ":1", "1:",
            "::g", "::12345", "::1.2.3.4", "::1.2.3", "::1.2.3.4.5", "::01.2.3.4", "::256.2.3.4", "1:2:3:4:5:6:1.2.3.4",
            "1:2:3:4:5:6:7:1.2.3.4", "1:2:3:4:5:1.2.3.4", "::1.2.3.4:5", "1.2.3.4::", "fe80::1%eth0%x", "FE80::1", "fe80:0::1",
            "fe80::0:1", "fe80:0:0:0:0:0:0:1", "::ffff:102:304", "::FFFF:1.2.3.4", "0:0:0:0:0:ffff:1.2.3.4", "::ffff:1.2.3.04",
            "2001:DB8::1", "2001:db8:0:0:0:0:0:1", "2001:0db8::0001", "2001:db8::1:0:0:1", "2001:db8:0:0:1::1", "::1 ", "::1\t",
            "::1\x0b", "::1\x1f", "::1\xa0", "::1　", "1.2.3.4\r\n", "<invalid>", ":", "::%", "%", "[]", "[", "[::]"]
    toks = ["0", "1", "a", "F", "ff", "0001", "12345", "g", ":", ":", "::", ".", "1.2.3.4", "%", "%e", "%25", "[", "]", "\n", "255", "256"]
    for _ in range(n_random):
        k = rng.randint(1, 11)
        out.append("".join(rng.choice(toks) for _ in range(k)))
    return out


def short_strings(alphabet, maxlen):
    for n in range(0, maxlen + 1):
        for t in itertools.product(alphabet, repeat=n):
            yield "".join(t)


def pin_variants(rng, cert: bytes):
    d = {"md5": hashlib.md5(cert).hexdigest(), "sha1": hashlib.sha1(cert).hexdigest(), "sha256": hashlib.sha256(cert).hexdigest()}
    out = []
    for name, h in d.items():
        colon2 = ":".join(h[i:i + 2] for i in range(0, len(h), 2))
        mixed = "".join(c.upper() if rng.random() < 0.5 else c for c in h)
        rc = "".join(c + (":" if rng.random() < 0.3 else "") for c in h)
        out += [h, h.upper(), mixed, colon2, colon2.upper(), ":" + h + ":", "::" + rc, rc.upper()]
        # every single-nibble flip (exhaustive over positions, one random other digit each)
        for i in range(len(h)):
            alt = rng.choice([c for c in "0123456789abcdef" if c != h[i]])
            out.append(h[:i] + alt + h[i + 1:])
        flip_last = h[:-1] + ("0" if h[-1] != "0" else "1")
        out += [flip_last.upper(), ":".join(flip_last[i:i + 2] for i in range(0, len(flip_last), 2))]
        # truncation / extension
        out += [h[:-1], h[:-2], h[1:], h[: len(h) // 2], h[:8], h + "0", h + "00", h + h[:2], "00" + h, h + ":", h + ":0",
                h + h, h + h[:8], h + h[: 40 - len(h)] if len(h) < 40 else h[:40], (h + h)[:64], h[:32], h[:40]]
        # not hex / not ASCII / white space
        out += [h[:-1] + "g", "x" + h[1:], h[:5] + "中" + h[6:], h + " ", " " + h, h[:-1] + " ", h.replace(h[3], "G", 1),
                h[:-2] + "0x", "0x" + h[2:], h[:-1] + "\n", h[:-1] + "١", h[:-1] + "\ud800",
                "\udfff" + h[1:]]
    out += ["", ":", "::::", "0" * 32, "0" * 40, "0" * 64, "f" * 32, "a" * 31, "a" * 33, "a" * 39, "a" * 41, "a" * 63, "a" * 65,
            "a" * 128, d["sha256"][:32], d["sha256"][:40], d["sha1"][:32], d["md5"] + d["md5"], d["sha1"] + d["sha1"][:24],
            d["md5"] + d["sha1"][:8], "g" * 32, "中" * 32, ":" * 32]
    # true digests of the same certificate under algorithms the rule does not list
    for alg in ("sha512", "sha384", "sha224", "sha3_256", "sha3_512", "blake2b", "blake2s"):
        h = hashlib.new(alg, cert).hexdigest()
        out += [h, h.upper(), ":".join(h[i:i + 2] for i in range(0, len(h), 2))]
    return out


class C08(Prop):
    id = "C08"
    model = "hostname"
    rule = ("SAN lists (quick: up to 2 entries exhaustively over 1-label names and IP spellings, thorough: up to 3) x "
            "host names with 1-4 labels over the property's label alphabet {a,b,ab,*,a*,*a,a*b,**,xn--a,xn--*,empty}: "
            "single-SAN x host pairs exhaustive up to 2 labels (quick) / 3 labels (thorough) plus, for every SAN up to "
            "2 labels and 350 sampled 3-label SANs (thorough: every SAN up to 4 labels), the hosts derived from it (every '*' instantiated by '', a, b, ab, a.b, xn--a, '.', '*'; "
            "labels added/dropped; case changed); a random stream with capitalised / regex-special / non-ASCII labels; "
            "IPv4/IPv6 literals in canonical, expanded, zero-padded, upper-case, embedded-IPv4, zoned, bracketed, "
            "newline-terminated and malformed spellings, on both sides; commonName on/off with and without SANs; "
            "through _dnsname_match, _ipaddress_match, match_hostname, connection._match_hostname, is_ipaddress; "
            "assert_fingerprint with real md5/sha1/sha256 digests of random certificate bytes and pins derived by case "
            "change, colon insertion, every single-nibble flip, truncation, extension, foreign digests and non-hex "
            "characters.  Every answer is compared with the Lean model and judged by the three-valued reference. "
            "non-trivial = a case in which the implementation both accepts and rejects something")
    assumptions = ["str.lower() / re.IGNORECASE modelled for ASCII only (cased non-ASCII letters are outside the generators)",
                   "ipaddress.ip_address (CPython 3.12) is a modelled stdlib function, validated by the `ip` lines",
                   "hashlib digests are uninterpreted in the model; the driver receives the true digests on the protocol line",
                   "a certificate dict is reduced to its subjectAltName and subject entries"]
    trusted = ["CPython `re` (the pattern built by _dnsname_match is replaced by a structural matcher, same language argued in "
               "Model/Hostname.lean and validated by exhaustive `dns` lines)",
               "hashlib / hmac.compare_digest / binascii.unhexlify"]
    time_budget = {"quick": 110, "thorough": 1300}
    batch = 6000
    exhaustive = {"quick": False, "thorough": False}

    # ------------------------------------------------------------------ cases
    def cases(self, rng, tier, escalate=False):
        deep = tier == "thorough" or escalate
        chunk = 250
        # A. single SAN x host pairs
        L = 3 if deep else 2
        hosts_full = list(names(L))
        for san in names(L):
            for i in range(0, len(hosts_full), chunk):
                yield {"k": "pair", "san": san, "hosts": hosts_full[i:i + chunk]}
        n3 = list(names(3))
        for san in (names(4) if deep else list(names(2)) + rng.sample(n3, 350)):
            yield {"k": "pair", "san": san, "hosts": derived_hosts(san)}
        n4 = list(names(4))
        for _ in range(4000 if deep else 300):
            yield {"k": "pair", "san": rng.choice(n4), "hosts": [rng.choice(n4) for _ in range(40)]}
        # random stream with labels outside the alphabet
        pool = LABELS + EXTRA_LABELS
        for _ in range(30000 if deep else 1200):
            n = rng.randint(1, 4)
            san = ".".join(rng.choice(pool) for _ in range(n))
            hs = derived_hosts(san)
            rng.shuffle(hs)
            hs = hs[:25] + [".".join(rng.choice(pool) for _ in range(rng.randint(1, 4))) for _ in range(5)]
            yield {"k": "pair", "san": san, "hosts": hs}
        # B. SAN lists, CN on/off
        n1 = list(names(1))
        n2 = list(names(2))
        ipvals = ["1.2.3.4", "::1", "<invalid>", "1.2.3.4\n"]
        entries1 = [["DNS", v] for v in n1] + [["IP Address", v] for v in ipvals] + [["URI", "a"], ["DNS", "1.2.3.4"]]
        small = ["a", "b", "*", "xn--a", ""]
        hosts_b = (n2 if deep else n1 + [x + "." + y for x in small for y in small]) + \
            ["1.2.3.4", "::1", "[::1]", "A", "XN--A", "0:0:0:0:0:0:0:1"]
        cn_sets = [[], ["a"], ["*.a"], ["**"], ["b", "a"]]
        for combo in itertools.product(entries1, repeat=2):
            for cns in (cn_sets if deep else cn_sets[:2]):
                yield {"k": "cert", "san": list(combo), "cns": cns, "hosts": hosts_b}
        for e in entries1 + [None]:
            # ["**", "a"] / ["a", "**"]: a malformed commonName next to a matching one (the CN loop passes over it too)
            for cns in cn_sets + [["1.2.3.4"], ["xn--*"], ["a*"], ["A"], ["**", "a"], ["a", "**"]]:
                yield {"k": "cert", "san": [e] if e else [], "cns": cns, "hosts": hosts_b + ["a.a.a", ""]}
        if deep:
            e3 = [["DNS", v] for v in n1] + [["IP Address", "1.2.3.4"], ["IP Address", "<invalid>"], ["URI", "a"]]
            for combo in itertools.product(e3, repeat=3):
                yield {"k": "cert", "san": list(combo), "cns": rng.choice(cn_sets), "hosts": n1 + ["a.a", "1.2.3.4", "b.a"]}
        e_rand = [["DNS", v] for v in n2] + entries1
        for _ in range(60000 if deep else 1500):
            k = rng.choice([1, 2, 2, 3, 3])
            san = [rng.choice(e_rand) for _ in range(k)]
            hs = []
            for kind, v in san:
                hs += rng.sample(derived_hosts(v), 3) if kind == "DNS" else [v]
            hs += [rng.choice(n2) for _ in range(4)]
            yield {"k": "cert", "san": san, "cns": rng.choice(cn_sets), "hosts": hs}
        # missing / empty certificate
        yield {"k": "cert", "san": None, "cns": None, "hosts": ["a", "1.2.3.4", ""]}
        # C. IP literals in many spellings on both sides
        sp = ip_spellings(rng, 6000 if deep else 600)
        for i in range(0, len(sp), 100):
            yield {"k": "iptext", "texts": sp[i:i + 100]}
        alpha = ["1", ":", ".", "a", "%", "[", "\n", "0"]
        ss = list(short_strings(alpha, 6 if deep else 4))
        for i in range(0, len(ss), 400):
            yield {"k": "iptext", "texts": ss[i:i + 400]}
        good = [s for s in sp if len(s) < 60]
        for _ in range(12000 if deep else 500):
            sans = [rng.choice(good) for _ in range(rng.choice([1, 1, 2]))]
            hs = [rng.choice(good) for _ in range(12)] + sans + ["[" + s + "]" for s in sans]
            yield {"k": "ipcert", "sans": sans, "hosts": hs}
        canon = V4_BASES + V6_BASES + ["0:0:0:0:0:0:0:1", "FE80::1", "::ffff:102:304", "2001:DB8::1", "1.2.3.4\n", "::1 "]
        for s in canon:
            yield {"k": "ipcert", "sans": [s], "hosts": sp[:700] if deep else sp[:420:2]}
        # E. fingerprints
        for i in range(400 if deep else 40):
            n = rng.choice([0, 1, 16, 64, 300])
            cert = bytes(rng.randrange(256) for _ in range(n))
            yield {"k": "fp", "cert": cert.hex(), "pins": pin_variants(rng, cert)}
        yield {"k": "fp", "cert": None, "pins": ["", "a" * 32, hashlib.md5(b"").hexdigest()]}

    def shrink_candidates(self, case):
        for key in ("hosts", "texts", "pins", "sans", "san", "cns"):
            xs = case.get(key)
            if isinstance(xs, list) and len(xs) > 1:
                half = len(xs) // 2
                for sub in (xs[:half], xs[half:]):
                    c = dict(case)
                    c[key] = sub
                    yield c
                if len(xs) <= 12:
                    for i in range(len(xs)):
                        c = dict(case)
                        c[key] = xs[:i] + xs[i + 1:]
                        yield c

    # ------------------------------------------------------------------ execution helpers
    @staticmethod
    def _call(fn, *args):
        from urllib3.util.ssl_match_hostname import CertificateError
        from urllib3.exceptions import SSLError
        import binascii
        try:
            r = fn(*args)
            return "ok", r
        except CertificateError:
            return "CertificateError", None
        except SSLError:
            return "SSLError", None
        except binascii.Error:
            return "BinasciiError", None
        except UnicodeEncodeError:
            return "UnicodeEncodeError", None
        except ValueError:
            return "ValueError", None

    @staticmethod
    def _cert_dict(san, cns):
        if san is None and cns is None:
            return {}
        d = {"version": 3}
        if san:
            d["subjectAltName"] = tuple((k, v) for k, v in san)
        if cns:
            # one RDN with an unrelated attribute first, then one RDN per commonName
            d["subject"] = ((("organizationName", "o"),),) + tuple((("commonName", c),) for c in cns)
        return d

    @staticmethod
    def _cert_tokens(san, cns):
        if san is None and cns is None:
            return "0 - -"
        st = enc_pairs([(k, v) for k, v in san]) if san else "-"
        if cns:
            subj = ";".join([enc_pairs([("organizationName", "o")])] + [enc_pairs([("commonName", c)]) for c in cns])
        else:
            subj = "-"
        return f"1 {st} {subj}"

    def _judge(self, res, got, verdict, clause, what, small_case, san=None, host=None):
        """got: 'ok' (accepted) or an exception class name (rejected)"""
        accepted = got == "ok"
        res.bump(f"ref:{verdict}:{clause}:{'acc' if accepted else 'rej'}")
        if verdict == "A" and not accepted:
            sig = "must-accept-rejected:" + clause
            if san is not None and host is not None and self._blocked_by_earlier_multi_wildcard(san, host):
                sig = "accept-blocked-by-earlier-multi-wildcard-san"
            self._fail(res, sig, f"{what}: reference says must accept ({clause}), got {got}", small_case)
        elif verdict == "R" and accepted:
            sig = "must-reject-accepted:" + clause
            if clause == "a-label" and san is not None and self._uppercase_ace(san, host):
                sig = "alabel-wildcard-uppercase-ace-prefix"
            self._fail(res, sig, f"{what}: reference says must reject ({clause}), got accepted", small_case)

    @staticmethod
    def _fail(res, sig, what, case, keep=4):
        """record a failure; at most `keep` per signature and result object (a known finding met a
        thousand times must not end the shard early — the rest is only counted)"""
        cnt = res.__dict__.setdefault("_c08_sigs", {})
        cnt[sig] = cnt.get(sig, 0) + 1
        if cnt[sig] <= keep:
            res.failures.append(Failure(signature=sig, what=what, case=case))
        else:
            res.bump("failures-not-listed:" + sig)

    @staticmethod
    def _blocked_by_earlier_multi_wildcard(san, host):
        """classifier: the accepting entry is preceded by a dNSName whose left-most label has >1 '*'
        (signature of a repaired defect, see notes/C08.md "Repaired defects" — seeing it again is a regression)"""
        seen_bad = False
        for k, v in san:
            if k != "DNS":
                continue
            if v.split(".")[0].count("*") > 1:
                seen_bad = True
                continue
            if ref_dns(v, host)[0] == "A":
                return seen_bad
        return False

    @staticmethod
    def _uppercase_ace(san, host):
        """classifier: every wildcard A-label entry that matches spells its ACE prefix not as lower-case 'xn--'
        (signature of a repaired defect, see notes/C08.md "Repaired defects" — seeing it again is a regression)"""
        for k, v in san:
            if k == "DNS" and ref_dns(v, host) == ("R", "a-label"):
                left = v.split(".")[0]
                if ace_prefixed(left) and not left.startswith("xn--") and not host.startswith("xn--"):
                    return True
        return False

    # ------------------------------------------------------------------ execute
    def execute(self, case, res):
        import ipaddress
        from urllib3.util.ssl_match_hostname import match_hostname, _dnsname_match, _ipaddress_match
        from urllib3.connection import _match_hostname
        from urllib3.util.ssl_ import assert_fingerprint, is_ipaddress
        lines, out = [], []
        k = case["k"]
        res.bump("kind:" + k)

        def run_cert(san, cns, host, flags, tag):
            cert = self._cert_dict(san, cns)
            ctoks = self._cert_tokens(san, cns)
            for cn in flags:
                for name, fn, wrapper in (("mh", match_hostname, False), ("wmh", _match_hostname, True)):
                    got, _ = self._call(fn, cert, host, bool(cn))
                    lines.append(f"{name} {ctoks} {enc(host)} {cn}")
                    out.append(got)
                    if san is None and cns is None:
                        verdict, clause = "R", "no-certificate"
                    else:
                        verdict, clause = ref_cert(san or [], cns or [], host, bool(cn), wrapper)
                    small = {"k": "cert", "san": san, "cns": cns, "hosts": [host]}
                    self._judge(res, got, verdict, clause, f"{fn.__name__}(san={san!r}, cn={cns!r}, host={host!r}, "
                                f"hostname_checks_common_name={bool(cn)})", small, san or [], host)

        if k == "pair":
            san = case["san"]
            for host in case["hosts"]:
                got, r = self._call(_dnsname_match, san, host)
                lines.append(f"dns {enc(san)} {enc(host)}")
                o = got if got != "ok" else ("1" if r else "0")
                out.append(o)
                verdict, clause = ref_dns(san, host)
                # at this level '1' is acceptance; anything else (False / None / CertificateError) rejection
                self._judge(res, "ok" if o == "1" else (o if o != "0" else "no-match"), verdict, clause,
                            f"_dnsname_match({san!r}, {host!r})", {"k": "pair", "san": san, "hosts": [host]},
                            [["DNS", san]], host)
                run_cert([["DNS", san]], [], host, (0,), "pair")
        elif k == "cert":
            for host in case["hosts"]:
                run_cert(case["san"], case["cns"], host, (0, 1), "cert")
        elif k == "iptext":
            for t in case["texts"]:
                try:
                    ip = ipaddress.ip_address(t)
                    o = f"v{ip.version} " + enc(ip.packed)
                except ValueError:
                    ip = None
                    o = "ValueError"
                lines.append(f"ip {enc(t)}")
                out.append(o)
                lines.append(f"isip {enc(t)}")
                out.append("1" if is_ipaddress(t) else "0")
                # the reference's own parser must agree with the stdlib on strictly spelled literals
                cls = classify_host(t, False)
                if cls[0] == "ip" and (ip is None or ip.packed != cls[1]):
                    raise AssertionError(f"reference parser and ipaddress disagree on {t!r}")
                if cls[0] == "dns" and ip is not None:
                    raise AssertionError(f"reference calls {t!r} a DNS name, ipaddress parses it")
        elif k == "ipcert":
            sans = case["sans"]
            san = [["IP Address", s] for s in sans]
            for host in case["hosts"]:
                try:
                    hip = ipaddress.ip_address(host)
                except ValueError:
                    hip = None
                if hip is not None:
                    got, r = self._call(_ipaddress_match, sans[0], hip)
                    lines.append(f"ipm {enc(sans[0])} {enc(host)}")
                    out.append(got if got != "ok" else ("1" if r else "0"))
                    if r is not None and not isinstance(r, bool):
                        res.failures.append(Failure(signature="ipaddress-match-not-bool", what="_ipaddress_match did not return a bool",
                                                    case={"k": "ipcert", "sans": sans[:1], "hosts": [host]}))
                run_cert(san, [], host, (0,), "ipcert")
            # the same certificate with a dNSName spelling the address: must never accept an IP host
            dsan = [["DNS", s] for s in sans]
            for host in case["hosts"][:6]:
                run_cert(dsan, sans[:1], host, (1,), "ipcert-dns")
        elif k == "fp":
            cert = None if case["cert"] is None else bytes.fromhex(case["cert"])
            data = cert if cert is not None else b""
            d1, d2, d3 = hashlib.md5(data).digest(), hashlib.sha1(data).digest(), hashlib.sha256(data).digest()
            for pin in case["pins"]:
                got, _ = self._call(assert_fingerprint, cert, pin)
                lines.append(f"fp {enc(cert) if cert is not None else '~'} {enc(pin)} {enc(d1)} {enc(d2)} {enc(d3)}")
                out.append(got)
                want = cert is not None and ref_fingerprint(cert, pin)
                res.bump(f"fp:{'acc' if want else 'rej'}:len{len(pin.replace(':', ''))}" if len(pin.replace(':', '')) in (32, 40, 64)
                         else f"fp:{'acc' if want else 'rej'}:other-length")
                if (got == "ok") != want:
                    sig = "fingerprint-wrongly-" + ("rejected" if want else "accepted")
                    self._fail(res, sig, f"assert_fingerprint(cert[{len(data)} bytes], {pin!r}) -> {got}; "
                               f"the md5/sha1/sha256 rule says {'accept' if want else 'reject'}",
                               {"k": "fp", "cert": case["cert"], "pins": [pin]})
        else:
            raise ValueError(k)
        return lines, out

    def nontrivial(self, case, impl_out):
        acc = any(o in ("ok", "1") or o.startswith("v") for o in impl_out)
        rej = any(not (o in ("ok", "1") or o.startswith("v")) for o in impl_out)
        return acc and rej


PROP = C08()
