"""C18 — connections are never shared across differing connection settings.

Correspondence (driver `poolkey`): every case drives a real `PoolManager` / `ProxyManager` (real pool
classes with a recording `__init__`, or fake pool classes for ill-typed values — no socket is ever
opened) and the Lean model `U3.PoolKey` with the same contexts; per request the pool identity (small
integers in order of creation), whether a pool was created, the keyword arguments handed to the
pool class and the manager's `connection_pool_kw` afterwards are compared; plus direct runs of
`_default_key_normalizer` (full key contents / error class), key equality of context pairs
(`same` / `different` / error) and `_merge_pool_kwargs`.

Oracle (implementation only, the property text): for every keyword of the generated constructor
signatures and every pair of its sample values, supplied through `pool_kwargs` or through the
manager's defaults: differing settings must give distinct pools (or the keyword is rejected with a
`TypeError` by the key constructor); contexts equal up to scheme/host case and explicit-vs-default
port must give the same pool; on random request sequences two requests share a pool only if their
effective settings are equal; `connection_pool_kw` is unchanged (deep snapshot) by every call; for
`ProxyManager` every proxy constructor keyword changes the pool key.
"""
from __future__ import annotations

import itertools
import ssl
import warnings

from ..core import Prop, Failure, enc

POSITIONAL = ("host", "port", "scheme")


def O(i, k):
    return {"o": i, "k": k}


def D(**kw):
    return {"d": dict(kw)}


# sample values per keyword (JSON specs, see build()); every list has >= 2 pairwise "different" values
VALUES = {
    "timeout": [O(1, "timeout"), O(2, "timeout"), 3, 7],
    "maxsize": [2, 5],
    "block": [True, False],
    "headers": [D(A="1"), D(A="2"), {"d": {"A": "1", "B": "2"}}, {"d": {"B": "2", "A": "1"}}],
    "retries": [O(3, "retry"), O(4, "retry"), 2, False],
    "_proxy": [{"url": "http://proxy:3128"}, {"url": "http://proxy2:3128"}, {"url": "https://proxy:3128"}],
    "_proxy_headers": [D(P="1"), D(P="2"), {"d": {}}],
    "_proxy_config": [{"pc": [O(5, "sslctx"), False, None, None]}, {"pc": [O(6, "sslctx"), False, None, None]},
                      {"pc": [None, True, "h", None]}, {"pc": [None, True, "h", "aa"]}],
    "source_address": [{"t": ["127.0.0.1", 0]}, {"t": ["127.0.0.2", 0]}, {"t": ["127.0.0.1", 5]}],
    "blocksize": [8192, 32768, 16384],
    "socket_options": [{"l": [{"t": [6, 1, 1]}]}, {"l": []}, {"t": [{"t": [6, 1, 1]}]}, {"l": [{"t": [6, 1, 1]}, {"t": [1, 9, 1]}]}],
    "proxy": [{"url": "http://proxy:3128"}, {"url": "http://proxy2:3128"}],
    "proxy_config": [{"pc": [None, False, None, None]}, {"pc": [None, True, None, None]}],
    "cert_reqs": ["CERT_NONE", "CERT_REQUIRED", 2],
    "assert_hostname": ["a.example", "b.example", False],
    "assert_fingerprint": ["aa:bb", "cc:dd"],
    "server_hostname": ["s1.example", "s2.example"],
    "ssl_context": [O(7, "sslctx"), O(8, "sslctx")],
    "ca_certs": ["/c1.pem", "/c2.pem"],
    "ca_cert_dir": ["/d1", "/d2"],
    "ca_cert_data": ["DATA1", "DATA2"],
    "ssl_minimum_version": [{"tls": 771}, {"tls": 772}],
    "ssl_maximum_version": [{"tls": 772}, {"tls": 771}],
    "ssl_version": [2, 16],
    "cert_file": ["/cert1", "/cert2"],
    "key_file": ["/key1", "/key2"],
    "key_password": ["pw1", "pw2"],
    "_socks_options": [D(v="5"), D(v="4"), {"d": {"v": "5", "u": "x"}}, {"d": {"u": "x", "v": "5"}}],
}
GENERIC = ["v1", "v2", 7]           # for a keyword this table does not know (a new constructor keyword)
# keywords outside every constructor signature, used on the correspondence-only stream
QUIRK = ["strict", "file", "password", "foo", "key_scheme", "key_file"]
ILL = [None, 5, True, "ab", {"l": [1, 2]}, {"d": {"a": "b"}}, O(9, "plain"), {"t": []}, ""]


def signature_keywords():
    """keyword names of the four pool / connection constructors, read from the source on every run
    (the same reading that generates lean/U3/Gen/PoolKey.lean)"""
    from tools.facts import poolkey
    pk = poolkey.read_facts()
    sig = pk["signatures"]
    out = []
    for lbl in ("httpPool", "httpsPool", "httpConn", "httpsConn"):
        for n in sig[lbl]["names"]:
            if n not in out:
                out.append(n)
    return out, pk


class Objs:
    """objects of one case: spec id -> python object, python object -> protocol id"""

    def __init__(self):
        self.by_spec = {}
        self.ids = {}
        self.keep = []

    def make(self, i, kind):
        if i not in self.by_spec:
            if kind == "retry":
                from urllib3.util.retry import Retry
                o = Retry(total=3)
            elif kind == "timeout":
                from urllib3.util.timeout import Timeout
                o = Timeout(total=5)
            elif kind == "sslctx":
                o = ssl.SSLContext(ssl.PROTOCOL_TLS_CLIENT)
            else:
                o = object()
            self.by_spec[i] = o
            self.ids[id(o)] = i
            self.keep.append(o)
        return self.by_spec[i]

    def ident(self, o):
        if id(o) not in self.ids:
            self.ids[id(o)] = 1000 + len(self.ids)
            self.keep.append(o)
        return self.ids[id(o)]


def build(spec, objs):
    if spec is None or isinstance(spec, (bool, int, str)):
        return spec
    if "d" in spec:
        return dict(spec["d"])
    if "l" in spec:
        return [build(x, objs) for x in spec["l"]]
    if "t" in spec:
        return tuple(build(x, objs) for x in spec["t"])
    if "o" in spec:
        return objs.make(spec["o"], spec["k"])
    if "url" in spec:
        from urllib3.util.url import parse_url
        return parse_url(spec["url"])
    if "pc" in spec:
        from urllib3.connection import ProxyConfig
        return ProxyConfig(*[build(x, objs) for x in spec["pc"]])
    if "tls" in spec:
        return ssl.TLSVersion(spec["tls"])
    raise ValueError(spec)


def build_ctx(items, objs):
    return None if items is None else {k: build(v, objs) for k, v in items}


def enc_val(v, objs):
    """python value -> protocol tokens (canonical: frozenset sorted; tuple and list alike; IntEnum as int)"""
    if v is None:
        return "N"
    if isinstance(v, bool):
        return "B1" if v else "B0"
    if isinstance(v, int):
        return "I%d" % int(v)
    if isinstance(v, str):
        return "S" + enc(v)
    if isinstance(v, dict):
        return " ".join(["D%d" % len(v)] + [enc(k) + " " + enc(x) for k, x in v.items()])
    if isinstance(v, frozenset):
        its = sorted(v)
        return " ".join(["D%d" % len(its)] + [enc(k) + " " + enc(x) for k, x in its])
    if isinstance(v, (list, tuple)):
        return " ".join(["L%d" % len(v)] + [enc_val(x, objs) for x in v])
    return "O%d" % objs.ident(v)


def enc_ctx(c, objs):
    return " ".join(["%d" % len(c)] + [enc(k) + " " + enc_val(v, objs) for k, v in c.items()])


def enc_optctx(c, objs):
    return "~" if c is None else enc_ctx(c, objs)


EXC = ("KeyError", "AttributeError", "TypeError", "LocationValueError", "URLSchemeUnknown")


def settings(defaults, kw, host, scheme, port):
    """the effective connection settings of a request, written from the property text (independent
    of urllib3's merge / normaliser): None == absent, dicts as item sets, list == tuple,
    blocksize default, scheme/host case-insensitive, default port filled in"""
    from urllib3.poolmanager import _DEFAULT_BLOCKSIZE
    eff = {k: v for k, v in defaults.items()}
    for k, v in (kw or {}).items():
        eff[k] = v
    eff = {k: v for k, v in eff.items() if v is not None and k not in POSITIONAL}
    out = {}
    for k, v in eff.items():
        if k in ("headers", "_proxy_headers", "_socks_options") and isinstance(v, dict):
            v = frozenset(v.items())
        elif k == "socket_options":
            v = tuple(v)
        out[k] = v
    out.setdefault("blocksize", _DEFAULT_BLOCKSIZE)
    sch = (scheme or "http").lower()
    out["scheme"] = sch
    out["host"] = host.lower()
    out["port"] = port or {"http": 80, "https": 443}.get(sch, 80)
    return out


class C18(Prop):
    id = "C18"
    model = "poolkey"
    rule = ("request contexts over every keyword of the generated constructor signatures (HTTPConnection, "
            "HTTPSConnection, HTTPConnectionPool, HTTPSConnectionPool) plus _socks_options and out-of-signature "
            "quirk keywords; every keyword x every pair of its sample values x {pool_kwargs, constructor defaults} x "
            "{http, https} x {real, fake pool classes}; case / default-port variants via connection_from_host and "
            "connection_from_url; random request sequences (2-6 requests, random defaults and overrides incl. None "
            "deletions) ; direct normaliser / key-pair / merge runs incl. ill-typed values; ProxyManager pairs "
            "differing in one proxy keyword. Compared with the Lean model: pool identity, created-or-reused, pool "
            "constructor kwargs, connection_pool_kw after every call, key contents, error class. "
            "non-trivial = at least two pools created or a key computed from >= 3 keywords")
    assumptions = ["objects without __eq__ (Retry, Timeout, SSLContext) are compared by identity, as the code does",
                   "Python == between int and bool (1 == True) is outside the model: generators never offer 0/1 and "
                   "bools for the same keyword",
                   "str.lower() is modelled for ASCII only (hosts / schemes are ASCII in the generator)",
                   "pool eviction (num_pools) is C17's subject: managers are created with num_pools=1000"]
    trusted = ["CPython dict insertion order, namedtuple construction, frozenset / tuple equality and hashing"]
    time_budget = {"quick": 100, "thorough": 900}

    _sig = None

    def sig(self):
        if C18._sig is None:
            C18._sig = signature_keywords()
        return C18._sig

    # ------------------------------------------------------------------ generation
    def values_for(self, kw):
        return VALUES.get(kw, GENERIC)

    def rand_val(self, rng, kw):
        r = rng.random()
        if r < 0.12:
            return None
        if r < 0.18:
            v = rng.choice(ILL)
            # a list / dict kept as is in the key is unhashable (TypeError from the dict lookup, outside
            # the model): offer them only where the normaliser converts or rejects them
            if isinstance(v, dict) and ("l" in v or "d" in v) and kw not in (
                    "socket_options", "headers", "_proxy_headers", "_socks_options", "scheme", "host"):
                return 5
            return v
        return rng.choice(self.values_for(kw))

    def rand_items(self, rng, kws, n, quirk=0.0):
        items, seen = [], set()
        for _ in range(n):
            k = rng.choice(QUIRK) if rng.random() < quirk else rng.choice(kws)
            if k in seen:
                continue
            seen.add(k)
            items.append([k, self.rand_val(rng, k)])
        return items

    def typed_items(self, rng, kws, n):
        items, seen = [], set()
        for _ in range(n):
            k = rng.choice(kws)
            if k in seen or k in ("proxy", "proxy_config", "_socks_options"):
                continue
            seen.add(k)
            items.append([k, rng.choice(self.values_for(k))])
        return items

    def cases(self, rng, tier, escalate=False):
        deep = tier == "thorough" or escalate
        kws_all, _ = self.sig()
        kws = [k for k in kws_all if k not in POSITIONAL]
        keyable = kws + ["_socks_options"]
        # A. every keyword x every pair of sample values x via x scheme x pool classes
        for kw in keyable:
            vals = self.values_for(kw)
            for i, j in itertools.combinations(range(len(vals)), 2):
                for via in ("kwargs", "defaults"):
                    for scheme in ("http", "https"):
                        for real in (True, False):
                            if real and kw in ("_socks_options",):
                                continue
                            yield {"kind": "onekw", "kw": kw, "a": vals[i], "b": vals[j], "via": via,
                                   "scheme": scheme, "real": real,
                                   "extra": self.typed_items(rng, [k for k in kws if k != kw], rng.choice([0, 0, 2, 4]))}
        # B. case / default-port variants
        hosts = [("example.com", "EXAMPLE.com"), ("a.b", "A.B"), ("h", "H")]
        for (h1, h2) in hosts:
            for scheme, dport in (("http", 80), ("https", 443)):
                for real in (True, False):
                    for _ in range(4 if deep else 2):
                        yield {"kind": "variants", "scheme": scheme, "h1": h1, "h2": h2, "dport": dport, "real": real,
                               "defaults": self.typed_items(rng, kws, rng.choice([0, 1, 3])),
                               "kw": self.typed_items(rng, kws, rng.choice([0, 0, 2])) or None}
        # F. ProxyManager pairs differing in one proxy keyword, and overrides inside one ProxyManager
        pbase = {"proxy_url": "http://proxy:3128", "proxy_headers": {"P": "1"}, "proxy_ssl_context": None,
                 "use_forwarding_for_https": False, "proxy_assert_hostname": None, "proxy_assert_fingerprint": None}
        palt = {"proxy_url": ["http://proxy:3129", "https://proxy:3128", "http://other:3128"],
                "proxy_headers": [{"P": "2"}, {"P": "1", "Q": "1"}, None], "proxy_ssl_context": [O(11, "sslctx")],
                "use_forwarding_for_https": [True], "proxy_assert_hostname": ["ph", False],
                "proxy_assert_fingerprint": ["aa:bb"]}
        for k, alts in palt.items():
            for alt in alts:
                for scheme in ("http", "https"):
                    b = dict(pbase)
                    b[k] = alt
                    yield {"kind": "proxypair", "kw": k, "a": pbase, "b": b, "scheme": scheme}
        for kw in ("_proxy", "_proxy_headers", "_proxy_config", "headers", "timeout", "ssl_context", "cert_reqs"):
            vals = self.values_for(kw)
            for scheme in ("http", "https"):
                yield {"kind": "proxyover", "base": pbase, "kw": kw, "a": vals[0], "b": vals[1], "scheme": scheme}
        # C. random request sequences; D. direct normaliser / pair / merge runs
        nrand = 40000 if deep else 2500
        for n in range(nrand):
            r = rng.random()
            if r < 0.55:
                quirk = 0.15 if rng.random() < 0.3 else 0.0
                reqs = []
                for _ in range(rng.randint(2, 6)):
                    op = rng.choice(["host", "host", "host", "url", "ctx"]) if quirk else rng.choice(["host", "host", "url"])
                    kw = self.rand_items(rng, keyable, rng.choice([0, 1, 1, 2, 3]), quirk) if rng.random() < 0.7 else None
                    host = rng.choice(["a", "A", "b", "a", ""]) if quirk else rng.choice(["a", "A", "b", "a"])
                    scheme = rng.choice(["http", "https", "HTTP", None, "ftp", "Https"]) if quirk else rng.choice(["http", "https", "http", None])
                    port = rng.choice([None, 0, 80, 443, 8080])
                    if op == "url":
                        sch = (scheme or "http")
                        url = f"{sch}://{host or 'a'}" + (f":{port}" if port else "") + "/x"
                        reqs.append({"op": "url", "url": url, "kw": kw})
                    elif op == "ctx":
                        items = [["scheme", rng.choice(["http", "https", "HTTP", None, 5])], ["host", rng.choice(["a", "A"])]]
                        if rng.random() < 0.8:
                            items.append(["port", port])
                        rng.shuffle(items)
                        if rng.random() < 0.2:
                            items.pop()
                        reqs.append({"op": "ctx", "ctx": items + (kw or [])})
                    else:
                        reqs.append({"op": "host", "host": host, "scheme": scheme, "port": port, "kw": kw})
                yield {"kind": "rand", "quirk": bool(quirk), "real": False,
                       "defaults": self.rand_items(rng, keyable, rng.choice([0, 1, 2, 4]), quirk), "reqs": reqs}
            elif r < 0.75:
                items = [["scheme", rng.choice(["http", "HTTPS", "https", "hTTp"])], ["host", rng.choice(["a", "A", "xn--a.B"])]]
                if rng.random() < 0.1:
                    i = rng.randrange(2)
                    items[i][1] = self.rand_val(rng, items[i][0]) if rng.random() < 0.5 else rng.choice(ILL)
                if rng.random() < 0.05:
                    items.pop(rng.randrange(2))
                if rng.random() < 0.7:
                    items.append(["port", rng.choice([80, 443, None])])
                items += self.rand_items(rng, keyable, rng.choice([0, 1, 2, 3, 6]), 0.15)
                rng.shuffle(items)
                yield {"kind": "norm", "ctx": items}
            elif r < 0.9:
                base = [["scheme", "http"], ["host", "a"], ["port", 80]] + self.rand_items(rng, keyable, rng.choice([1, 2, 3]), 0.2)
                other = [list(x) for x in base]
                m = rng.random()
                if m < 0.3:
                    i = rng.randrange(len(other))
                    k = other[i][0]
                    other[i][1] = rng.choice(["HTTP", "A", "hTTp"]) if k in ("scheme", "host") and rng.random() < .7 else self.rand_val(rng, k)
                elif m < 0.5:
                    rng.shuffle(other)
                elif m < 0.7:
                    other = [x for x in other if x[1] is not None or rng.random() < 0.5]
                elif m < 0.8:
                    other += self.rand_items(rng, [k for k in keyable if k not in [x[0] for x in other]], 1, 0.0)
                yield {"kind": "pair", "a": base, "b": other}
            else:
                yield {"kind": "merge", "defaults": self.rand_items(rng, keyable, rng.choice([0, 1, 3, 5]), 0.1),
                       "kw": self.rand_items(rng, keyable, rng.choice([0, 1, 2, 4]), 0.1) if rng.random() < 0.85 else None}

    # ------------------------------------------------------------------ execution helpers
    def make_manager(self, cls, real, kwargs, log):
        """manager whose pool classes record the constructor call and never touch the network"""
        from urllib3 import poolmanager as pmod
        from urllib3.connectionpool import HTTPConnectionPool, HTTPSConnectionPool
        if real:
            class RecHTTP(HTTPConnectionPool):
                def __init__(self, host, port=None, **kw):
                    log.append((self, host, port, dict(kw)))
                    super().__init__(host, port, **kw)

            class RecHTTPS(HTTPSConnectionPool):
                def __init__(self, host, port=None, **kw):
                    log.append((self, host, port, dict(kw)))
                    super().__init__(host, port, **kw)
            classes = {"http": RecHTTP, "https": RecHTTPS}
        else:
            class Fake:
                def __init__(self, host, port=None, **kw):
                    log.append((self, host, port, dict(kw)))

                def close(self):
                    pass
            classes = {"http": Fake, "https": type("FakeS", (Fake,), {})}
        m = cls(num_pools=1000, **kwargs)
        m.pool_classes_by_scheme = classes
        return m

    class Run:
        """one manager under observation"""

        def __init__(self, prop, m, objs, log, res, case, lines, out):
            self.prop, self.m, self.objs, self.log, self.res, self.case = prop, m, objs, log, res, case
            self.lines, self.out = lines, out
            self.pool_ids = {}
            self.history = []         # (pool id, settings or None, created)
            lines.append("mgr " + enc_ctx(m.connection_pool_kw, objs))
            out.append("ok")

        def call(self, line, fn, sett=None):
            m, objs = self.m, self.objs
            before = enc_ctx(m.connection_pool_kw, objs)
            before_id = id(m.connection_pool_kw)
            n0 = len(self.log)
            self.lines.append(line)
            pool = None
            try:
                with warnings.catch_warnings():
                    warnings.simplefilter("ignore")
                    pool = fn()
            except Exception as e:
                name = type(e).__name__
                if name not in EXC:
                    raise
                self.out.append(name)
                self.res.bump("req:" + name)
            else:
                if id(pool) not in self.pool_ids:
                    self.pool_ids[id(pool)] = len(self.pool_ids)
                pid = self.pool_ids[id(pool)]
                created = [r for r in self.log[n0:] if r[0] is pool]
                if created:
                    self.out.append(f"new {pid} kw " + enc_ctx(created[0][3], objs))
                    self.res.bump("req:new")
                else:
                    self.out.append(f"old {pid}")
                    self.res.bump("req:old")
                self.history.append((pid, sett, pool))
            after = enc_ctx(m.connection_pool_kw, objs)
            self.lines.append("defaults")
            self.out.append(after)
            if after != before or id(m.connection_pool_kw) != before_id:
                self.res.failures.append(Failure(
                    signature="defaults-mutated",
                    what="a request changed the manager's connection_pool_kw (per-request overrides must never alter the defaults)",
                    case=self.case, detail={"line": line, "before": before, "after": after}))
            return pool

        def host(self, host, scheme, port, kw, via_url=None):
            m, objs = self.m, self.objs
            if via_url is not None:
                from urllib3.util.url import parse_url
                u = parse_url(via_url)
                host, port, scheme = u.host, u.port, u.scheme
                fn = lambda: m.connection_from_url(via_url, pool_kwargs=kw)
            else:
                fn = lambda: m.connection_from_host(host, port, scheme, pool_kwargs=kw)
            h2, p2, s2 = host, port, scheme
            if getattr(m, "proxy", None) is not None and scheme != "https":
                h2, p2, s2 = m.proxy.host, m.proxy.port, m.proxy.scheme
            line = f"host {enc(h2)} {enc(s2)} {enc_val(p2, objs)} {enc_optctx(kw, objs)}"
            sett = None
            try:
                if h2:
                    sett = settings(m.connection_pool_kw, kw, h2, s2, p2)
            except Exception:
                sett = None
            return self.call(line, fn, sett)

        def ctx(self, c):
            m = self.m
            return self.call("ctx " + enc_ctx(c, self.objs), lambda: m.connection_from_context(dict(c)))

    def fail(self, res, case, sig, what, **detail):
        res.failures.append(Failure(signature=sig, what=what, case=case, detail=detail))

    def check_history(self, run, res, case):
        """the property on one manager: two successful requests share a pool iff their effective
        settings (property text, `settings`) are equal"""
        hist = [h for h in run.history if h[1] is not None]
        for (i, si, _), (j, sj, _) in itertools.combinations(hist, 2):
            try:
                eq = si == sj
            except Exception:
                continue
            if i == j and not eq:
                diff = sorted(k for k in set(si) | set(sj) if k not in si or k not in sj or si[k] != sj[k])
                self.fail(res, case, "shared-pool:" + ",".join(diff),
                          f"two requests whose settings differ in {diff} were served by the same pool")
            if i != j and eq:
                only_case_port = True
                self.fail(res, case, "split-pool:equal-settings",
                          "two requests with equal settings (up to scheme/host case, default port, dict order, "
                          "list-vs-tuple, None-vs-absent) got different pools")

    # ------------------------------------------------------------------ execute
    def execute(self, case, res):
        from urllib3.poolmanager import PoolManager, ProxyManager, PoolKey, _default_key_normalizer
        kind = case["kind"]
        res.bump("kind:" + kind)
        objs = Objs()
        lines, out = [], []
        log = []
        if kind == "onekw":
            kw, via, scheme = case["kw"], case["via"], case["scheme"]
            a, b = build(case["a"], objs), build(case["b"], objs)
            extra = build_ctx(case["extra"], objs)
            defaults = dict(extra)
            if via == "defaults":
                defaults[kw] = a
            m = self.make_manager(PoolManager, case["real"], defaults, log)
            run = self.Run(self, m, objs, log, res, case, lines, out)
            k1 = None if via == "defaults" else {kw: a}
            p1 = run.host("example.com", scheme, None, k1)
            p2 = run.host("example.com", scheme, None, {kw: b})
            p3 = run.host("EXAMPLE.com", scheme, 443 if scheme == "https" else 80, {kw: a})
            p4 = run.host("example.com", scheme, None, {kw: None})
            sa = settings({}, {kw: a}, "h", "http", None)
            sb = settings({}, {kw: b}, "h", "http", None)
            differ = sa != sb
            res.bump("onekw:" + ("rejected" if p1 is None and p2 is None else "keyed" if differ else "equivalent"))
            if (p1 is None) != (p2 is None):
                res.bump("onekw:one-side-rejected")
            if p1 is not None and p2 is not None and differ and p1 is p2:
                self.fail(res, case, "shared-pool:" + kw,
                          f"requests differing only in {kw!r} ({case['a']!r} vs {case['b']!r}, via {via}) were given the same pool")
            self.check_history(run, res, case)
            if case["real"] and p1 is not None:
                try:
                    p1._new_conn().close()
                    res.bump("conn-ctor:accepts")
                except TypeError:
                    res.bump("conn-ctor:TypeError")
        elif kind == "variants":
            defaults = build_ctx(case["defaults"], objs)
            kw = build_ctx(case["kw"], objs)
            m = self.make_manager(PoolManager, case["real"], defaults, log)
            run = self.Run(self, m, objs, log, res, case, lines, out)
            s, h1, h2, dp = case["scheme"], case["h1"], case["h2"], case["dport"]
            ps = [run.host(h1, s, dp, kw), run.host(h2, s, None, kw), run.host(h1, s.upper(), 0, kw),
                  run.host(None, None, None, kw, via_url=f"{s.upper()}://{h2}:{dp}/p?q"),
                  run.host(None, None, None, kw, via_url=f"{s}://{h1}/")]
            if all(p is None for p in ps):
                res.bump("variants:rejected")        # a default keyword the key constructor rejects
            elif any(p is None for p in ps) or any(p is not ps[0] for p in ps):
                self.fail(res, case, "split-pool:case-or-default-port",
                          "contexts equal up to scheme/host case and explicit-vs-default port did not share one pool",
                          pools=[None if p is None else run.pool_ids[id(p)] for p in ps])
            other = run.host(h1, s, dp + 1, kw)
            if other is not None and other is ps[0]:
                self.fail(res, case, "shared-pool:port", "a different port was given the same pool")
            self.check_history(run, res, case)
        elif kind in ("proxypair", "proxyover"):
            scheme = case["scheme"]

            def mk(spec):
                kwargs = {k: (build(v, objs) if isinstance(v, dict) and ("o" in v) else v) for k, v in spec.items()}
                url = kwargs.pop("proxy_url")
                lg = []
                m = self.make_manager(lambda **kw: ProxyManager(url, **kw), True, kwargs, lg)
                return m, lg
            if kind == "proxypair":
                keys = []
                for spec in (case["a"], case["b"]):
                    m, lg = mk(spec)
                    run = self.Run(self, m, objs, lg, res, case, lines, out)
                    p = run.host("example.com", scheme, None, None)
                    q = run.host("EXAMPLE.com", scheme, None, None)
                    if p is None and q is None:
                        res.bump("proxypair:rejected")       # the key constructor rejects the manager's own defaults
                        return lines, out
                    if p is None or p is not q:
                        self.fail(res, case, "split-pool:case-or-default-port", "ProxyManager: host case variants did not share a pool")
                        return lines, out
                    keys.append(list(m.pools.keys()))
                if len(keys[0]) != 1 or len(keys[1]) != 1 or keys[0][0] == keys[1][0]:
                    self.fail(res, case, "proxy-setting-not-keyed:" + case["kw"],
                              f"two ProxyManagers differing in {case['kw']!r} compute equal pool keys")
                # the two keys through the model as well
                lines.append("pair " + " ".join(self._key_ctx(k, objs) for k in (keys[0][0], keys[1][0])))
                out.append("same" if keys[0][0] == keys[1][0] else "different")
            else:
                m, lg = mk(case["base"])
                run = self.Run(self, m, objs, lg, res, case, lines, out)
                kw = case["kw"]
                a, b = build(case["a"], objs), build(case["b"], objs)
                p0 = run.host("example.com", scheme, None, None)
                p1 = run.host("example.com", scheme, None, {kw: a})
                p2 = run.host("example.com", scheme, None, {kw: b})
                p3 = run.host("example.com", scheme, None, {kw: a})
                if p1 is None and p2 is None:
                    res.bump("proxyover:rejected")
                elif p1 is None or p2 is None or p1 is p2 or p1 is not p3:
                    self.fail(res, case, "shared-pool:" + kw, f"ProxyManager: overriding {kw!r} with two values did not give two pools")
                self.check_history(run, res, case)
        elif kind == "rand":
            defaults = build_ctx(case["defaults"], objs)
            m = self.make_manager(PoolManager, False, defaults, log)
            run = self.Run(self, m, objs, log, res, case, lines, out)
            for rq in case["reqs"]:
                kw = build_ctx(rq.get("kw"), objs)
                if rq["op"] == "host":
                    run.host(rq["host"], rq["scheme"], rq["port"], kw)
                elif rq["op"] == "url":
                    run.host(None, None, None, kw, via_url=rq["url"])
                else:
                    run.ctx(build_ctx(rq["ctx"], objs))
            if not case["quirk"]:
                self.check_history(run, res, case)
        elif kind == "norm":
            c = build_ctx(case["ctx"], objs)
            lines.append("norm " + enc_ctx(c, objs))
            try:
                k = _default_key_normalizer(PoolKey, c)
                hash(k)
                out.append("key " + " ".join(enc_val(v, objs) for v in k))
                res.bump("norm:ok")
            except Exception as e:
                name = type(e).__name__
                if name not in EXC:
                    raise
                out.append(name)
                res.bump("norm:" + name)
        elif kind == "pair":
            a, b = build_ctx(case["a"], objs), build_ctx(case["b"], objs)
            lines.append("pair " + enc_ctx(a, objs) + " " + enc_ctx(b, objs))
            try:
                ka = _default_key_normalizer(PoolKey, a)
                kb = _default_key_normalizer(PoolKey, b)
                out.append("same" if ka == kb and hash(ka) == hash(kb) else "different")
            except Exception as e:
                name = type(e).__name__
                if name not in EXC:
                    raise
                out.append(name)
            res.bump("pair:" + out[-1])
        elif kind == "merge":
            d = build_ctx(case["defaults"], objs)
            kw = build_ctx(case["kw"], objs)
            m = PoolManager(**d)
            snap = enc_ctx(m.connection_pool_kw, objs)
            lines.append("merge " + enc_ctx(m.connection_pool_kw, objs) + " " + enc_optctx(kw, objs))
            r = m._merge_pool_kwargs(kw)
            out.append(enc_ctx(r, objs))
            if r is m.connection_pool_kw or enc_ctx(m.connection_pool_kw, objs) != snap:
                self.fail(res, case, "defaults-mutated", "_merge_pool_kwargs returned or changed connection_pool_kw itself")
        else:
            raise ValueError(kind)
        return lines, out

    @staticmethod
    def _key_ctx(key, objs):
        """a PoolKey back as a context (field names without the key_ prefix) for the `pair` line"""
        c = {}
        for f, v in zip(key._fields, key):
            if v is None:
                continue
            if isinstance(v, frozenset):
                v = dict(sorted(v))
            c[f[4:]] = v
        return enc_ctx(c, objs)

    def nontrivial(self, case, impl_out):
        news = sum(1 for o in impl_out if o.startswith("new "))
        if news >= 2:
            return True
        if case["kind"] in ("norm", "pair"):
            return len(case.get("ctx") or case.get("a")) >= 3
        return case["kind"] == "merge" and bool(case["kw"])

    def shrink_candidates(self, case):
        for f in ("reqs", "defaults", "extra", "ctx", "a", "b", "kw"):
            v = case.get(f)
            if isinstance(v, list) and v and isinstance(v[0], (list, dict)):
                for i in range(len(v)):
                    c = dict(case)
                    c[f] = v[:i] + v[i + 1:]
                    yield c
        if case.get("kind") == "rand":
            for i, rq in enumerate(case["reqs"]):
                kw = rq.get("kw")
                if kw:
                    for j in range(len(kw)):
                        c = dict(case)
                        c["reqs"] = [dict(x) for x in case["reqs"]]
                        c["reqs"][i]["kw"] = kw[:j] + kw[j + 1:]
                        yield c


PROP = C18()
