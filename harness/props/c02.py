"""C02 — concurrent requests never share a connection, exceed maxsize, or deadlock.

Implementation side: REAL threads running the real `HTTPConnectionPool.urlopen` / `close` /
`HTTPResponse.release_conn` over the in-memory network (`harness/net.py`), serialised by the
deterministic scheduler of `harness/sched.py` (scheduler-aware `QueueCls`, `sys.monitoring` LINE
events in `_get_conn`, `_put_conn`, `close`, `_close_pool_connections`, `release_conn`, one explicit
yield between writing a request and reading its response).  A case fixes a configuration (maxsize,
block, pool_timeout, thread programs) and an exploration (all schedules with <= k pre-emptions, plus
seeded random deep schedules, or one explicit schedule).

Correspondence (driver `poolconc`): the outcome vector of every explored schedule (per-thread result
classes, sockets open after the pool object was dropped, maximum number of simultaneously open
sockets) must be a member of the set the Lean model `U3.PoolConc` computes over ALL schedules of
the same configuration.

Oracle (implementation only, the property text): see `C02.judge`.
"""
from __future__ import annotations

import functools
import gc
import http.client
import itertools
import linecache
import os
import random
import weakref

from .. import core
from .. import sched as S
from ..core import Prop, Failure
from ..net import Net, Server, http_response

HOST, PORT = "pool.test", 80


def parse_op(op: str):
    """'r1O' -> ('r', 1, 'O'); 'l' -> ('l',); 'c' -> ('c',).  Last letter of a request: O = keep-alive reply,
    F = the last attempt fails, C = the reply carries `Connection: close` (the connection object goes back to
    the pool with its socket closed), D = keep-alive reply after which the peer closes the idle connection (pooled
    with the client's socket open, found dropped at its next checkout)."""
    if op in ("l", "c"):
        return (op,)
    return (op[0], int(op[1:-1]), op[-1])


class Run:
    """one system (pool + network + recorder) for one schedule"""

    def __init__(self, case, classes):
        self.case = case
        self.maxsize, self.block, self.timeout = case["maxsize"], case["block"], case["timeout"]
        self.progs = case["progs"]
        self.net = Net()
        self.attempts = {}
        self.scripts = {}
        for t, prog in enumerate(self.progs):
            for k, op in enumerate(prog):
                p = parse_op(op)
                if p[0] in "rs":
                    self.scripts[f"t{t}k{k}"] = (p[1], p[2])
        self.net.servers[(HOST, PORT)] = Server(self.handler)
        self.net.connect_hook = self.on_connect
        self.maxopen = 0
        self.violations = []          # (signature, what)
        self.results = [[] for _ in self.progs]
        self.tracebacks = {}
        self.classes = classes
        self.sched = None

    # ---- server: answers with the tag of the request it got; scripted failure = close without reply
    def handler(self, peer, req):
        tag = req.target.lstrip("/")
        n = self.attempts.get(tag, 0)
        self.attempts[tag] = n + 1
        fails, last = self.scripts.get(tag, (0, "O"))
        if n < fails or (n == fails and last == "F"):
            # how a scripted attempt fails.  "close": the peer closes (http.client closes the connection
            # itself before urlopen's cleanup runs); "silent": no reply (read timeout) and "garbage": a bad
            # status line leave the socket OPEN until urlopen's `finally` closes it — only then is the order
            # of "close the broken connection" and "hand the slot back" observable by another thread.
            kind = self.case.get("failkind", "close")
            if kind == "close":
                peer.close()
            elif kind == "garbage":
                peer.reply(b"\x16\x03\x01 not http\r\n\r\n")
            return
        body = f"{tag}#{n}".encode()
        if last == "C":
            # `Connection: close`: http.client closes the connection's socket (`getresponse`: will_close), the
            # socket object lives on inside the response until the body has been read; the peer closes too
            peer.reply(http_response(200, [("X-Tag", tag), ("Connection", "close")], body))
            peer.close()
            return
        peer.reply(http_response(200, [("X-Tag", tag)], body))
        if last == "D":
            # keep-alive reply, then the PEER closes the idle connection: the client pools it with its socket
            # open; the next checkout finds it dropped (`is_connection_dropped`) and closes it before reconnecting
            peer.close()

    def on_connect(self, sock, host, port):
        self.maxopen = max(self.maxopen, len(self.net.open_sockets()))

    # ---- recorder used by the traced connection class
    def enter_use(self, conn, url):
        w = self.sched.current_worker() if self.sched else None
        me = (w.idx if w else None, url)
        if conn._u3_user is not None and conn._u3_user != me:
            self.violations.append(("shared-connection",
                                    f"request {me} starts on a connection still in use by {conn._u3_user}"))
        conn._u3_user = me

    def exit_use(self, conn):
        conn._u3_user = None

    def use_yield(self):
        if self.sched is not None:
            self.sched.yield_point(("U", "sent"))

    # ---- thread programs
    def worker(self, t):
        from urllib3.exceptions import (ClosedPoolError, EmptyPoolError, FullPoolError, MaxRetryError)
        from urllib3.util.retry import Retry
        pool = self.pool
        resp = None
        resp_tag = None
        resp_closing = False
        for k, op in enumerate(self.progs[t]):
            p = parse_op(op)
            try:
                if p[0] in "rs":
                    tag = f"t{t}k{k}"
                    r = pool.urlopen("GET", "/" + tag, retries=Retry(total=p[1], backoff_factor=0),
                                     preload_content=(p[0] == "r"),
                                     pool_timeout=(0.05 if self.timeout else None))
                    want = f"{tag}#{p[1]}".encode()
                    if p[0] == "r":
                        res = "ok" if (r.status == 200 and r.data == want) else "wrong"
                        if res == "wrong":
                            self.violations.append(("wrong-response", f"request {tag} got body {r.data!r}"))
                    else:
                        resp, resp_tag, resp_closing = r, want, p[2] == "C"
                        res = "ok" if (r.status == 200 and r.headers.get("X-Tag") == tag) else "wrong"
                        if res == "wrong":
                            self.violations.append(("wrong-response", f"request {tag} got headers of {r.headers.get('X-Tag')!r}"))
                elif p[0] == "l":
                    res = "ok"
                    if resp is not None:
                        r, resp = resp, None
                        if resp_closing and self.sched is not None:
                            # reading a `Connection: close` body to its end closes the socket (a step of its
                            # own in the model, before `release_conn` touches the pool)
                            self.sched.yield_point(("U", "read"))
                        data = r.read()            # reaching EOF releases the connection …
                        r.release_conn()           # … so this second release must do nothing
                        if data != resp_tag:
                            res = "wrong"
                            self.violations.append(("wrong-response", f"streamed body {data!r}, expected {resp_tag!r}"))
                else:
                    pool.close()
                    res = "ok"
            except ClosedPoolError:
                res = "closed"
            except EmptyPoolError:
                res = "empty"
            except FullPoolError:
                res = "full"
            except MaxRetryError:
                res = "failed"
            except S.Abort:
                raise
            except Exception as e:                 # noqa: BLE001 — the internal-error class of the property
                res = "internal"
                self.tracebacks[(t, k)] = classify_exc(e)
            self.results[t].append(res)

    def execute(self, chooser):
        Pool = self.classes["Pool"]
        self.sched = S.Scheduler(chooser)
        with self.net.installed(fake_tls=False):
            self.pool = Pool(HOST, PORT, maxsize=self.maxsize, block=self.block)
            H.run = self
            try:
                for t in range(len(self.progs)):
                    self.sched.spawn(functools.partial(self.worker, t))
                self.sched.run()
            finally:
                H.run = None
            self.pool_closed = self.pool.pool is None
            self.final_qsize = None if self.pool_closed else self.pool.pool.qsize()
            for w in self.sched.workers:
                if w.error is not None:
                    raise S.SchedError(f"worker {w.idx} died: {w.error!r}")
            # drop the pool object (weakref.finalize drains what is still queued), then census
            ref = weakref.ref(self.pool)
            self.pool = None
            for w in self.sched.workers:
                w.fn = None
            gc.collect()
            self.pool_collected = ref() is None
            self.open_after_drop = len(self.net.open_sockets())
        return self.sched

    def vector(self):
        ts = []
        for t, prog in enumerate(self.progs):
            r = list(self.results[t])
            if len(r) < len(prog):
                r += ["hang"] + ["-"] * (len(prog) - len(r) - 1)
            ts.append(",".join(r) if r else ".")
        return "/".join(ts) + f":{self.open_after_drop}:{self.maxopen}"


class _H:
    run = None


H = _H()


def classify_exc(e):
    """(class name, innermost urllib3 function, its source line) of an escaped exception"""
    import urllib3
    root = os.path.dirname(os.path.realpath(urllib3.__file__))
    tb = e.__traceback__
    where = ("?", "")
    while tb is not None:
        fn = os.path.realpath(tb.tb_frame.f_code.co_filename)
        if fn.startswith(root):
            where = (tb.tb_frame.f_code.co_name, (linecache.getline(fn, tb.tb_lineno) or "").strip())
        tb = tb.tb_next
    return f"{type(e).__name__}@{where[0]}:{where[1]}"


def build_classes():
    from urllib3.connection import HTTPConnection
    from urllib3.connectionpool import HTTPConnectionPool

    class TracedRaw(http.client.HTTPResponse):
        def __init__(self, *a, owner=None, **kw):
            self._u3_owner = owner
            super().__init__(*a, **kw)

        def _close_conn(self):
            r = H.run
            if r is not None and self._u3_owner is not None:
                r.exit_use(self._u3_owner)
            super()._close_conn()

    class TracedConn(HTTPConnection):
        def __init__(self, *a, **kw):
            super().__init__(*a, **kw)
            self._u3_user = None
            self.response_class = functools.partial(TracedRaw, owner=self)

        def request(self, method, url, *a, **kw):
            r = H.run
            if r is not None:
                r.enter_use(self, url)
            super().request(method, url, *a, **kw)
            if r is not None:
                r.use_yield()

        def close(self):
            r = H.run
            if r is not None:
                r.exit_use(self)
            super().close()

    class Pool(HTTPConnectionPool):
        QueueCls = S.SchedLifoQueue
        ConnectionCls = TracedConn

    return {"Pool": Pool, "TracedConn": TracedConn}


# ------------------------------------------------------------------------------------- generation

REQ_KINDS = [["r0O"], ["r1O"], ["r0F"], ["s0O", "l"], ["s1O", "l"], ["r1F"], ["s0O", "l", "l"]]
# replies with `Connection: close`: the connection object is pooled with its socket closed;
# `…D`: keep-alive reply, then the peer closes the idle connection (pooled open, dropped at its next checkout)
CLOSE_KINDS = [["r0C"], ["s0C", "l"], ["r1C"], ["r0D"], ["s0D", "l"]]


def lease_discipline(prog):
    """`disc false prog` of the Lean model: every streamed response is released before the thread's next
    request and before the thread ends; no close()"""
    held = False
    for op in prog:
        if op == "c":
            return False
        if op == "l":
            held = False
        else:
            if held:
                return False
            held = op[0] == "s"
    return not held


def thread_progs(nreq):
    """all thread programs with exactly nreq requests over REQ_KINDS[:5] + r0C, s0C+l, r0D"""
    out = []
    for combo in itertools.product(REQ_KINDS[:5] + CLOSE_KINDS[:2] + CLOSE_KINDS[3:4], repeat=nreq):
        out.append([op for part in combo for op in part])
    return out


def conf_line(case):
    progs = " ".join(",".join(p) if p else "-" for p in case["progs"])
    return f"conf {case['maxsize']} {int(case['block'])} {int(case['timeout'])} {progs}"


class C02(Prop):
    id = "C02"
    case_watchdog = None          # this property manages time itself (per-string alarms / schedule exploration)
    model = "poolconc"
    rule = ("configurations: maxsize in {1,2} x (block=False | block=True without pool_timeout | block=True with "
            "pool_timeout) x 2-3 request threads each doing 1-2 requests (preloaded or streamed+released, scripts "
            "ok / fail-then-ok / fail; 3-thread configurations with at most 1 (quick) / 2 (thorough) retried "
            "requests) x optional closer thread; per configuration all schedules with <= 1 (quick) "
            "/ <= 2 (thorough) pre-emptions over the statement-level yield points of the pool code plus seeded "
            "random deep schedules, run with real threads under harness/sched.py; each schedule's outcome vector "
            "(per-op result class, sockets open after the pool was dropped, max simultaneously open sockets) must "
            "belong to the Lean model's outcome set over ALL schedules, and the property-text oracle is evaluated "
            "on every schedule. non-trivial = the exploration reached at least two distinct outcome vectors or a "
            "schedule with a pre-emption")
    assumptions = ["queue.LifoQueue operations are atomic (its own mutex); the scheduler-aware QueueCls delegates "
                   "every operation to the real class and only replaces blocking by parking",
                   "pre-emption happens at statement boundaries of _get_conn/_put_conn/close/_close_pool_connections/"
                   "release_conn, at queue-method entry and between sending a request and reading its response; "
                   "pre-emption inside one statement (between bytecodes) is not explored",
                   "time is not modelled: a pool_timeout may fire whenever the waiter is scheduled and the queue is "
                   "still empty"]
    trusted = ["CPython threading / GIL, queue.LifoQueue internals, weakref.finalize and reference counting",
               "harness/sched.py (deterministic scheduler) and harness/net.py (in-memory network)"]
    time_budget = {"quick": 170, "thorough": 1500}
    batch = 400

    def run_shard(self, seed, tier, escalate, shard, nshards, deadline):
        # all threads of one shard on one CPU: a hand-off is then a plain context switch (2-3x faster)
        try:
            cpus = sorted(os.sched_getaffinity(0))
            os.sched_setaffinity(0, {cpus[shard % len(cpus)]})
        except (AttributeError, OSError):
            pass
        return super().run_shard(seed, tier, escalate, shard, nshards, deadline)

    def setup_worker(self):
        import logging
        from urllib3.connectionpool import HTTPConnectionPool
        from urllib3 import connectionpool
        from urllib3.response import HTTPResponse
        logging.getLogger("urllib3").setLevel(logging.CRITICAL)
        self.classes = build_classes()
        S.watch_code(HTTPConnectionPool._get_conn.__code__, HTTPConnectionPool._put_conn.__code__,
                     HTTPConnectionPool.close.__code__, connectionpool._close_pool_connections.__code__,
                     HTTPResponse.release_conn.__code__)
        gc.collect()
        gc.freeze()

    # ------------------------------------------------------------ cases
    def cases(self, rng, tier, escalate=False):
        deep = tier == "thorough" or escalate
        modes = [(False, False), (True, False), (True, True)]
        one = thread_progs(1)
        two = thread_progs(2)
        confs = []
        # 2 threads x 1 request, all combinations, with and without closer
        for a, b in itertools.combinations_with_replacement(one, 2):
            for closer in (False, True):
                confs.append(([a, b] + ([["c"]] if closer else []), "2x1"))
        # 2 threads, one of them doing 2 requests
        pool2 = [(a, b) for a in two for b in one]
        rng.shuffle(pool2)
        for a, b in pool2[: (60 if deep else 14)]:
            for closer in (False, True):
                confs.append(([a, b] + ([["c"]] if closer else []), "2x2"))
        pool22 = [(a, b) for a in two for b in two]
        rng.shuffle(pool22)
        for a, b in pool22[: (30 if deep else 5)]:
            confs.append(([a, b] + ([["c"]] if rng.random() < 0.5 else []), "2x2"))
        # 3 threads x 1 request.  The model side explores ALL schedules of the configuration; with three
        # threads every retried request multiplies the state space (two retried requests + closer: ~7e6
        # configurations, 60-80 s, 2 GB; three: > 10 min and > 15 GB), so the number of retried requests per
        # 3-thread configuration is capped at 1 (quick) / 2 (thorough).  The theorems cover all programs.
        def retried(prog):
            return sum(1 for op in prog if op[0] in "rs" and parse_op(op)[1] > 0)
        cap3 = 2 if deep else 1
        pool3 = [c for c in itertools.combinations_with_replacement(one, 3)
                 if sum(retried(p) for p in c) <= cap3]
        rng.shuffle(pool3)
        for a, b, c in pool3[: (24 if deep else 6)]:
            for closer in (False, True):
                confs.append(([a, b, c] + ([["c"]] if closer else []), "3x1"))
        # extras: MaxRetryError after a retry, explicit double release, closer first in thread order
        extras = [[["r1F"], ["r0O"], ["c"]], [["s0O", "l", "l"], ["r0O"], ["c"]], [["c"], ["r0O"], ["r1O"]],
                  [["r1F"], ["s1O", "l"]], [["r0O", "c"], ["r0O"]], [["s0O", "c", "l"], ["r0O"]]]
        # a connection object pooled CLOSED (`Connection: close`) lying on top of a live one, then checked out
        # again: the dropped-connection branch of `_get_conn` with other items below it in the queue
        extras += [[["r0C", "r0O"], ["r0O", "r0O"]], [["r0C"], ["r0O"], ["r0O"]],
                   [["s0C", "l", "r0O"], ["r0O", "r0O"]], [["r0C", "r0C"], ["r0C", "r0O"]],
                   [["r1C"], ["r0O", "r0O"]], [["r0C", "r0O"], ["s0O", "l"], ["c"]]]
        # the same with a connection whose PEER closed it while idle (pooled open, found dropped at checkout)
        extras += [[["r0D", "r0O"], ["r0O", "r0O"]], [["s0D", "l", "r0O"], ["r0O", "r0O"]],
                   [["r0D"], ["r0C"], ["r0O"]], [["r0D", "r0O"], ["s0D", "l"], ["c"]]]
        for p in extras:
            confs.append((p, "extra"))
        for progs, shape in confs:
            for maxsize in (1, 2):
                for block, timeout in modes:
                    nthreads = len(progs)
                    bound = 1
                    if deep and nthreads <= 3 and shape in ("2x1", "extra"):
                        bound = 2
                    nfail = sum(1 for prog in progs for op in prog if op[0] in "rs" and (parse_op(op)[1] > 0 or op[-1] == "F"))
                    yield {"maxsize": maxsize, "block": block, "timeout": timeout, "progs": progs, "shape": shape,
                           "failkind": rng.choice(["close", "silent", "garbage"]) if nfail else "close",
                           "explore": {"kind": "mix", "bound": bound, "limit": 6000 if deep else 700,
                                       "rand": (40 if deep else 6), "seed": rng.randrange(1 << 30)}}

    # ------------------------------------------------------------ one schedule
    def run_one(self, case, chooser):
        r = Run(case, self.classes)
        s = r.execute(chooser)
        return r, s

    def judge(self, case, r, s):
        """the property text, on the implementation's behaviour in one schedule -> [(signature, what)]"""
        out = list(r.violations)                   # shared-connection / wrong-response, recorded on the fly
        has_closer = any("c" in p for p in r.progs)
        disciplined = (not has_closer) and all(lease_discipline(p) for p in r.progs)
        requesters = sum(1 for p in r.progs if any(op[0] in "rs" for op in p))
        if r.block and r.maxopen > r.maxsize:
            out.append(("block-bound-exceeded", f"block=True maxsize={r.maxsize} but {r.maxopen} sockets open at once"))
        if s.deadlock is not None:
            labels = sorted({lab for _, lab in s.deadlock})
            if (r.block and not r.timeout and r.pool_closed and labels == [("Q", "wait")]):
                out.append(("hang:block-no-timeout-waiter-stranded-by-close",
                            "a thread blocked in pool.get() of a block=True pool without pool_timeout is never "
                            "woken after a concurrent close(): the request hangs for ever"))
            else:
                out.append(("deadlock:" + "+".join("/".join(map(str, l)) for l in labels),
                            f"all live threads blocked: {s.deadlock}"))
        for t, prog in enumerate(r.progs):
            for k, res in enumerate(r.results[t]):
                p = parse_op(prog[k])
                if res == "internal":
                    cls = r.tracebacks.get((t, k), "?")
                    out.append(("internal-error:" + cls, f"op {prog[k]} of thread {t} raised {cls}"))
                elif res == "full":
                    out.append(("full-pool-error", f"op {prog[k]} of thread {t} raised FullPoolError"))
                elif res == "wrong":
                    pass                            # already recorded
                elif p[0] in "rs":
                    ok = ((res == "ok" and p[2] in "OCD") or (res == "failed" and p[2] == "F")
                          or (res == "closed" and has_closer) or (res == "empty" and r.block and r.timeout))
                    if res == "empty" and ok and disciplined and requesters <= r.maxsize:
                        # every thread holds at most one slot at a time and there are no more requesting
                        # threads than slots: a pool that conserves its slots is never found empty
                        out.append(("lost-slot:empty-pool-error-with-free-slot",
                                    f"request {prog[k]} of thread {t}: EmptyPoolError although only {requesters} "
                                    f"thread(s) share {r.maxsize} slot(s), each holding at most one at a time"))
                    elif not ok:
                        out.append(("unexpected-result:" + res, f"request {prog[k]} of thread {t} ended with {res}"))
                elif res != "ok":
                    out.append(("unexpected-result:" + res, f"op {prog[k]} of thread {t} ended with {res}"))
        complete = s.deadlock is None and all(len(r.results[t]) == len(p) for t, p in enumerate(r.progs))
        if (r.block and disciplined and complete and r.final_qsize is not None
                and r.final_qsize != r.maxsize
                and not any(res == "full" for rs in r.results for res in rs)):
            # "no lost slot": every thread is finished, every streamed response released, nobody closed the
            # pool — all maxsize slots are back in the queue (Lean: C02_quiescent_slots)
            out.append(("lost-slot:quiescent-qsize",
                        f"block=True maxsize={r.maxsize}: all threads finished and released everything, but the "
                        f"pool's queue holds {r.final_qsize} item(s)"))
        if r.open_after_drop:
            out.append(("socket-open-after-drop", f"{r.open_after_drop} socket(s) still open after the pool object was dropped"))
        return out

    def single(self, case, schedule):
        c = {k: v for k, v in case.items() if k != "explore"}
        c["explore"] = {"kind": "one", "schedule": list(schedule)}
        return c

    def explore(self, case, on_run):
        ex = case["explore"]

        def once(chooser):
            r, s = self.run_one(case, chooser)
            on_run(r, s)
            return s.decisions

        if ex["kind"] == "one":
            once(S.PrefixChooser(ex["schedule"]))
            return
        n, cut = S.explore_pb(once, ex.get("bound", 1), ex.get("limit"))
        self._cut = cut
        for i in range(ex.get("rand", 0)):
            once(S.RandomChooser(random.Random(f"{ex.get('seed', 0)}/{i}"), p=(0.15, 0.3, 0.5)[i % 3]))

    def execute(self, case, res):
        vectors = {}
        fails = {}
        stats = {"runs": 0, "pre": 0, "maxdec": 0}
        self._cut = False

        def on_run(r, s):
            stats["runs"] += 1
            stats["pre"] = max(stats["pre"], s.preemptions())
            stats["maxdec"] = max(stats["maxdec"], len(s.decisions))
            sched = [d[2] for d in s.decisions]
            if not r.pool_collected:
                res.bump("pool-object-not-collected")
            v = r.vector()
            if v not in vectors:
                vectors[v] = sched
            for sig, what in self.judge(case, r, s):
                if sig not in fails:
                    fails[sig] = Failure(signature=sig, what=what, case=self.single(case, sched),
                                         detail={"vector": v})

        self.explore(case, on_run)
        res.failures.extend(fails.values())
        res.bump("schedules", stats["runs"])
        res.bump(f"conf:{case.get('shape', '?')}:m{case['maxsize']}:b{int(case['block'])}:t{int(case['timeout'])}")
        for v in vectors:
            for tok in set(v.split(":")[0].replace("/", ",").split(",")):
                res.bump("result:" + tok)
        if self._cut:
            res.bump("pb-exploration-cut-at-limit")
        self._last = (len(vectors), stats)
        lines = [conf_line(case)] + [f"mem {v}" for v in sorted(vectors)]
        out = ["ok"] + ["1"] * len(vectors)
        if case["explore"]["kind"] == "mix" and case["explore"].get("coverage", True) and os.path.exists(core.BIN):
            try:
                mo = core.run_model("poolconc", [conf_line(case), "outcomes"], tag=f"cov{os.getpid()}")[1].split("|")
                res.bump("coverage:model-outcomes", len(mo))
                res.bump("coverage:model-outcomes-observed", len([m for m in mo if m in vectors]))
            except Exception:
                res.bump("coverage:model-query-failed")
        return lines, out

    def nontrivial(self, case, impl_out):
        nv, stats = getattr(self, "_last", (0, {"pre": 0}))
        return nv >= 2 or stats["pre"] >= 1

    def shrink_candidates(self, case):
        ex = case["explore"]
        if ex["kind"] != "one":
            seen = {}

            def on_run(r, s):
                seen.setdefault(r.vector(), [d[2] for d in s.decisions])

            self.explore(case, on_run)
            for v in sorted(seen):
                yield self.single(case, seen[v])
            return
        sched = ex["schedule"]
        # shorter schedule prefixes (the tail is then run without pre-emption)
        for n in range(len(sched)):
            c = self.single(case, sched[:n])
            yield c


PROP = C02()
