"""C03 — a response only ever contains bytes sent in reply to its own request.

Sequences of 2-4 requests over one pool; every reply body embeds the id of the request (and of the
attempt) it answers.  Per response the server picks a behaviour (Content-Length / chunked / until-close
framing, keep-alive or close, stray bytes after the body or after a body-less HEAD / 1xx / 204 / 304
reply, early EOF, silence, a tail of the reply — rest of the body, of the chunk framing, of the trailer
section, stray bytes — held back and delivered late, when the next request arrives on that connection),
the caller picks how it leaves the response (read all / read k / read k then release / release unread /
drain / close / stream / never touch it), over pool sizes and network segmentations.

Correspondence: the same histories run on `U3.Pool.step` (driver `pool`, shared with C01): trace,
queue, result class and every delivered byte are compared — chunked replies (urllib3's `read_chunked`
and `http.client`'s `_read_chunked`, both modelled) and late delivery included.
Oracle (implementation only): every delivered body is a prefix of the body sent for that very
request; a request that reaches the server on a connection that was not clean at that moment
(unread or unsolicited bytes / EOF pending, previous reply cut short or `Connection: close`) never
produces a response; the server only ever receives the request head of the call that is running (a request
that was rejected on the client side between `putrequest()` and `endheaders()` never reaches it, neither alone nor
in front of a later request).
"""
from __future__ import annotations

import gc

from ..core import Prop
from . import c01
from .c01 import att, hd

BEHAVIOURS = {
    "cl": lambda rng: att(head=hd(), body=rng.choice([5, 40])),
    "close": lambda rng: att(head=hd(close=True), body=rng.choice([5, 40]), after="fin"),
    "untilclose": lambda rng: att(head=hd(cl=None), body=rng.choice([5, 40]), after="fin"),
    "stray": lambda rng: att(head=hd(), body=5, stray=rng.choice([3, 30])),
    "204stray": lambda rng: att(head=hd(204, cl=None), stray=rng.choice([3, 30])),
    "304stray": lambda rng: att(head=hd(304, cl=None), stray=rng.choice([3, 30])),
    "103stray": lambda rng: att(head=hd(103, cl=None), stray=rng.choice([20, 45])),
    "early-eof": lambda rng: att(head=hd(cl=9), body=3, after="fin"),
    "early-silent": lambda rng: att(head=hd(cl=9), body=3),
    "eof": lambda rng: att(after="fin"),
    "reset-mid": lambda rng: att(head=hd(cl=9), body=3, after="reset"),
}


def _sizes(rng, total):
    out = []
    while total > 0:
        n = min(total, rng.randint(1, 15))
        out.append(n)
        total -= n
    return out


def _chunked(rng, trailers=None, **kw):
    body = rng.choice([5, 23, 40])
    if trailers is None:
        trailers = [rng.choice([4, 9, 17]) for _ in range(rng.randint(0, 3))]
    return att(head=hd(cl=None, close=kw.pop("close", False)), body=body, chunks=_sizes(rng, body), trailers=trailers, **kw)


def wire_len(a):
    """number of bytes after the head of the reply scripted by `a` (without the stray bytes)"""
    if a.get("chunks") is None:
        return a["body"]
    return len(c01.chunked_wire(a, b"x" * a["body"]))


def trailer_len(a):
    return sum(len(t) + 2 for t in c01.trailer_lines(a)) + 2


def size_line_spans(a):
    """[start, end) of every chunk-size line (the last-chunk line included) in the bytes after the head"""
    if a.get("chunks") is None:
        return []
    spans, pos, left = [], 0, a["body"]
    for n in a["chunks"]:
        if n <= 0 or left <= 0:
            continue
        n = min(n, left)
        spans.append((pos, pos + len("%x" % n) + 2))
        pos += len("%x" % n) + 2 + n + 2
        left -= n
    if left > 0:
        spans.append((pos, pos + len("%x" % left) + 2))
        pos += len("%x" % left) + 2 + left + 2
    spans.append((pos, pos + 3))
    return spans


def _hold_inside(rng, a, lo=1, hi=None):
    """hold back a tail that starts strictly inside the framed message (so that the part sent at once is an
    incomplete message) and reaches to the end of everything sent, stray bytes included.  A server that closes
    the connection does not do so in the middle of a chunk-size line (framing lines are atomic in the model, like
    heads): the cut then moves to the start of that line"""
    n = wire_len(a)
    hi = n if hi is None else min(hi, n)
    k = rng.randint(min(lo, hi), hi)
    if a["after"] == "fin":
        for st, en in size_line_spans(a):
            if st < n - k < en:
                k = n - st
    a["hold"] = a["stray"] + k
    return a


def _hold_trailer(rng, a):
    """the last-chunk line and at least the first line of the trailer section go out at once, the rest of the
    trailer section (at least its last byte) is held back"""
    first = len(c01.trailer_lines(a)[0]) + 2
    return _hold_inside(rng, a, 1, trailer_len(a) - first)


# server behaviours with chunked framing and / or delayed delivery of a tail of the reply
EXT_BEHAVIOURS = {
    "chunked": lambda rng: _chunked(rng),
    "chunked-close": lambda rng: _chunked(rng, close=True, after="fin"),
    "chunked-stray": lambda rng: _chunked(rng, stray=rng.choice([3, 30])),
    "chunked-hold": lambda rng: _hold_inside(rng, _chunked(rng, stray=rng.choice([0, 0, 7]))),
    "chunked-hold-eof": lambda rng: _hold_inside(rng, _chunked(rng, after="fin")),
    "chunked-hold-trailer": lambda rng: _hold_trailer(rng, _chunked(rng, trailers=[rng.choice([4, 9]) for _ in range(rng.randint(1, 3))],
                                                                 stray=rng.choice([0, 0, 7]))),
    "cl-hold": lambda rng: _hold_inside(rng, att(head=hd(), body=rng.choice([5, 40]), stray=rng.choice([0, 0, 7]))),
    "untilclose-hold": lambda rng: _hold_inside(rng, att(head=hd(cl=None), body=rng.choice([5, 40]))),
}
# ... whose held-back tail reads as an HTTP response (trailer smuggling): only in histories without early release
SMUGGLE_BEHAVIOURS = {
    "chunked-smuggle": lambda rng: dict(_chunked(rng, trailers=[rng.choice([4, 9]), 15, 17], smuggle=True, stray=6),
                                        hold=6 + 2 + 19 + 17),
}
ALL_BEHAVIOURS = dict(BEHAVIOURS, **EXT_BEHAVIOURS, **SMUGGLE_BEHAVIOURS)
EARLY = ("release", "readkrel")

HEAD_BEHAVIOURS = {
    "head-cl": lambda rng: att(head=hd(cl=5)),
    "head-cl-stray": lambda rng: att(head=hd(cl=5), stray=rng.choice([5, 30])),
    "head-close": lambda rng: att(head=hd(cl=5, close=True), after="fin"),
}
CALLER = [["readall"], ["readkrel", 2], ["readkrel", 7], ["release"], ["drain"], ["close"], ["stream", 3], ["stream", 7],
          ["readk", 2], None]


class C03(Prop):
    id = "C03"
    model = "pool"
    rule = ("sequences of 2-4 requests (GET / HEAD / POST, preloaded or streamed, retries=2) on one pool of size 1-2; "
            "per response one server behaviour of {Content-Length keep-alive, Connection: close, read-until-close, "
            "stray bytes after the body, stray bytes after 204 / 304 / 103 / HEAD, early EOF, silence after a short "
            "body, EOF, reset mid-body, chunked (chunk sizes 1-15, 0-3 trailer fields) keep-alive / close / with stray "
            "bytes, a tail of the reply held back and delivered when the next request arrives: inside a chunked "
            "message / inside its trailer section / with EOF / inside a Content-Length or until-close body, trailer "
            "smuggling (the held tail is a complete HTTP response)} with its own body <r<id>a<attempt>>..., "
            "segmentation in {none,1,7,16} bytes per recv; per response one caller behaviour of {read all, read k + "
            "release, release unread, drain, close, stream, partial read, untouched}; requests rejected on the client side "
            "after the checkout (header value that cannot be encoded: nothing sent, no response) between ordinary "
            "requests, cold and warm pools (family `rejected`, and 5 % of the sampled requests). non-trivial = some connection is "
            "reused or discarded as dirty")
    assumptions = ["bytes arrive when the server sends them, or (held-back tail) when the next request arrives on that "
                   "connection; a tail is only held back from inside the framed message (bytes arriving late after a "
                   "complete message are indistinguishable from the next reply: HTTP/1.1, not urllib3)",
                   "a held-back tail that reads as a complete HTTP response (trailer smuggling) is generated only in "
                   "histories without early release: with early release the known finding hands it to the next caller",
                   "framing lines are atomic (as heads are): a server does not close the connection in the middle of a "
                   "chunk-size line; chunk sizes are below 16 (one hex digit)",
                   "bodies shorter than 8192 bytes (one BufferedReader buffer)",
                   "a caller does not go on reading a response after releasing it"]
    trusted = ["http.client (response framing, __response bookkeeping) and io.BufferedReader read-ahead: modelled, validated "
               "by this correspondence", "the kernel's poll() on a socketpair as the checkout probe"]
    time_budget = {"quick": 90, "thorough": 1000}

    def gen_case(self, rng, deep):
        cfg = dict(maxsize=rng.choice([1, 1, 2]), block=rng.random() < 0.3, proxy="none" if rng.random() < 0.8 else "forward")
        n = rng.randint(2, 4)
        seg = rng.choice([0, 0, 1, 7, 16])
        ops, live = [], []
        # a third of the histories stay within the plain alphabet; a sixth may contain trailer smuggling and then
        # has no early release (with early release the known finding would hand the smuggled reply to the caller)
        mode = rng.choice(["plain", "plain", "ext", "ext", "ext", "smuggle"])
        plain = {"plain": BEHAVIOURS, "ext": dict(BEHAVIOURS, **EXT_BEHAVIOURS), "smuggle": ALL_BEHAVIOURS}[mode]
        callers = [c for c in CALLER if c is None or c[0] not in EARLY] if mode == "smuggle" else CALLER
        rejected = False
        for rid in range(n):
            method = rng.choice(["GET", "GET", "GET", "HEAD", "POST"])
            table = HEAD_BEHAVIOURS if method == "HEAD" else plain
            script = []
            for j in range(3):
                name = rng.choice(list(table)) if (j == 0 or rng.random() < 0.4) else ("head-cl" if method == "HEAD" else "cl")
                a = dict(table[name](rng))
                a["seg"] = seg
                script.append(a)
            preload = rng.random() < 0.25
            release = None if rng.random() < 0.85 else rng.random() < 0.5
            if mode == "smuggle" and release and not preload:
                release = None
            ops.append(dict(op="req", method=method, script=script, retries=2, preload=preload, release=release))
            if rng.random() < 0.05:
                # rejected on the client side between putrequest() and endheaders(): no response, nothing on the wire
                ops[-1]["badheader"] = True
                rejected = True
                continue
            if not preload:
                live.append(rid)
            while live and rng.random() < 0.75:
                r = live.pop(rng.randrange(len(live)))
                how = rng.choice(callers)
                if how is not None:
                    ops.append(dict(op="disp", rid=r, how=how))
        for r in live:
            how = rng.choice(callers)
            if how is not None:
                ops.append(dict(op="disp", rid=r, how=how))
        if rejected:
            # a rejected request is always followed by a benign one on the same pool
            ops.append(dict(op="req", script=["ok", "ok", "ok"], retries=2, preload=False, release=None))
            ops.append(dict(op="disp", rid=n, how=["readall"]))
        return {"cfg": cfg, "ops": ops, "kind": "hist%d%s%s" % (n, "" if mode == "plain" else "-" + mode,
                                                                  "-rejected" if rejected else "")}

    def cases(self, rng, tier, escalate=False):
        deep = tier == "thorough" or escalate
        # a request rejected on the client side after its checkout (a header value that cannot be encoded: nothing is
        # sent, no response) between ordinary requests on the same pool: cold / warm pool x pool size x retry budget x
        # preloaded / streamed followers
        for msize in (1, 2):
            for block in (False, True):
                for warm in (0, 1, 2):
                    for retries in (False, 2):
                        for preload in (False, True):
                            for proxy in ("none", "forward"):
                                ops, rid = [], 0
                                for _ in range(warm):
                                    ops.append(dict(op="req", script=["ok", "ok", "ok"], retries=2, preload=preload, release=None))
                                    if not preload:
                                        ops.append(dict(op="disp", rid=rid, how=["readall"]))
                                    rid += 1
                                ops.append(dict(op="req", script=["ok", "ok", "ok"], retries=retries, preload=preload,
                                                release=None, badheader=True))
                                rid += 1
                                for _ in range(2):
                                    ops.append(dict(op="req", script=["ok", "ok", "ok"], retries=2, preload=preload, release=None))
                                    if not preload:
                                        ops.append(dict(op="disp", rid=rid, how=["readall"]))
                                    rid += 1
                                yield {"cfg": dict(maxsize=msize, block=block, proxy=proxy), "ops": ops, "kind": "rejected"}
        # the pairing "how the previous response was left" x "what the server still had in flight", exhaustively
        for seg in (0, 7):
            for first in ALL_BEHAVIOURS:
                for how in CALLER:
                    if first in SMUGGLE_BEHAVIOURS and how is not None and how[0] in EARLY:
                        continue
                    for msize in (1, 2):
                        a = dict(ALL_BEHAVIOURS[first](rng))
                        a["seg"] = seg
                        ops = [dict(op="req", script=[a, "ok", "ok"], retries=2, preload=False, release=None)]
                        if how is not None:
                            ops.append(dict(op="disp", rid=0, how=how))
                        ops.append(dict(op="req", script=["ok", "ok", "ok"], retries=2, preload=False, release=None))
                        ops.append(dict(op="disp", rid=1, how=["readall"]))
                        yield {"cfg": dict(maxsize=msize, block=False, proxy="none"), "ops": ops, "kind": "pair"}
        for _ in range(120000 if deep else 6000):
            yield self.gen_case(rng, deep)

    def setup_worker(self):
        gc.collect()
        gc.freeze()

    def execute(self, case, res):
        res.bump("kind:" + case.get("kind", "?"))
        for op in case["ops"]:
            if op["op"] == "disp":
                res.bump("caller:" + op["how"][0])
        lines, out, w = c01.run_history(case, res, check_c01=False, check_c03=True, pid="C03")
        if w.dirty:
            res.bump("dirty_connection_seen")
        return lines, out

    def nontrivial(self, case, impl_out):
        # some connection reused (a send without a connect in the same op) or discarded at checkout
        for o in impl_out:
            t = o.split(" ")[0]
            if "send:" in t and ("connect:" not in t or "close:" in t.split("send:")[0]):
                return True
        return False

    def shrink_candidates(self, case):
        return c01.PROP.shrink_candidates(case)


PROP = C03()
