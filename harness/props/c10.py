"""C10 — no input can inject into or split the HTTP request on the wire.

Correspondence: the bytes handed to `sendall` on the in-memory socket by `HTTPConnection.request`,
`HTTPConnectionPool.urlopen` and `PoolManager.request` are compared with `U3.Wire.request` (driver
`wire`), including the exception class and the bytes written before a failure; the HTTP/2
connection's `putheader` accept / reject with `U3.Wire.h2Putheader`; the Lean `strictParse` /
`deframe` with the Python oracle parser on the same wire bytes.
Oracle: a strict request parser written from the property text (Python only, no model).
"""
from __future__ import annotations

import array
import io
import re
import warnings
from urllib.parse import unquote_to_bytes, urlsplit

from ..core import Prop, Failure, enc, enc_pairs

HOST = "h.example"
SKIP = "@@@SKIP_HEADER@@@"
TOKEN_RE = re.compile(rb"[-!#$%&'*+.^_`|~0-9a-zA-Z]+")
H2_NAME_RE = re.compile(rb"[!#$%&'*+\-.^_`|~0-9a-z]+")

# regex sources the Lean matchers were written for; a difference escalates the generator
EXPECTED_PINS = {
    "token": r"[^-!#$%&'*+.^_`|~0-9a-zA-Z]",
    "target": r"^(/[^?#]*)(?:\?([^#]*))?(?:#.*)?$",
    "percent": r"%[a-fA-F0-9]{2}",
    "hc_method": "[\x00-\x1f]",
    "hc_url": "[\x00-\x20\x7f]",
    "hc_name": rb"[^:\s][^:\r\n]*",
    "hc_value": rb"\n(?![ \t])|\r(?![ \t\n])",
    "h2_name": rb"^[!#$%&'*+\-.^_`|~0-9a-z]+\Z",
    "h2_value": rb"[\0\x00\x0a\x0d\r\n]|^[ \r\n\t]|[ \r\n\t]$",
}


def _pat(obj, *path):
    """pattern of a (possibly renamed / removed) regex: a missing name counts as a changed pin"""
    try:
        for a in path:
            obj = getattr(obj, a)
        return obj.pattern
    except Exception:
        return "<missing>"


def current_pins():
    import http.client
    import urllib3.connection as ucon
    import urllib3.util.url as uurl
    pins = {
        "token": _pat(ucon, "_CONTAINS_CONTROL_CHAR_RE"),
        "target": _pat(uurl, "_TARGET_RE"),
        "percent": _pat(uurl, "_PERCENT_RE"),
        "hc_method": _pat(http.client, "_contains_disallowed_method_pchar_re"),
        "hc_url": _pat(http.client, "_contains_disallowed_url_pchar_re"),
        "hc_name": _pat(http.client, "_is_legal_header_name", "__self__"),
        "hc_value": _pat(http.client, "_is_illegal_header_value", "__self__"),
    }
    try:
        import urllib3.http2.connection as h2c
    except Exception:
        return pins
    pins["h2_name"] = _pat(h2c, "RE_IS_LEGAL_HEADER_NAME")
    pins["h2_value"] = _pat(h2c, "RE_IS_ILLEGAL_HEADER_VALUE")
    return pins


def pins_changed():
    cur = current_pins()
    return sorted(k for k, v in cur.items() if EXPECTED_PINS.get(k) != v)


# ------------------------------------------------------------------------------- body specs

def hx(b: bytes) -> str:
    return bytes(b).hex()


class _BinFile:
    """file-like with `read` only; tell / seek added per spec"""

    def __init__(self, data, pos):
        self._f = io.BytesIO(data)
        self._f.seek(pos)

    def read(self, n=-1):
        return self._f.read(n)


class _TextFile(io.TextIOBase):
    encoding = None          # a plain attribute (shadows the read-only one of TextIOBase): set per spec

    def __init__(self, text, pos):
        self._f = io.StringIO(text, newline="")
        self._f.seek(pos)

    def read(self, n=-1):
        return self._f.read(n)


def _raise_oserror(*a, **k):
    raise OSError("unsupported")


def make_file(text, seek, tell, pos, content, fenc=None):
    """content: str for text files, bytes otherwise.  `fenc`: the text file is stored in that encoding and says so
    (`.encoding`), as `open(path, encoding=fenc)` does: what it delivers is still its characters"""
    if seek == "ok" and tell == "ok":
        if text and fenc:
            f = io.TextIOWrapper(io.BytesIO(content.encode(fenc)), encoding=fenc, newline="")
            f.read(pos)
            return f
        f = io.StringIO(content, newline="") if text else io.BytesIO(content)
        f.seek(pos)
        return f
    f = _TextFile(content, pos) if text else _BinFile(content, pos)
    if text and fenc:
        f.encoding = fenc
    for name, how in (("seek", seek), ("tell", tell)):
        if how == "ok":
            setattr(f, name, getattr(f._f, name))
        elif how == "raises":
            setattr(f, name, _raise_oserror)
        else:
            setattr(f, name, None)          # getattr(body, name, None) is None  == absent
    return f


class _Stream:
    """file-like whose `read(n)` follows a *read script*: it never returns data across the end of a
    piece (so it may return fewer than `n` items although more data follows, like a raw / unbuffered
    stream); an empty piece is end-of-file.  The offset counts items (bytes / code points)."""

    def __init__(self, pieces, pos, empty):
        live = []
        for p in pieces:
            if not p:
                break
            live.append(p)
        self._data = empty.join(live)
        self._ends, k = [], 0
        for p in live:
            k += len(p)
            self._ends.append(k)
        self._pos = pos

    def read(self, n=-1):
        pos = self._pos
        if pos >= len(self._data):
            return self._data[:0]
        end = next(e for e in self._ends if e > pos)
        if n is not None and n >= 0:
            end = min(end, pos + n)
        self._pos = end
        return self._data[pos:end]

    def _tell(self):
        return self._pos

    def _seek(self, pos, whence=0):
        if whence != 0:
            raise OSError("unsupported")
        self._pos = pos
        return pos


class _BinStream(_Stream):
    def __init__(self, pieces, pos):
        super().__init__(pieces, pos, b"")


class _TextStream(_Stream, io.TextIOBase):
    encoding = None

    def __init__(self, pieces, pos):
        io.TextIOBase.__init__(self)
        _Stream.__init__(self, pieces, pos, "")


def make_stream(text, seek, tell, pos, pieces, fenc=None):
    """pieces: list of str for text streams, of bytes otherwise"""
    f = _TextStream(pieces, pos) if text else _BinStream(pieces, pos)
    if text and fenc:
        f.encoding = fenc
    for name, how in (("seek", seek), ("tell", tell)):
        if how == "ok":
            setattr(f, name, getattr(f, "_" + name))
        elif how == "raises":
            setattr(f, name, _raise_oserror)
        else:
            setattr(f, name, None)          # getattr(body, name, None) is None  == absent
    return f


def build_body(spec):
    """spec (JSON) -> (python object, protocol token, intended payload bytes or None if unencodable)"""
    k = spec[0]
    if k == "none":
        return None, "N", b""
    if k == "bytes":
        b = bytes.fromhex(spec[1])
        return b, "B/" + enc(b), b
    if k == "str":
        return spec[1], "S/" + enc(spec[1]), _utf8(spec[1])
    if k == "buf":
        kind, item, data = spec[1], spec[2], bytes.fromhex(spec[3])
        if kind == "bytearray":
            obj = bytearray(data)
        elif kind == "memoryview":
            obj = memoryview(data)
        else:
            obj = array.array({1: "B", 2: "H", 4: "I"}[item], data)
        return obj, f"U/{item}/" + enc(data), data
    if k == "file":
        text, seek, tell, pos, content = spec[1], spec[2], spec[3], spec[4], spec[5]
        c = content if text else bytes.fromhex(content)
        obj = make_file(text, seek, tell, pos, c, spec[6] if len(spec) > 6 else None)
        pay = _utf8(c[pos:]) if text else c[pos:]
        return obj, f"F/{int(text)}/{seek}/{tell}/{pos}/" + enc(c), pay
    if k == "stream":
        text, seek, tell, pos, pieces = spec[1], spec[2], spec[3], spec[4], spec[5]
        ps = list(pieces) if text else [bytes.fromhex(p) for p in pieces]
        obj = make_stream(text, seek, tell, pos, ps, spec[6] if len(spec) > 6 else None)
        live = []
        for p in ps:
            if not p:
                break
            live.append(p)
        whole = ("" if text else b"").join(live)
        pay = _utf8(whole[pos:]) if text else whole[pos:]
        return obj, f"R/{int(text)}/{seek}/{tell}/{pos}/" + (",".join(enc(p) for p in ps) if ps else "~"), pay
    if k == "iter":
        one, chunks = spec[1], spec[2]
        objs, toks, pay = [], [], b""
        for c in chunks:
            if c[0] == "b":
                d = bytes.fromhex(c[1]); objs.append(d); toks.append("b:" + enc(d)); p = d
            elif c[0] == "s":
                objs.append(c[1]); toks.append("s:" + enc(c[1])); p = _utf8(c[1])
            else:
                d = bytes.fromhex(c[2]); objs.append(array.array({1: "B", 2: "H", 4: "I"}[c[1]], d))
                toks.append(f"u:{c[1]}:" + enc(d)); p = d
            pay = None if (pay is None or p is None) else pay + p
        obj = (x for x in objs) if one else objs
        return obj, f"I/{int(one)}/" + (",".join(toks) if toks else "-"), pay
    raise ValueError(k)


def _utf8(s):
    try:
        return s.encode("utf-8")
    except UnicodeEncodeError:
        return None


# ------------------------------------------------------------------------------- exception classes

KNOWN_EXC = ("UnrewindableBodyError", "LocationParseError", "InvalidURL", "UnicodeEncodeError", "UnicodeError",
             "AssertionError", "ValueError")


def exc_name(e):
    for c in type(e).__mro__:
        if c.__name__ in KNOWN_EXC:
            return c.__name__
    return "raw:" + type(e).__name__


def cfg_tokens(url, bs, host=HOST, port=80):
    """protocol tokens of `U3.Wire.Cfg`; netloc / idna are computed with the stdlib (parameters of
    the model, see notes/C10.md)"""
    netloc_tok, idna_src = "-", host
    u = url or "/"
    if u.startswith("http"):
        try:
            nl = urlsplit(u).netloc
            netloc_tok = enc(nl)
            if nl:
                idna_src = nl
        except ValueError as e:
            netloc_tok = "E:" + exc_name(e)
    try:
        idna_tok = enc(idna_src.encode("idna"))
    except Exception as e:
        idna_tok = "E:" + exc_name(e)
    return f"{enc(host)} {port} 80 {bs} {netloc_tok} {idna_tok}"


# ------------------------------------------------------------------------------- the oracle parser

def split_head(wire: bytes):
    """permissive line splitting (CRLF, CR, LF), SP/HTAB-led lines are continuations (kept raw).
    -> (logical lines, rest after the blank line) or None"""
    n, i, phys = len(wire), 0, []
    while True:
        j = i
        while j < n and wire[j] not in (10, 13):
            j += 1
        if j >= n:
            return None
        t = 2 if wire[j] == 13 and j + 1 < n and wire[j + 1] == 10 else 1
        line, term = wire[i:j], wire[j:j + t]
        i = j + t
        if line == b"":
            break
        phys.append((line, term))
    logical, prev = [], b""
    for line, term in phys:
        if line[:1] in (b" ", b"\t") and logical:
            logical[-1] += prev + line
        else:
            logical.append(line)
        prev = term
    return logical, wire[i:]


def dechunk(rest: bytes):
    out = b""
    while True:
        m = re.match(rb"[0-9a-fA-F]+", rest)
        if not m or rest[m.end():m.end() + 2] != b"\r\n":
            return None
        k = int(m.group(0), 16)
        rest = rest[m.end() + 2:]
        if k == 0:
            return out if rest == b"\r\n" else None
        if len(rest) < k + 2 or rest[k:k + 2] != b"\r\n":
            return None
        out += rest[:k]
        rest = rest[k + 2:]


def strict_parse(wire: bytes):
    """-> dict(method, target, headers=[(name, value)], rest, frame, payload) or None"""
    sh = split_head(wire)
    if sh is None or not sh[0]:
        return None
    lines, rest = sh
    rl = lines[0]
    if rl[:1] in (b" ", b"\t"):
        return None
    parts = rl.split(b" ")
    if len(parts) != 3 or parts[2] != b"HTTP/1.1" or not parts[0] or not parts[1] or not TOKEN_RE.fullmatch(parts[0]):
        return None
    hs = []
    for l in lines[1:]:
        name, c, v = l.partition(b":")
        if not c or not name:
            return None
        hs.append((name, v.strip(b" \t")))
    cl = [v for k, v in hs if k.lower() == b"content-length"]
    te = [v for k, v in hs if k.lower() == b"transfer-encoding"]
    frame, payload = None, None
    if not cl and not te:
        if rest == b"":
            frame, payload = "unframed", b""
    elif len(cl) == 1 and not te:
        if re.fullmatch(rb"[0-9]+", cl[0]) and int(cl[0]) == len(rest):
            frame, payload = "content-length", rest
    elif len(te) == 1 and not cl:
        if te[0].lower() == b"chunked":
            p = dechunk(rest)
            if p is not None:
                frame, payload = "chunked", p
    return {"method": parts[0], "target": parts[1], "headers": hs, "rest": rest, "frame": frame, "payload": payload}


def parse_line(p):
    """the `parse` driver answer for a Python parse result"""
    if p is None:
        return "none"
    fr = f"frame={p['frame']} payload={enc(p['payload'])}" if p["frame"] else "frame=none payload=-"
    return f"m={enc(p['method'])} t={enc(p['target'])} h={enc_pairs(p['headers'])} {fr}"


FRAMING = ("content-length", "transfer-encoding")
AUTO = ("host", "accept-encoding", "user-agent")


def check_request(wire, meth, target_check, headers, payload, chunked_arg, fail):
    """the property, for one emitted request.  headers: caller's (name, value) list; payload: the bytes
    the caller meant to send (None: not checkable); target_check(target_bytes) -> problem or None"""
    p = strict_parse(wire)
    if p is None:
        return fail("unparseable:empty-method" if meth == "" else "unparseable",
                    "the bytes written are not one well-formed HTTP/1.1 request head")
    if p["method"] != meth.encode("latin-1", "replace"):
        fail("request-line", f"method on the wire {p['method']!r} != requested {meth!r}")
    prob = target_check(p["target"])
    if prob:
        fail("target", prob)
    keys = [k.lower() for k, _ in headers]
    for k, v in headers:
        if v == SKIP and k.lower() not in AUTO:
            fail("skip-non-skippable", f"SKIP_HEADER on {k!r} was honoured: the requested header line is silently missing")
    want = [(k.encode("latin-1"), v.encode("latin-1").strip(b" \t")) for k, v in headers if v != SKIP]
    got = p["headers"]
    # the caller's header lines are the tail of the header list, exactly and in order
    tail = got[len(got) - len(want):] if want else []
    if tail != want:
        return fail("caller-headers", f"header lines {got!r} do not end with the requested {want!r}")
    auto = got[:len(got) - len(want)]
    names = [k.lower().decode("latin-1") for k, _ in auto]
    if len(set(names)) != len(names):
        fail("auto-duplicate", f"automatic header emitted twice: {names}")
    for n in names:
        if n not in AUTO + FRAMING:
            fail("extra-header", f"header line {n!r} was neither requested nor automatic")
        if n in keys:
            fail("auto-despite-supplied", f"automatic {n!r} emitted although the caller supplied / suppressed it")
    for n in AUTO:
        if n not in keys and n not in names:
            fail("auto-missing", f"automatic {n!r} missing although neither supplied nor suppressed")
    if len([n for n in names if n in FRAMING]) > 1:
        fail("double-framing", "both Content-Length and Transfer-Encoding were added")
    if not any(k in FRAMING for k in keys):
        # the caller left framing to urllib3: exactly the framed body follows, nothing else
        if p["frame"] is None:
            fail("framing", "the bytes after the head are not exactly one framed body (second request possible)")
        elif payload is not None and p["payload"] != payload:
            fail("payload", f"framed payload {p['payload'][:40]!r} != body bytes {payload[:40]!r}")
        if chunked_arg and p["frame"] != "chunked":
            fail("framing", "chunked=True not honoured")
    return p


def target_exact(url):
    want = (url or "/").encode("latin-1", "replace")

    def chk(t):
        return None if t == want else f"target on the wire {t!r} != requested {want!r}"
    return chk


def target_encoded(url, dotseg):
    """pool / manager level: illegal characters percent-encoded, fragment dropped"""
    def chk(t):
        if any(b <= 0x20 or b >= 0x7f or b == 0x23 for b in t):
            return f"re-encoded target {t!r} contains a control / space / non-ASCII byte or '#'"
        src = url.split("#", 1)[0].encode("utf-8", "surrogatepass")
        if not dotseg:
            # per component: the wire form decodes to the requested component, or (when the component
            # mixes valid and invalid escapes and every '%' was therefore escaped) to its literal text
            tp, tq, tr = t.partition(b"?")
            sp, sq, sr = src.partition(b"?")
            for a, b in ((tp, sp), (tr, sr)):
                if unquote_to_bytes(a) != unquote_to_bytes(b) and unquote_to_bytes(a).lower() != b.lower():
                    return f"re-encoded target {t!r} is not the requested {src!r}"
            if tq != sq:
                return f"re-encoded target {t!r} lost / gained a query"
        return None
    return chk


# ------------------------------------------------------------------------------- generator alphabet

ATOMS = ["a", "\r", "\n", "\r\n", "\x00", "\x7f", " ", "\t", ":", "\xe9", "Ā", "\udc80", "%0d%0a", "%", "#",
         "?", "X: y", "GET / HTTP/1.1\r\n\r\n", "\r\n ", "\n\t", "/", ".", "..", "%e9", "\x0b", "\x0c", "\r\n\r\n",
         "Host: evil", "K", "http", "//"]
NAMES = ["X-A", "Host", "host", "Accept-Encoding", "User-Agent", "user-agent", "Content-Length", "Transfer-Encoding",
         "Content-Type"]
VALUES = ["v", SKIP, "5", "chunked", "gzip", ""]
METHODS = ["GET", "POST", "PUT", "HEAD", "DELETE", "OPTIONS", "TRACE", "PATCH", "get", "FOO", "CONNECT"]
BODIES = [["none"], ["bytes", hx(b"abc")], ["bytes", hx(b"GET /x HTTP/1.1\r\nHost: evil\r\n\r\n")],
          ["bytes", hx(b"0\r\n\r\nGET /x HTTP/1.1\r\n\r\n")], ["str", "caf\xe9"], ["str", "a\udc80"],
          ["bytes", ""], ["str", ""],
          ["iter", False, [["b", hx(b"ab")], ["b", ""], ["s", "\xe9"]]],
          ["iter", True, [["s", "x"], ["s", "a\udc80"], ["b", hx(b"zz")]]],
          ["iter", False, [["b", hx(b"0\r\n\r\n")], ["s", ""]]],
          ["file", False, "ok", "ok", 0, hx(b"line1\r\n\r\nGET / HTTP/1.1\r\n\r\n")],
          ["file", True, "ok", "ok", 1, "h\xe9llo € w\U0001f600rld"],
          ["file", True, "ok", "ok", 0, "abcdefghijklmnopq\udc80rs"],
          ["buf", "bytearray", 1, hx(b"\r\n\r\n")],
          # streams whose read() returns short (read script): a short read is not the end of the body
          ["stream", False, "ok", "ok", 0, [hx(b"0\r\n"), hx(b"\r\n"), hx(b"GET /x HTTP/1.1\r\nHost: evil\r\n\r\n"), hx(b"z")]],
          ["stream", True, "ok", "ok", 1, ["h\xe9", "l", "lo € w\U0001f600rld, seventeen+", "!"]],
          ["stream", True, "ok", "absent", 0, ["abc", "defghijklmnopq", "\udc80rs"]]]


class C10(Prop):
    id = "C10"
    model = "wire"
    rule = ("method / URL / header name / header value built from a hostile alphabet (CR, LF, CRLF, NUL, DEL, SP, HTAB, "
            "':', latin-1, non-latin-1, lone surrogate, percent escapes, '#', '?', dot segments, embedded header lines and "
            "complete requests, SKIP_HEADER) placed at every position of a benign string, x special header names x body "
            "kinds x chunked flag, through HTTPConnection.request, HTTPConnectionPool.urlopen and PoolManager.request; "
            "HTTP/2: putheader accept/reject.  quick: every single atom and atom pair per field + random triples; "
            "thorough: every atom triple per field + more random.  Compared: exception class, bytes handed to sendall "
            "(also the bytes written before a failure), Lean strictParse/deframe vs the Python strict parser on the "
            "emitted bytes.  non-trivial = at least one hostile atom in the case and the implementation either wrote a "
            "request or refused")
    assumptions = ["urlsplit(url).netloc and .encode('idna') (Host header of absolute-form targets / non-ASCII hosts) "
                   "are parameters of the model, computed by the stdlib in the harness",
                   "str.lower()/upper() modelled for ASCII; PoolManager.request's method.upper() is applied by the harness",
                   "pool level: correspondence for targets starting with '/' (not '//'); other URLs are oracle-only",
                   "manager level: correspondence for 'http://h.example' + tail with tail empty or starting with / ? #"]
    trusted = ["http.client request path (putrequest/putheader/endheaders/send) is modelled, validated by this correspondence",
               "harness/net.py in-memory sockets (bytes handed to sendall)"]
    time_budget = {"quick": 110, "thorough": 1200}

    # ---------------------------------------------------------------- generation
    def base(self):
        return {"level": "conn", "meth": "POST", "url": "/p", "headers": [["X-A", "v"]], "body": ["bytes", hx(b"abc")],
                "chunked": False, "bs": 16}

    def hostile_strings(self, rng, deep):
        """atom sequences of length 1, 2 (and 3 when deep)"""
        for a in ATOMS:
            yield a
        for a in ATOMS:
            for b in ATOMS:
                yield a + b
        if deep:
            for a in ATOMS:
                for b in ATOMS:
                    for c in ATOMS[:20]:
                        yield a + b + c

    def place(self, field, s, pos):
        """put hostile string s into a benign value of `field` at position pos (0 start, 1 middle, 2 end, 3 alone)"""
        benign = {"meth": "POST", "url": "/pq", "hname": "X-AB", "hval": "vw"}[field]
        if field == "url":
            body = benign[1:]
            r = {0: s + body, 1: body[:1] + s + body[1:], 2: body + s, 3: s}[pos]
            return "/" + r
        return {0: s + benign, 1: benign[:2] + s + benign[2:], 2: benign + s, 3: s}[pos]

    def with_field(self, case, field, val):
        c = dict(case)
        if field == "meth":
            c["meth"] = val
        elif field == "url":
            c["url"] = val
        elif field == "hname":
            c["headers"] = [[val, "v"]]
        elif field == "hval":
            c["headers"] = [["X-A", val]]
        return c

    def cases(self, rng, tier, escalate=False):
        deep = tier == "thorough" or escalate or bool(pins_changed())
        levels = ["conn", "pool", "manager"]
        n = 0
        # 1. every hostile string at every position of every field, levels rotated
        for s in self.hostile_strings(rng, deep):
            for field in ("meth", "url", "hname", "hval"):
                for pos in ((0, 1, 2, 3) if len(s) <= 4 or deep else (n % 4,)):
                    n += 1
                    c = self.with_field(self.base(), field, self.place(field, s, pos))
                    c["level"] = levels[n % 3]
                    c["meth"] = c["meth"] if field == "meth" else METHODS[n % len(METHODS)]
                    c["body"] = BODIES[n % 3] if c["meth"] not in ("GET", "HEAD") else ["none"]
                    c["kind"] = "place:" + field
                    yield c
        # 2. special header names x values x methods x bodies x chunked (automatic headers / SKIP / framing)
        for name in NAMES:
            for val in VALUES:
                for bi, body in enumerate(BODIES):
                    for ch in (False, True):
                        n += 1
                        if not deep and (n % 3):
                            continue
                        yield {"level": levels[n % 3], "meth": METHODS[n % len(METHODS)], "url": "/p?q=1#f",
                               "headers": [[name, val], ["X-B", "w"]], "body": body, "chunked": ch, "bs": 16,
                               "kind": "special", "bn": n % 5 == 0}
        # 3. URLs that are not origin-form (absolute form, '//', no slash): oracle only at pool/manager level
        for s in ["http://other.example/x", "http://h.example/a b#f", "http://h.example:80/\r\nX: y", "//h.example/x",
                  "http://h.example\r\n/", "http://[::1]/", "http://[::1%25eth0]/", "http://a%b/", "http://\xe9/",
                  "http://h.example/\udc80", "httpx", "http://u:p@h.example/x#f", "h.example/x y", "http://h.example/%0d%0aX:y",
                  "http://H.EXAMPLE/../a/./b/..", "http://h.example?x y#z\nw", "http://h.example/#a\nb"]:
            for lvl in levels:
                for a in ("", "\r\n", " ", "\x00", "#", "\udc80"):
                    yield {"level": lvl, "meth": "GET", "url": s + a, "headers": [["X-A", "v"]], "body": ["none"],
                           "chunked": False, "bs": 16, "kind": "abs-url"}
        for lvl in levels:
            for body in (["none"], ["bytes", hx(b"abc")]):
                yield {"level": lvl, "meth": "", "url": "/p", "headers": [["X-A", "v"]], "body": body, "chunked": False,
                       "bs": 16, "kind": "empty-method"}
        # 4. HTTP/2 header validity
        for s in self.hostile_strings(rng, deep):
            for field in ("hname", "hval"):
                for pos in (0, 1, 2, 3):
                    v = self.place(field, s, pos)
                    yield {"level": "h2", "name": v if field == "hname" else "X-A", "value": v if field == "hval" else "v",
                           "kind": "h2"}
        # 5. random multi-field
        nrand = 40000 if deep else 5000
        for _ in range(nrand):
            c = self.base()
            c["level"] = rng.choice(levels)
            c["meth"] = rng.choice(METHODS)
            c["body"] = rng.choice(BODIES)
            c["chunked"] = rng.random() < 0.3
            c["bs"] = rng.choice([1, 3, 16, 16384])
            hs = {}
            for _ in range(rng.choice([0, 1, 1, 2, 3])):
                hs[rng.choice(NAMES + ["X-C", "x-d"]).lower()] = [rng.choice(NAMES + ["X-C", "x-d"]), rng.choice(VALUES)]
            hs = {k.lower(): [k, v] for k, v in hs.values()}
            c["headers"] = list(hs.values())
            for _ in range(rng.choice([1, 1, 2])):
                field = rng.choice(["meth", "url", "hname", "hval"])
                s = "".join(rng.choice(ATOMS) for _ in range(rng.randint(1, 3)))
                v = self.place(field, s, rng.randrange(4))
                if field in ("hname", "hval"):
                    pair = [v, "v"] if field == "hname" else ["X-H", v]
                    if pair[0].lower() not in {h[0].lower() for h in c["headers"]}:
                        c["headers"] = c["headers"] + [pair]
                else:
                    c = self.with_field(c, field, v) if field in ("meth", "url") else c
            c["kind"] = "rand"
            c["bn"] = rng.random() < 0.15
            yield c

    # ---------------------------------------------------------------- execution
    def setup_worker(self):
        warnings.simplefilter("ignore")

    def execute(self, case, res):
        if case["level"] == "h2":
            return self.execute_h2(case, res)
        from ..net import Net, Server, http_response
        import urllib3
        from urllib3.connection import HTTPConnection
        from urllib3.connectionpool import HTTPConnectionPool

        level, meth, url, bs = case["level"], case["meth"], case["url"], case.get("bs", 16)
        headers = [tuple(h) for h in case["headers"]]
        hdict = dict(headers)
        headers = list(hdict.items())
        if case.get("bn") and all(k.isascii() for k in hdict):
            # header names handed over as bytes (http.client and urllib3 accept both): same request on the wire
            # (ASCII names only: a non-UTF-8 bytes name fails in to_str() with a different exception class than
            # the same code points given as str — both before anything is written; outside the model's domain)
            hdict = {k.encode("ascii"): v for k, v in hdict.items()}
            res.bump("bytes-header-names")
        chunked = bool(case["chunked"])
        body, btok, payload = build_body(case["body"])
        res.bump("level:" + level)
        res.bump("kind:" + case.get("kind", "?"))
        res.bump("body:" + case["body"][0])

        net = Net()

        class Raw(Server):
            def on_raw(self, peer, data):
                if not getattr(peer, "_replied", False):
                    peer._replied = True
                    peer.reply(http_response(200, [("Connection", "close")], b""))

        net.default_server = Raw()

        def on_connect(sock, host, port):
            sock.peer.raw_mode = True
        net.connect_hook = on_connect

        err = None
        # pool / manager level: a benign second request through the SAME pool after the case's request,
        # whatever became of the first ("no caller-supplied string can ... start a second request" must also
        # hold for what a rejected or failed request leaves behind in a pooled connection)
        err2, wire2, marks, followed = None, None, {}, []
        FOLLOW_URL, FOLLOW_HDRS = "/follow", {"X-F": "1"}

        def follow_up(send):
            nonlocal err2, wire2
            followed.append(1)
            marks.update({sid: len(net.sent[sid]) for sid in net.sent})
            try:
                send()
            except Exception as e2:         # noqa: BLE001
                err2 = exc_name(e2)
            wire2 = b"".join(bytes(net.sent[sid])[marks.get(sid, 0):] for sid in sorted(net.sent))

        with net.installed():
            try:
                if level == "conn":
                    conn = HTTPConnection(HOST, 80, blocksize=bs)
                    try:
                        conn.request(meth, url, body=body, headers=hdict, chunked=chunked)
                    finally:
                        conn.close()
                elif level == "pool":
                    pool = HTTPConnectionPool(HOST, 80, blocksize=bs, retries=False)
                    try:
                        pool.urlopen(meth, url, body=body, headers=hdict, chunked=chunked, retries=False, redirect=False)
                    finally:
                        try:
                            follow_up(lambda: pool.urlopen("GET", FOLLOW_URL, headers=dict(FOLLOW_HDRS), retries=False, redirect=False))
                        finally:
                            pool.close()
                else:
                    pm = urllib3.PoolManager(blocksize=bs, retries=False)
                    try:
                        pm.request(meth, "http://" + HOST + url if url.startswith("/") else url, body=body, headers=hdict, chunked=chunked, retries=False, redirect=False)
                    finally:
                        try:
                            follow_up(lambda: pm.request("GET", "http://" + HOST + FOLLOW_URL, headers=dict(FOLLOW_HDRS), retries=False, redirect=False))
                        finally:
                            pm.clear()
            except Exception as e:          # noqa: BLE001 - the class is the observation
                err = exc_name(e)
            wire = b"".join(bytes(net.sent[s])[:marks.get(s, 0)] if followed else bytes(net.sent[s])
                            for s in sorted(net.sent))
        res.bump("outcome:" + (err or "sent"))

        # ---- model lines
        lines, out = [], []
        answer = ("ok " + enc(wire)) if err is None else f"err {err} {enc(wire)}"
        hs_tok = enc_pairs(headers)
        origin_form = url.startswith("/") and not url.startswith("//")
        sent_meth = meth
        if level == "conn":
            lines.append(f"req {cfg_tokens(url, bs)} {enc(meth)} {enc(url)} {hs_tok} {btok} {int(chunked)}")
            out.append(answer)
        elif level == "pool" and origin_form:
            lines.append(f"pool {cfg_tokens(url, bs)} {enc(meth)} {enc(url)} {hs_tok} {btok} {int(chunked)}")
            out.append(answer)
        elif level == "manager" and origin_form:
            from urllib3.util.url import parse_url
            sent_meth = meth.upper()
            lines.append(f"mt {enc(url)}")
            try:
                ru = parse_url("http://" + HOST + url).request_uri
                out.append("ok " + enc(ru))
                if not ru.startswith("//"):      # '//…' is re-parsed as an authority by the pool: outside the model's domain
                    lines.append(f"pool {cfg_tokens(ru, bs)} {enc(sent_meth)} {enc(ru)} {hs_tok} {btok} {int(chunked)}")
                    out.append(answer)
            except Exception as e:           # parse_url refuses: nothing may have been written
                out.append("err " + exc_name(e))
        elif level == "manager":
            sent_meth = meth.upper()
        if url.startswith("/"):
            # `_encode_target` itself: this model, the C14 model (`U3.Url.encodeTarget`) and the code must agree
            from urllib3.util.url import _encode_target
            lines.append("encx " + enc(url))
            try:
                out.append("ok " + enc(_encode_target(url)) + " url=agree")
            except Exception as e:           # noqa: BLE001
                out.append("err " + exc_name(e) + " url=agree")
        if err is None:
            lines.append("parse " + enc(wire))
            out.append(parse_line(strict_parse(wire)))
        if wire2 is not None and (level == "pool" or (level == "manager" and "://" not in url[:8] or url.startswith("http://" + HOST))):
            # the follow-up request, seen by the model as an independent request on a clean pool
            res.bump("followup:" + ("after-error" if err else "after-sent"))
            lines.append(f"pool {cfg_tokens(FOLLOW_URL, bs)} {enc('GET')} {enc(FOLLOW_URL)} {enc_pairs(list(FOLLOW_HDRS.items()))} N 0")
            out.append(("ok " + enc(wire2)) if err2 is None else f"err {err2} {enc(wire2)}")

        # ---- oracle
        def fail(sig, what):
            res.bump("failure:" + sig)
            if res.hist["failure:" + sig] <= 5:          # a few witnesses per shard and signature are enough
                res.failures.append(Failure(signature=f"C10:{sig}", what=f"{level}: {what}", case=case,
                                            detail={"wire": wire[:300].decode("latin-1"), "error": err}))
        if err is not None:
            if wire:
                cls = self.classify_late_failure(case)
                fail("fail-after-write:" + cls, f"{err} raised after {len(wire)} bytes had been written")
        else:
            if level == "conn":
                chk = target_exact(url)
            else:
                if origin_form:
                    chk = target_encoded(url, dotseg=(level == "manager"))
                else:
                    def chk(t):
                        if any(b <= 0x20 or b >= 0x7f for b in t):
                            return f"re-encoded target {t!r} contains a control / space / non-ASCII byte"
                        if b"#" in t:
                            fail("target:absolute-form-fragment-kept",
                                 f"absolute-form / authority-form target {t!r} still carries the fragment")
                        return None
            check_request(wire, sent_meth, chk, headers, payload, chunked, fail)
        if wire2:
            # whatever the first request did, the bytes written for the follow-up are exactly that request
            def fail2(sig, what):
                fail("followup:" + sig, "request following the case's request on the same pool: " + what)
            check_request(wire2, "GET", target_exact(FOLLOW_URL), list(FOLLOW_HDRS.items()), b"", False, fail2)
        return lines, out

    @staticmethod
    def classify_late_failure(case):
        b = case["body"]
        if b[0] == "iter" and any(c[0] == "s" and _utf8(c[1]) is None for c in b[2]):
            return "unencodable-str-chunk"
        if b[0] == "file" and b[1] and _utf8(b[5][b[4]:]) is None:
            return "unencodable-text-file"
        if b[0] == "stream" and b[1] and _utf8("".join(b[5])[b[4]:]) is None:
            return "unencodable-text-file"
        return "other"

    def execute_h2(self, case, res):
        from urllib3.http2.connection import HTTP2Connection
        name, value = case["name"], case["value"]
        res.bump("level:h2")
        c = HTTP2Connection(HOST, 443)
        c._headers = []
        try:
            c.putheader(name, value)
            n, v = c._headers[-1]
            ans = f"ok {enc(n)} {enc(v)}"
            ok = True
        except Exception as e:              # noqa: BLE001
            ans = "err " + exc_name(e)
            ok = False
        res.bump("outcome:h2-" + ("accepted" if ok else "rejected"))
        if ok:
            probs = []
            if not H2_NAME_RE.fullmatch(n):
                probs.append(("h2-name", f"HTTP/2 putheader accepted the field name {n!r} (not a lower-case RFC 9113 token)"))
            if any(b in (0, 10, 13) for b in v) or v[:1] in (b" ", b"\t") or v[-1:] in (b" ", b"\t"):
                probs.append(("h2-value", f"HTTP/2 putheader accepted the field value {v!r}"))
            for sig, what in probs:
                cls = "trailing-LF" if sig == "h2-name" and n.endswith(b"\n") and H2_NAME_RE.fullmatch(n[:-1]) else "other"
                res.bump(f"failure:{sig}:{cls}")
                if res.hist[f"failure:{sig}:{cls}"] <= 5:
                    res.failures.append(Failure(signature=f"C10:{sig}:{cls}", what=what, case=case))
        # the same pair through HTTP2Connection.request(): whatever route a caller string takes into the field
        # list handed to the h2 layer (pseudo-headers included), it must have passed the same validity test
        c2 = HTTP2Connection(HOST, 443)
        sent = []
        c2.endheaders = lambda message_body=None, **kw: sent.append(list(c2._headers))
        c2.send = lambda *a, **kw: None
        for nm in (name, "Host" if name.lower() not in ("host",) else name):
            del sent[:]
            try:
                c2._headers = []
                c2.request("GET", "/p", headers={nm: value})
            except Exception:                # noqa: BLE001 - rejected before anything reached the h2 layer
                continue
            for fn, fv in (sent[0] if sent else []):
                fnb = fn if isinstance(fn, bytes) else str(fn).encode("latin-1", "replace")
                fvb = fv if isinstance(fv, bytes) else str(fv).encode("latin-1", "replace")
                bad_name = not (H2_NAME_RE.fullmatch(fnb) or fnb in (b":method", b":scheme", b":authority", b":path"))
                bad_val = any(b in (0, 10, 13) for b in fvb) or fvb[:1] in (b" ", b"\t") or fvb[-1:] in (b" ", b"\t")
                if bad_name or bad_val:
                    sig = "h2-request-field:" + ("name" if bad_name else "value")
                    res.bump("failure:" + sig)
                    if res.hist["failure:" + sig] <= 5:
                        res.failures.append(Failure(signature="C10:" + sig, what=f"HTTP2Connection.request(headers={{{nm!r}: {value!r}}}) "
                                                    f"handed the field ({fnb!r}, {fvb!r}) to the HTTP/2 layer", case=case))
        return [f"h2 {enc(name)} {enc(value)}"], [ans]

    def nontrivial(self, case, impl_out):
        if case["level"] == "h2":
            return any(a in case["name"] + case["value"] for a in ATOMS[1:])
        s = case["meth"] + case["url"] + "".join(k + v for k, v in case["headers"])
        return any(a in s for a in ATOMS[1:]) and bool(impl_out)

    def shrink_candidates(self, case):
        if case.get("level") == "h2":
            for f in ("name", "value"):
                s = case[f]
                for i in range(len(s)):
                    c = dict(case); c[f] = s[:i] + s[i + 1:]
                    yield c
            return
        for f in ("meth", "url"):
            s = case[f]
            for i in range(len(s)):
                c = dict(case); c[f] = s[:i] + s[i + 1:]
                yield c
        hs = case["headers"]
        for i in range(len(hs)):
            c = dict(case); c["headers"] = hs[:i] + hs[i + 1:]
            yield c
            for j in (0, 1):
                s = hs[i][j]
                for k in range(len(s)):
                    h = list(hs[i]); h[j] = s[:k] + s[k + 1:]
                    c = dict(case); c["headers"] = hs[:i] + [h] + hs[i + 1:]
                    yield c
        if case["body"] != ["none"]:
            c = dict(case); c["body"] = ["none"]
            yield c
        if case["chunked"]:
            c = dict(case); c["chunked"] = False
            yield c


PROP = C10()
