"""C17 — the pool cache is bounded, consistent, and never leaks an evicted pool.

Correspondence (driver `lru`):
  * sequential: every op sequence over 4 keys x maxsize 0..3 is run on the real
    `RecentlyUsedContainer` and on `U3.Lru.step`; result, dispose calls (in call order) and the
    container's items (oldest first) are compared after every op;
  * concurrent: real threads under a deterministic scheduler (the container's `lock` attribute is
    replaced by a scheduler-aware re-entrant lock, `dispose_func` is a recorder).  The sequence of
    scheduling grants is replayed on the Lean small-step semantics (`conc`), and the observed
    outcome must be a member of the Lean-computed outcome set over all lock orders (`member`);
  * manager: `PoolManager(num_pools=k)` with an instance-level `pool_classes_by_scheme` whose pools
    use a fake `ConnectionCls` (no sockets): `connection_from_url` / `connection_from_host` /
    `clear` / reference release / `gc.collect()` sequences against `U3.Mgr.stepM`, and races of
    `connection_from_url` / `clear` under the same scheduler (`mconc`, `mmember`).
Oracle (implementation only): a timestamp-based reference LRU written independently in Python,
size bound, LRU victim, dispose count per value, no dispose while the disposing thread owns the
lock, linearizability in observed lock order, same key -> same pool, cached pool never closed,
dropped pool closed (all its connections) once unreferenced and not before.
"""
from __future__ import annotations

import gc
import itertools
import threading
import weakref

from ..core import Prop, Failure

NKEYS = 4


# =============================================================================== reference LRU

class RefLRU:
    """Independent specification: key -> (value, time of last touch); the victim is the entry with
    the smallest stamp.  No ordered container involved."""

    def __init__(self, cap):
        self.cap = cap
        self.d = {}
        self.t = 0

    def _tick(self):
        self.t += 1
        return self.t

    def items(self):
        return [(k, v) for k, (v, _) in sorted(self.d.items(), key=lambda kv: kv[1][1])]

    def touch(self, k):
        if k in self.d:
            self.d[k] = (self.d[k][0], self._tick())
            return True, self.d[k][0]
        return False, None

    def apply(self, op):
        """-> (result token, [disposed values in order])"""
        o = op[0]
        if o == "get":
            hit, v = self.touch(op[1])
            return ("v%d" % v if hit else "KeyError"), []
        if o == "has":
            hit, v = self.touch(op[1])
            return ("T" if hit else "F"), []
        if o == "mget":
            hit, v = self.touch(op[1])
            return ("v%d" % v if hit else "None"), []
        if o == "set":
            k, v = op[1], op[2]
            if k in self.d:
                old = self.d[k][0]
                self.d[k] = (v, self._tick())
                return "ok", [old]
            self.d[k] = (v, self._tick())
            if len(self.d) > self.cap:
                victim = min(self.d, key=lambda x: self.d[x][1])
                return "ok", [self.d.pop(victim)[0]]
            return "ok", []
        if o == "del":
            if op[1] in self.d:
                return "ok", [self.d.pop(op[1])[0]]
            return "KeyError", []
        if o == "clear":
            vs = [v for _, v in self.items()]
            self.d.clear()
            return "ok", vs
        if o == "len":
            return "n%d" % len(self.d), []
        if o == "keys":
            return "ks" + dots(sorted(self.d)), []
        raise ValueError(o)


def dots(xs):
    xs = list(xs)
    return ".".join(str(x) for x in xs) if xs else "-"


def show_items(items):
    return ",".join("%d:%d" % (k, v) for k, v in items) if items else "-"


def apply_impl(c, op):
    """one public call on the real container -> result token"""
    o = op[0]
    try:
        if o == "get":
            return "v%d" % c[op[1]]
        if o == "set":
            c[op[1]] = op[2]
            return "ok"
        if o == "del":
            del c[op[1]]
            return "ok"
        if o == "clear":
            c.clear()
            return "ok"
        if o == "len":
            return "n%d" % len(c)
        if o == "keys":
            ks = c.keys()
            return "ks" + dots(sorted(ks))
        if o == "has":
            return "T" if op[1] in c else "F"
        if o == "mget":
            r = c.get(op[1])
            return "None" if r is None else "v%d" % r
    except KeyError:
        return "KeyError"
    raise ValueError(o)


LONG = {"get": "get", "set": "set", "del": "del", "clear": "clear", "len": "len", "keys": "keys", "has": "has", "mget": "mget"}
SHORT = {"get": "g", "set": "s", "del": "d", "clear": "c", "len": "l", "keys": "k", "has": "h", "mget": "m"}


def op_line(op):
    return " ".join([op[0]] + [str(x) for x in op[1:]])


def op_short(op):
    return ":".join([SHORT[op[0]]] + [str(x) for x in op[1:]])


def progs_token(progs, short=op_short):
    return "/".join(",".join(short(o) for o in p) if p else "-" for p in progs)


# =============================================================================== scheduler

class Hang(Exception):
    pass


class Sched:
    """Deterministic scheduler: exactly one worker runs at a time; workers stop at *parks* (before
    acquiring the lock, before releasing it, before a dispose call) and continue when granted."""

    def __init__(self, n, chooser):
        self.n = n
        self.chooser = chooser
        self.go = [threading.Semaphore(0) for _ in range(n)]
        self.ctrl = threading.Semaphore(0)
        self.want = [None] * n          # kind of the park the worker is waiting at
        self.done = [False] * n
        self.ident = {}
        self.trace = []                 # granted thread ids = the schedule
        self.enabled_sets = []
        self.lock = None
        self.on_quiescent = None
        self.aborted = False

    def tid(self):
        return self.ident.get(threading.get_ident())

    def park(self, tid, kind):
        self.want[tid] = kind
        self.ctrl.release()
        self.go[tid].acquire()
        if self.aborted:
            raise Hang()
        self.want[tid] = None

    def finish(self, tid):
        self.done[tid] = True
        self.ctrl.release()

    def enabled(self):
        out = []
        for i in range(self.n):
            if self.done[i] or self.want[i] is None:
                continue
            if self.want[i] == "acq" and self.lock.owner is not None and self.lock.owner != i:
                continue
            out.append(i)
        return out

    def wait_ctrl(self, k=1):
        for _ in range(k):
            if not self.ctrl.acquire(timeout=120):
                raise Hang()

    def run(self, bodies):
        ths = []
        for i, body in enumerate(bodies):
            def main(i=i, body=body):
                self.ident[threading.get_ident()] = i
                try:
                    body()
                except Hang:
                    return
                finally:
                    self.finish(i)
            t = threading.Thread(target=main, daemon=True)
            ths.append(t)
        # start one by one so that each thread reaches its first park before the next starts
        try:
            for t in ths:
                t.start()
                self.wait_ctrl()
            step = 0
            last = None
            while True:
                en = self.enabled()
                if not en:
                    if all(self.done):
                        break
                    raise Hang()
                tid = self.chooser(step, en, last)
                self.trace.append(tid)
                self.enabled_sets.append(en)
                last = tid
                step += 1
                self.go[tid].release()
                self.wait_ctrl()
                if self.on_quiescent:
                    self.on_quiescent()
        except Hang:
            self.aborted = True
            for i in range(self.n):
                self.go[i].release()
            raise
        for t in ths:
            t.join(5)


class SchedLock:
    """stands in for `RecentlyUsedContainer.lock` (an RLock): re-entrant, scheduler-aware"""

    def __init__(self, sched):
        self.sched = sched
        self.owner = None
        self.depth = 0
        self.order = []                 # thread ids in (outermost) acquisition order

    def acquire(self, blocking=True, timeout=-1):
        tid = self.sched.tid()
        if tid is None:                 # controller thread, only while no worker runs
            tid = -1
        if self.owner == tid:
            self.depth += 1
            return True
        if tid >= 0:
            self.sched.park(tid, "acq")
        assert self.owner is None
        self.owner = tid
        self.depth = 1
        self.order.append(tid)
        return True

    def release(self):
        tid = self.sched.tid()
        if tid is None:
            tid = -1
        if self.owner != tid:
            raise RuntimeError("release of un-acquired lock")
        if self.depth > 1:
            self.depth -= 1
            return
        if tid >= 0:
            self.sched.park(tid, "rel")
        self.depth = 0
        self.owner = None

    def __enter__(self):
        self.acquire()
        return self

    def __exit__(self, *a):
        self.release()


def chooser_from_choices(choices):
    def ch(step, en, last):
        if step < len(choices):
            return en[choices[step] % len(en)]
        return last if last in en else en[0]
    return ch


def chooser_from_prefix(prefix):
    def ch(step, en, last):
        if step < len(prefix) and prefix[step] in en:
            return prefix[step]
        return last if last in en else en[0]
    return ch


def preemptions(trace, enabled_sets):
    n = 0
    for j in range(1, len(trace)):
        if trace[j] != trace[j - 1] and trace[j - 1] in enabled_sets[j]:
            n += 1
    return n


def merges(lens):
    """all thread-id sequences exhausting programs of the given lengths (= all sequential orders)"""
    rem = list(lens)
    acc = []

    def rec():
        if not any(rem):
            yield list(acc)
            return
        for t in range(len(rem)):
            if rem[t]:
                rem[t] -= 1
                acc.append(t)
                yield from rec()
                acc.pop()
                rem[t] += 1
    yield from rec()


def ref_run_container(cap, progs, order):
    """sequential execution of the programs in thread order `order` on the reference LRU"""
    ref = RefLRU(cap)
    pos = [0] * len(progs)
    rres = [[] for _ in progs]
    rdisp = []
    for t in order:
        r, d = ref.apply(progs[t][pos[t]])
        pos[t] += 1
        rres[t].append(r)
        rdisp += d
    return rres, ref.items(), sorted(rdisp)


def ref_run_manager(cap, progs, order):
    ref = RefLRU(cap)
    pos = [0] * len(progs)
    rres = [[] for _ in progs]
    nxt = 0
    for t in order:
        op = progs[t][pos[t]]
        pos[t] += 1
        if op[0] == "g":
            hit, v = ref.touch(op[1])
            if hit:
                rres[t].append("p%d=" % v)
            else:
                ref.apply(["set", op[1], nxt])
                rres[t].append("p%d+" % nxt)
                nxt += 1
        elif op[0] == "c":
            ref.apply(["clear"])
            rres[t].append("ok")
        else:
            rres[t].append("n%d" % len(ref.d))
    return rres, ref.items()


def canon_pools(results, items):
    """rename pool ids in order of first appearance (threads in order, then the cache)"""
    ren = {}

    def r(i):
        if i not in ren:
            ren[i] = len(ren)
        return ren[i]
    out = []
    for rs in results:
        o = []
        for x in rs:
            if x.startswith("p"):
                o.append("p%d%s" % (r(int(x[1:-1])), x[-1]))
            else:
                o.append(x)
        out.append(o)
    return out, [(k, r(v)) for k, v in items]


def lock_order_fits(order, progs):
    cnt = [0] * len(progs)
    for t in order:
        if t >= len(progs):
            return False
        cnt[t] += 1
    return cnt == [len(p) for p in progs]


# =============================================================================== fake pools

class FakeConn:
    """stands in for HTTPConnection: 'open socket' until close()"""
    census = None

    def __init__(self, host=None, port=None, **kw):
        self.host = host
        self.port = port
        self.is_open = True
        self.close_calls = 0
        self.sock = object()

    @property
    def is_connected(self):
        return self.is_open

    @property
    def is_closed(self):
        return not self.is_open

    def close(self):
        self.close_calls += 1
        self.is_open = False
        self.sock = None


def make_pool_class(registry):
    from urllib3.connectionpool import HTTPConnectionPool

    class FakePool(HTTPConnectionPool):
        ConnectionCls = FakeConn

        def __init__(self, host, port=None, **kw):
            super().__init__(host, port, **kw)
            self.vid = len(registry)
            registry.append({"ref": weakref.ref(self), "conns": [], "host": host, "port": port,
                             "maker": threading.get_ident()})

        def _new_conn(self):
            c = super()._new_conn()
            registry[self.vid]["conns"].append(c)
            return c

    return FakePool


HOSTS = ["h0.test", "h1.test", "h2.test", "h3.test"]


def fetch_pool(pm, k, variant):
    h = HOSTS[k]
    if variant == 0:
        return pm.connection_from_url("http://%s/" % h)
    if variant == 1:
        return pm.connection_from_url("http://%s:80/p?q=1" % h.upper())
    if variant == 2:
        return pm.connection_from_host(h.upper(), None, "http")
    return pm.connection_from_host(h, 80, "http")


def key_of(poolkey):
    return HOSTS.index(poolkey.key_host)


# =============================================================================== the property

class C17(Prop):
    id = "C17"
    case_watchdog = None          # this property manages time itself (per-string alarms / schedule exploration)
    model = "lru"
    rule = ("sequential: all op sequences (get/set/del/clear/len/keys, keys canonically numbered in order of first "
            "use, fresh value per set) of length 6 (quick) / 7 (thorough) over 4 keys x maxsize 0..3, plus all "
            "sequences of length 4 over the full alphabet incl. `in` and `.get()`; concurrent: 2-3 real threads of "
            "2-3 container ops under a deterministic scheduler, all schedules up to 3 pre-emptions (thorough: all schedules, capped per program) for selected "
            "programs + random schedules of random programs; manager: PoolManager(num_pools=0..3) sequences of "
            "connection_from_url/connection_from_host (4 spellings per origin)/clear/release/gc over 4 origins and "
            "races of 2-3 threads; every run is compared with the Lean model (per-op results, dispose calls, "
            "container order, replay of the observed schedule on the small-step semantics, membership in the model's "
            "outcome set) and with the Python reference/oracle. non-trivial = at least one eviction / dispose, or "
            ">= 2 threads")
    assumptions = ["threads are pre-empted only at lock acquire / lock release / dispose_func call boundaries "
                   "(the model's granularity; atomicity of RLock-protected bodies is a runtime fact)",
                   "pool sockets are represented by a fake ConnectionCls; finalisation is CPython reference counting "
                   "+ gc.collect()",
                   "Mapping.get / Mapping.__contains__ as in CPython 3.12 _collections_abc (via __getitem__)"]
    trusted = ["threading.RLock atomicity and re-entrancy (replaced by an instrumented lock in concurrent runs)",
               "weakref.finalize / CPython reference counting (exercised, not proved)",
               "collections.OrderedDict semantics (modelled as an association list, oldest first)"]
    time_budget = {"quick": 110, "thorough": 1300}
    exhaustive = {"quick": True, "thorough": True}
    batch = 20000

    # ------------------------------------------------------------------ generation
    @staticmethod
    def canon_ops(nused, full):
        """single ops whose key is canonical given `nused` distinct keys so far; (op, new nused)"""
        out = []
        kinds = ["get", "set", "del"] + (["has", "mget"] if full else [])
        for k in range(min(nused + 1, NKEYS)):
            for o in kinds:
                out.append(((o, k), max(nused, k + 1)))
        for o in ("clear", "len", "keys"):
            out.append(((o,), nused))
        return out

    def canon_seqs(self, prefix, nused, depth, full):
        if depth == 0:
            yield prefix
            return
        for op, nu in self.canon_ops(nused, full):
            yield from self.canon_seqs(prefix + [list(op)], nu, depth - 1, full)

    @staticmethod
    def nused_of(ops):
        ks = [o[1] for o in ops if len(o) > 1]
        return (max(ks) + 1) if ks else 0

    def rand_prog(self, rng, n, tid, nkeys):
        p = []
        for j in range(n):
            o = rng.choice(["get", "set", "set", "set", "del", "clear", "len", "has", "mget", "keys", "get"])
            if o in ("clear", "len", "keys"):
                p.append([o])
            elif o == "set":
                p.append([o, rng.randrange(nkeys), 100 * (tid + 1) + j])
            else:
                p.append([o, rng.randrange(nkeys)])
        return p

    def rand_mprog(self, rng, n, nkeys):
        p = []
        for _ in range(n):
            o = rng.choice(["g", "g", "g", "g", "c", "l"])
            p.append([o, rng.randrange(nkeys), rng.randrange(4)] if o == "g" else [o])
        return p

    def cases(self, rng, tier, escalate=False):
        """two streams interleaved (period 3, coprime to the shard count) so that a deadline on a loaded machine
        cuts both proportionally: the big exhaustive sequential enumeration, and everything else (random
        sequential, schedules, manager)"""
        a = self.cases_exhaustive(tier, escalate)
        b = self.cases_other(rng, tier, escalate)
        while True:
            y = next(b, None)
            x1 = next(a, None)
            x2 = next(a, None)
            if x1 is None and y is None:
                return
            for c in (y, x1, x2):
                if c is not None:
                    yield c

    def cases_exhaustive(self, tier, escalate=False):
        deep = tier == "thorough" or escalate
        # --- sequential, exhaustive
        L = 7 if deep else 6
        tail = 2
        for cap in (0, 1, 2, 3):
            for pre in self.canon_seqs([], 0, L - tail, False):
                yield {"kind": "seqblock", "cap": cap, "prefix": pre, "depth": tail, "full": False}
            for pre in self.canon_seqs([], 0, 2, True):
                yield {"kind": "seqblock", "cap": cap, "prefix": pre, "depth": 2 if not deep else 3, "full": True}
        # un-reduced keys (no symmetry assumption), short
        for cap in (0, 1, 2, 3):
            ops1 = [[o, k] for o in ("get", "set", "del", "has", "mget") for k in range(NKEYS)] + [["clear"], ["len"], ["keys"]]
            for a in ops1:
                for b in ops1:
                    yield {"kind": "seqblock-raw", "cap": cap, "prefix": [a, b], "depth": 1 if not deep else 2}

    def cases_other(self, rng, tier, escalate=False):
        deep = tier == "thorough" or escalate
        # --- small programs explored COMPLETELY (observed outcome set must equal the model's)
        tiny = [
            (1, [[["set", 0, 101], ["get", 0]], [["set", 0, 201], ["del", 0]]]),
            (0, [[["set", 0, 101], ["has", 0]], [["set", 0, 201], ["keys"]]]),
            (1, [[["set", 0, 101], ["set", 1, 102]], [["mget", 0]], [["clear"]]]),
            (2, [[["set", 0, 101], ["set", 0, 102]], [["set", 1, 201], ["set", 2, 202]]]),
        ]
        for cap, progs in tiny:
            yield {"kind": "explore", "cap": cap, "progs": progs, "bound": 99, "maxruns": 20000}
        mtiny = [
            (2, [[["g", 0, 0]], [["g", 0, 1]]]),
            (1, [[["g", 0, 0], ["g", 1, 0]], [["g", 0, 2]]]),
            (1, [[["g", 0, 0]], [["c"]], [["g", 0, 3]]]),
        ]
        for cap, progs in mtiny:
            yield {"kind": "mexplore", "cap": cap, "progs": progs, "bound": 99, "maxruns": 20000}
        # --- random long sequential (cap up to 5, 6 keys)
        for _ in range(20000 if deep else 1500):
            cap = rng.choice([0, 1, 2, 3, 3, 4, 5])
            n = rng.randint(6, 40)
            ops = []
            for j in range(n):
                o = rng.choice(["get", "set", "set", "set", "del", "clear", "len", "keys", "has", "mget"])
                ops.append([o] if o in ("clear", "len", "keys") else [o, rng.randrange(6)])
            yield {"kind": "seq", "cap": cap, "ops": ops}
        # --- concurrent container: exploration with a pre-emption bound
        fixed = [
            (1, [[["set", 0, 101], ["get", 0]], [["set", 0, 201], ["del", 0]]]),
            (1, [[["set", 0, 101], ["set", 1, 102]], [["set", 2, 201], ["clear"]]]),
            (2, [[["set", 0, 101], ["get", 0], ["set", 1, 103]], [["set", 2, 201], ["set", 3, 202], ["len"]]]),
            (0, [[["set", 0, 101], ["has", 0]], [["set", 0, 201], ["keys"]]]),
            (2, [[["set", 0, 101], ["set", 1, 102]], [["mget", 0], ["set", 2, 202]], [["del", 1], ["clear"]]]),
        ]
        for cap, progs in fixed:
            yield {"kind": "explore", "cap": cap, "progs": progs, "bound": 99 if deep else 3, "maxruns": 6000 if deep else 1200}
        for _ in range(80 if deep else 16):
            nt = rng.choice([2, 2, 3])
            progs = [self.rand_prog(rng, rng.randint(1, 3 if nt == 2 else 2), t, rng.choice([2, 3, 4])) for t in range(nt)]
            yield {"kind": "explore", "cap": rng.randrange(4), "progs": progs, "bound": 99 if deep else 3, "maxruns": 3000 if deep else 500}
        # --- concurrent container: random schedules
        for _ in range(20000 if deep else 3000):
            nt = rng.choice([2, 2, 3])
            progs = [self.rand_prog(rng, rng.randint(1, 3), t, rng.choice([1, 2, 3, 4])) for t in range(nt)]
            yield {"kind": "conc", "cap": rng.randrange(4), "progs": progs,
                   "choices": [rng.randrange(6) for _ in range(60)]}
        # --- manager, sequential
        mops1 = [["g", k, v] for k in range(3) for v in range(4)] + [["c"], ["l"], ["x"], ["r", 0], ["r", 1], ["s", 0]]
        for cap in (0, 1, 2, 3):
            for a in mops1:
                for b in mops1:
                    yield {"kind": "mseq", "cap": cap, "ops": [a, b, ["g", 0, 0], ["x"]]}
        # queue shapes of an idle pool other than "one idle connection": eviction / clear() must still close
        # every open socket, also one lying under a `None` placeholder
        shapes = [[1, 1], [1, 0], [0, 1], [0, 0], [1, 0, 1], [1, 1, 0], [0, 1, 0], [1, 0, 0]]
        for shape in shapes:
            for cap in (0, 1, 2):
                for tail in ([["c"], ["x"]], [["g", 1, 0], ["g", 2, 0], ["x"]], [["g", 1, 0], ["r", 0], ["x"]], [["x"]]):
                    yield {"kind": "mseq", "cap": cap, "shape": shape, "ops": [["g", 0, 0]] + tail}
        for _ in range(12000 if deep else 1200):
            cap = rng.choice([0, 1, 2, 2, 3, 3])
            ops = []
            for _ in range(rng.randint(3, 25)):
                o = rng.choice(["g", "g", "g", "g", "g", "c", "l", "x", "r", "r", "s"])
                if o == "g":
                    ops.append([o, rng.randrange(NKEYS), rng.randrange(4)])
                elif o in ("r", "s"):
                    ops.append([o, rng.randrange(8)])
                else:
                    ops.append([o])
            c = {"kind": "mseq", "cap": cap, "ops": ops}
            if rng.random() < 0.4:
                c["shape"] = rng.choice(shapes)
            yield c
        # --- manager races
        mfixed = [
            (2, [[["g", 0, 0]], [["g", 0, 1]]]),
            (1, [[["g", 0, 0], ["g", 1, 0]], [["g", 0, 2], ["g", 0, 3]]]),
            (2, [[["g", 0, 0], ["c"]], [["g", 0, 1], ["g", 1, 0]], [["g", 0, 3]]]),
        ]
        for cap, progs in mfixed:
            yield {"kind": "mexplore", "cap": cap, "progs": progs, "bound": 99 if deep else 3, "maxruns": 4000 if deep else 1000}
        for _ in range(60 if deep else 12):
            nt = rng.choice([2, 3])
            progs = [self.rand_mprog(rng, rng.randint(1, 2), rng.choice([1, 2, 3])) for _ in range(nt)]
            yield {"kind": "mexplore", "cap": rng.randrange(4), "progs": progs, "bound": 99 if deep else 3, "maxruns": 2000 if deep else 400}
        for _ in range(12000 if deep else 2000):
            nt = rng.choice([2, 2, 3])
            progs = [self.rand_mprog(rng, rng.randint(1, 3), rng.choice([1, 2, 3])) for _ in range(nt)]
            yield {"kind": "mconc", "cap": rng.randrange(4), "progs": progs,
                   "choices": [rng.randrange(6) for _ in range(60)]}

    # ------------------------------------------------------------------ sequential execution
    def run_seq(self, cap, ops, lines, out, res, report_case=None):
        """ops without values get fresh ones.  Returns number of disposals."""
        from urllib3._collections import RecentlyUsedContainer as RUC
        disposed = []
        c = RUC(cap, dispose_func=disposed.append)
        ref = RefLRU(cap)
        lines.append("new %d" % cap)
        out.append("ok")
        inserted = []
        all_disp = []
        probs = []
        full_ops = []
        for j, op in enumerate(ops):
            if op[0] == "set" and len(op) == 2:
                op = [op[0], op[1], j + 1]
            full_ops.append(op)
            if op[0] == "set":
                inserted.append(op[2])
            del disposed[:]
            try:
                r = apply_impl(c, op)
            except Exception as e:  # anything but KeyError is outside the container's contract
                r = "exc:" + type(e).__name__
            items = list(c._container.items())
            lines.append(op_line(op))
            out.append(r + " | " + " ".join(map(str, disposed)) + " | " + show_items(items))
            # ---- oracle (implementation vs the timestamp reference; no Lean involved)
            rr, rd = ref.apply(op)
            if r != rr:
                probs.append(("result", "op %d %s returned %s, LRU-map reference says %s" % (j, op, r, rr)))
            if len(items) > cap:
                probs.append(("bound", "container holds %d > maxsize %d after op %d %s" % (len(items), cap, j, op)))
            if disposed != rd:
                kind = "lru-victim" if (op[0] == "set" and len(rd) == 1 and len(disposed) == 1) else "dispose"
                probs.append((kind, "op %d %s disposed %s, reference (least recently touched / replaced / deleted / "
                                    "cleared values) says %s" % (j, op, disposed, rd)))
            if items != ref.items():
                probs.append(("order", "after op %d %s items are %s, recency order says %s" % (j, op, items, ref.items())))
            all_disp += disposed
        held = [v for _, v in c._container.items()]
        if sorted(all_disp + held) != sorted(inserted):
            dup = sorted({v for v in all_disp if all_disp.count(v) > 1})
            lost = sorted(set(inserted) - set(all_disp) - set(held))
            kind = "dispose-twice" if dup else ("dispose-missing" if lost else "dispose-conservation")
            probs.append((kind, "values inserted %s but held %s + disposed %s (disposed twice: %s, never disposed "
                                "though gone: %s)" % (inserted, held, all_disp, dup, lost)))
        seen = set()
        for kind, what in probs:
            if kind in seen:
                continue
            seen.add(kind)
            res.failures.append(Failure(signature="seq:" + kind, what="RecentlyUsedContainer(maxsize=%d): %s" % (cap, what),
                                        case={"kind": "seq", "cap": cap, "ops": full_ops}))
        return len(all_disp)

    # ------------------------------------------------------------------ concurrent container
    def run_conc(self, cap, progs, chooser, res, case):
        """one scheduled run; returns dict(trace, enabled_sets, lines, out) """
        from urllib3._collections import RecentlyUsedContainer as RUC
        n = len(progs)
        sched = Sched(n, chooser)
        lock = SchedLock(sched)
        sched.lock = lock
        log = []
        viol = []

        def dispose(v):
            tid = sched.tid()
            sched.park(tid, "disp")
            if lock.owner == tid:
                viol.append(("dispose-under-lock", "dispose_func(%r) called by thread %d while it owns the container lock" % (v, tid)))
            log.append((tid, v))

        c = RUC(cap, dispose_func=dispose)
        c.lock = lock
        results = [[] for _ in range(n)]
        lock_ops = []                      # ops in lock order, recorded at acquisition

        def quiescent():
            if len(c._container) > cap and lock.owner is None:
                viol.append(("bound", "container holds %d > maxsize %d with the lock free" % (len(c._container), cap)))
        sched.on_quiescent = quiescent
        cur = [None] * n

        def body(tid):
            def run():
                for op in progs[tid]:
                    cur[tid] = op
                    try:
                        r = apply_impl(c, op)
                    except Hang:
                        raise
                    except Exception as e:
                        r = "exc:" + type(e).__name__
                    results[tid].append(r)
            return run
        hang = False
        try:
            sched.run([body(t) for t in range(n)])
        except Hang:
            hang = True
            viol.append(("hang", "threads blocked / did not reach a scheduling point (deadlock or lock not released)"))
        items = list(c._container.items())
        disp_vals = [v for _, v in log]
        # ---- oracle: linearizability against the python reference LRU
        order = [t for t in lock.order if t >= 0]
        if not hang:
            if lock_order_fits(order, progs):
                # every operation took the lock once: the linearization order is the lock order
                rres, ritems, rdisp = ref_run_container(cap, progs, order)
                if rres != results or ritems != items:
                    viol.append(("not-linearizable", "results %s / items %s differ from the sequential execution in lock "
                                                     "order %s: %s / %s" % (results, items, order, rres, ritems)))
                if rdisp != sorted(disp_vals):
                    dup = sorted({v for v in disp_vals if disp_vals.count(v) > 1})
                    kind = "dispose-twice" if dup else "dispose-multiset"
                    viol.append((kind, "dispose calls %s differ from the sequential execution's %s" % (sorted(disp_vals), rdisp)))
            else:
                # other locking structure: is there ANY sequential order explaining the observation?
                res.bump("lock_count_mismatch")
                obs = (results, items, sorted(disp_vals))
                if not any(ref_run_container(cap, progs, o) == obs for o in merges([len(p) for p in progs])):
                    viol.append(("not-linearizable", "results %s / items %s / disposed %s are not those of any sequential "
                                                     "order of the operations" % obs))
            inserted = sorted(o[2] for p in progs for o in p if o[0] == "set")
            if sorted(disp_vals + [v for _, v in items]) != inserted:
                viol.append(("dispose-conservation", "inserted %s != held %s + disposed %s" % (inserted, items, disp_vals)))
            if len(items) > cap:
                viol.append(("bound", "final size %d > maxsize %d" % (len(items), cap)))
        seen = set()
        for kind, what in viol:
            if kind in seen:
                continue
            seen.add(kind)
            res.failures.append(Failure(signature="conc:" + kind, what="RecentlyUsedContainer(maxsize=%d), threads %s, schedule %s: %s"
                                        % (cap, progs, dots(sched.trace), what),
                                        case={"kind": "conc", "cap": cap, "progs": progs, "prefix": list(sched.trace)}))
        ptok = progs_token(progs)
        outcome = ("R" + "/".join(",".join(r) if r else "-" for r in results) + "|I" + show_items(items)
                   + "|D" + dots(sorted(disp_vals)))
        lines = ["conc %d %s %s" % (cap, ptok, dots(sched.trace)),
                 "member %d %s %s" % (cap, ptok, outcome)]
        out = [("open " if hang else "done ") + outcome + "|L" + (",".join("%d:%d" % e for e in log) if log else "-") + "|H" + dots(order),
               "in"]
        return {"trace": list(sched.trace), "enabled": list(sched.enabled_sets), "lines": lines, "out": out,
                "ndisp": len(log), "hang": hang, "outcome": outcome, "setline": "outcomes %d %s" % (cap, ptok)}

    # ------------------------------------------------------------------ manager
    def new_manager(self, cap, maxsize=1):
        from urllib3.poolmanager import PoolManager
        registry = []
        pm = PoolManager(num_pools=cap, maxsize=maxsize)
        cls = make_pool_class(registry)
        pm.pool_classes_by_scheme = {"http": cls, "https": cls}
        return pm, registry

    @staticmethod
    def cache_items(pm):
        return [(key_of(k), p.vid) for k, p in pm.pools._container.items()]

    def check_cached_open(self, pm, registry, viol):
        for k, p in pm.pools._container.items():
            if p.pool is None:
                viol.append(("cached-pool-closed", "pool #%d for origin %d is still cached but was closed" % (p.vid, key_of(k))))
            for cn in registry[p.vid]["conns"]:
                if not cn.is_open:
                    viol.append(("cached-pool-closed", "a connection of cached pool #%d was closed" % p.vid))

    def run_mseq(self, case, res):
        cap, ops = case["cap"], case["ops"]
        # what a pool's queue looks like when it becomes idle (bottom -> top): 1 = an idle open connection,
        # 0 = a `None` placeholder left by a request whose connection was thrown away.  A live connection
        # may sit UNDER a placeholder (two requests in flight, the first released, the second failed).
        shape = case.get("shape") or [1]
        pm, registry = self.new_manager(cap, len(shape))
        lines, out = ["mnew %d" % cap], ["ok"]
        held = []                       # strong references = callers / in-flight responses
        last_for_key = {}               # origin -> pool object handed out while the origin stayed cached
        closed_seen = set()
        viol = []
        for j, op in enumerate(ops):
            o = op[0]
            if o == "g":
                k = op[1]
                before = len(registry)
                try:
                    p = fetch_pool(pm, k, op[2])
                except Exception as e:
                    viol.append(("exception", "connection_from_* raised %s: %s" % (type(e).__name__, e)))
                    break
                fresh = len(registry) > before
                if fresh:
                    # the pool's slots are all used once and come back as `shape` says
                    cns = [p._get_conn() for _ in shape]
                    for cn, live in zip(cns, shape):
                        if live:
                            p._put_conn(cn)
                        else:
                            # thrown away by its request (as urlopen does): no longer the pool's business
                            cn.close()
                            registry[p.vid]["conns"].remove(cn)
                            p._put_conn(None)
                    del cns, cn
                held.append(p)
                lines.append("goc %d" % k)
                r = "p%d%s" % (p.vid, "+" if fresh else "=")
                if k in last_for_key and last_for_key[k] is not p:
                    viol.append(("same-key-different-pool", "origin %d stayed cached but request %d got pool #%d instead of #%d"
                                 % (k, j, p.vid, last_for_key[k].vid)))
                last_for_key[k] = p
                del p
            elif o == "c":
                pm.clear()
                lines.append("mclear")
                r = "ok"
            elif o == "l":
                lines.append("mlen")
                r = "n%d" % len(pm.pools)
            elif o == "r":
                lines.append("release %d" % op[1])
                r = "ok"
                for i, p in enumerate(held):
                    if p.vid == op[1]:
                        # the in-flight response finishes: its connection goes back to (possibly evicted) pool
                        try:
                            cn = p._get_conn()
                            p._put_conn(cn)
                        except Exception as e:
                            viol.append(("in-flight-broken", "pool #%d (held by a caller) refused to hand out / take back a "
                                                             "connection: %s" % (p.vid, type(e).__name__)))
                        del held[i]
                        break
                p = None
            elif o == "s":
                # a caller (e.g. PoolManager.urlopen following a redirect) asks held pool #vid whether two URLs are
                # its own origin: using a pool's API must not keep the pool alive once it is evicted and dropped
                for p in held:
                    if p.vid == op[1]:
                        p.is_same_host("http://%s/x" % HOSTS[0])
                        p.is_same_host("http://%s:80/y" % registry[p.vid]["host"])
                        p.is_same_host("/relative")
                p = None
                continue                    # not an operation of the cache: no protocol line
            elif o == "x":
                lines.append("gc")
                gc.collect()
                cached_ids = {p.vid for p in pm.pools._container.values()}
                held_ids = {p.vid for p in held}
                now = []
                for vid, ent in enumerate(registry):
                    conns = ent["conns"]
                    alive = ent["ref"]() is not None
                    if vid in cached_ids or vid in held_ids:
                        if any(not cn.is_open for cn in conns):
                            viol.append(("closed-while-in-use", "pool #%d is %s but one of its connections was closed"
                                         % (vid, "cached" if vid in cached_ids else "still referenced by a caller")))
                        continue
                    if alive or any(cn.is_open for cn in conns):
                        viol.append(("evicted-pool-leak", "pool #%d left the cache and is unreferenced, but after gc %s"
                                     % (vid, "the pool object is still alive" if alive else "a connection (socket) is still open")))
                    elif vid not in closed_seen:
                        if any(cn.close_calls != 1 for cn in conns):
                            viol.append(("evicted-pool-close-count", "connections of pool #%d closed %s times"
                                         % (vid, [cn.close_calls for cn in conns])))
                        closed_seen.add(vid)
                        now.append(vid)
                r = "closed" + dots(sorted(now))
            else:
                raise ValueError(o)
            items = self.cache_items(pm)
            out.append(r + " | " + show_items(items))
            cached_keys = {k for k, _ in items}
            for k in list(last_for_key):
                if k not in cached_keys:
                    del last_for_key[k]
            if len(items) > cap:
                viol.append(("bound", "PoolManager(num_pools=%d) holds %d pools" % (cap, len(items))))
            self.check_cached_open(pm, registry, viol)
        seen = set()
        for kind, what in viol:
            if kind in seen:
                continue
            seen.add(kind)
            res.failures.append(Failure(signature="mgr:" + kind, what="PoolManager(num_pools=%d) ops %s: %s" % (cap, ops, what), case=case))
        del held[:]
        return lines, out

    def run_mconc(self, cap, progs, chooser, res):
        pm, registry = self.new_manager(cap)
        n = len(progs)
        sched = Sched(n, chooser)
        lock = SchedLock(sched)
        sched.lock = lock
        pm.pools.lock = lock
        results = [[] for _ in range(n)]
        got = [[] for _ in range(n)]       # (step of the return, key, pool)
        viol = []

        def quiescent():
            if lock.owner is None and len(pm.pools._container) > cap:
                viol.append(("bound", "PoolManager(num_pools=%d) holds %d pools with the lock free" % (cap, len(pm.pools._container))))
        sched.on_quiescent = quiescent

        def body(tid):
            def run():
                for op in progs[tid]:
                    if op[0] == "g":
                        before = len(registry)
                        p = fetch_pool(pm, op[1], op[2])
                        # fresh = the pool was created during this call by this thread
                        fresh = p.vid >= before and registry[p.vid]["maker"] == threading.get_ident()
                        results[tid].append("p%d%s" % (p.vid, "+" if fresh else "="))
                        got[tid].append((op[1], p))
                    elif op[0] == "c":
                        pm.clear()
                        results[tid].append("ok")
                    else:
                        results[tid].append("n%d" % len(pm.pools))
            return run
        hang = False
        try:
            sched.run([body(t) for t in range(n)])
        except Hang:
            hang = True
            viol.append(("hang", "threads blocked / did not reach a scheduling point"))
        items = self.cache_items(pm)
        order = [t for t in lock.order if t >= 0]
        if not hang:
            # linearizability of get-or-create / clear against the reference (pool ids in creation order)
            if lock_order_fits(order, progs):
                rres, ritems = ref_run_manager(cap, progs, order)
                if rres != results or ritems != items:
                    viol.append(("same-key-different-pool" if len({r for rs in results for r in rs if r.endswith("+")}) >
                                 len({r for rs in rres for r in rs if r.endswith("+")}) else "not-linearizable",
                                 "results %s / cache %s differ from get-or-create in lock order %s: %s / %s"
                                 % (results, items, order, rres, ritems)))
            else:
                res.bump("lock_count_mismatch")
                obs = canon_pools(results, items)
                if not any(canon_pools(*ref_run_manager(cap, progs, o)) == obs for o in merges([len(p) for p in progs])):
                    viol.append(("not-linearizable", "results %s / cache %s are not those of any sequential order of the "
                                                     "requests (pool ids up to renaming)" % (results, items)))
            # direct clause: all pools handed out for an origin that never left the cache are one object
            if not any(op[0] == "c" for p in progs for op in p) and cap >= len({op[1] for p in progs for op in p if op[0] == "g"}):
                byk = {}
                for t in range(n):
                    for k, p in got[t]:
                        byk.setdefault(k, set()).add(p.vid)
                for k, s in byk.items():
                    if len(s) > 1:
                        viol.append(("same-key-different-pool", "origin %d never left the cache, yet racing requests obtained "
                                                                "different pools %s" % (k, sorted(s))))
            if len(items) > cap:
                viol.append(("bound", "final cache size %d > num_pools %d" % (len(items), cap)))
            self.check_cached_open(pm, registry, viol)
            # give every pool an idle connection, drop all references, collect: census
            for t in range(n):
                for _, p in got[t]:
                    if p.pool is not None and not registry[p.vid]["conns"]:
                        cn = p._get_conn()
                        p._put_conn(cn)
                    p = None
            for g in got:
                del g[:]
            gc.collect()
            cached_ids = {v for _, v in items}
            for vid, ent in enumerate(registry):
                if vid in cached_ids:
                    if any(not cn.is_open for cn in ent["conns"]):
                        viol.append(("cached-pool-closed", "a connection of cached pool #%d was closed" % vid))
                elif ent["ref"]() is not None or any(cn.is_open for cn in ent["conns"]):
                    viol.append(("evicted-pool-leak", "pool #%d left the cache, nothing references it, but it is %s after gc"
                                 % (vid, "alive" if ent["ref"]() is not None else "holding an open connection")))
        seen = set()
        for kind, what in viol:
            if kind in seen:
                continue
            seen.add(kind)
            res.failures.append(Failure(signature="mconc:" + kind, what="PoolManager(num_pools=%d), threads %s, schedule %s: %s"
                                        % (cap, progs, dots(sched.trace), what),
                                        case={"kind": "mconc", "cap": cap, "progs": progs, "prefix": list(sched.trace)}))
        ptok = progs_token(progs, lambda o: ":".join([o[0]] + ([str(o[1])] if o[0] == "g" else [])))
        dropped = sorted(set(range(len(registry))) - {v for _, v in items})
        outcome = ("R" + "/".join(",".join(r) if r else "-" for r in results) + "|I" + show_items(items) + "|X" + dots(dropped))
        lines = ["mconc %d %s %s" % (cap, ptok, dots(sched.trace)), "mmember %d %s %s" % (cap, ptok, outcome)]
        out = [("open " if hang else "done ") + outcome + "|L-|H" + dots(order), "in"]
        return {"trace": list(sched.trace), "enabled": list(sched.enabled_sets), "lines": lines, "out": out, "hang": hang,
                "outcome": outcome, "setline": "moutcomes %d %s" % (cap, ptok)}

    # ------------------------------------------------------------------ exploration
    def explore(self, runner, bound, maxruns, res):
        """all schedules with at most `bound` pre-emptions (depth-first over re-executions).  When the exploration
        is complete (no pre-emption bound hit, not truncated) the set of observed outcomes must EQUAL the model's
        outcome set (`outcomes` line), not only be included in it."""
        lines, out = [], []
        stack = [[]]
        runs = 0
        observed = set()
        setline = None
        clean = True
        while stack and runs < maxruns:
            prefix = stack.pop()
            r = runner(chooser_from_prefix(prefix))
            runs += 1
            lines += r["lines"]
            out += r["out"]
            observed.add(r["outcome"])
            setline = r["setline"]
            if r["hang"] or len(res.failures) > 20:
                clean = False
                break
            tr, en = r["trace"], r["enabled"]
            for j in range(len(tr) - 1, len(prefix) - 1, -1):
                for alt in en[j]:
                    if alt != tr[j]:
                        cand = tr[:j] + [alt]
                        if preemptions(cand, en) <= bound:
                            stack.append(cand)
        res.bump("schedules_explored", runs)
        if stack:
            res.bump("explore_truncated")
        elif clean and bound >= 99 and setline:
            res.bump("explore_complete")
            lines.append(setline)
            out.append(" ".join(sorted(observed)))
        return lines, out

    # ------------------------------------------------------------------ engine hooks
    def execute(self, case, res):
        kind = case["kind"]
        res.bump("kind:" + kind)
        lines, out = [], []
        if kind == "seq":
            nd = self.run_seq(case["cap"], case["ops"], lines, out, res)
            res.bump("seq_ops", len(case["ops"]))
            res.bump("disposals", nd)
        elif kind in ("seqblock", "seqblock-raw"):
            if kind == "seqblock":
                seqs = self.canon_seqs(list(case["prefix"]), self.nused_of(case["prefix"]), case["depth"], case["full"])
            else:
                ops1 = [[o, k] for o in ("get", "set", "del", "has", "mget") for k in range(NKEYS)] + [["clear"], ["len"], ["keys"]]
                seqs = (list(case["prefix"]) + list(t) for t in itertools.product(ops1, repeat=case["depth"]))
            nd = 0
            ns = 0
            for s in seqs:
                nd += self.run_seq(case["cap"], s, lines, out, res)
                ns += 1
                if len(res.failures) > 50:
                    break
            res.bump("sequences", ns)
            res.bump("seq_ops", ns * (len(case["prefix"]) + case["depth"]))
            res.bump("disposals", nd)
        elif kind == "conc":
            ch = chooser_from_prefix(case["prefix"]) if "prefix" in case else chooser_from_choices(case["choices"])
            r = self.run_conc(case["cap"], case["progs"], ch, res, case)
            lines, out = r["lines"], r["out"]
            res.bump("schedules_random", 1)
            res.bump("threads:%d" % len(case["progs"]))
        elif kind == "explore":
            lines, out = self.explore(lambda ch: self.run_conc(case["cap"], case["progs"], ch, res, case),
                                      case["bound"], case["maxruns"], res)
        elif kind == "mseq":
            lines, out = self.run_mseq(case, res)
            res.bump("mgr_ops", len(case["ops"]))
        elif kind == "mconc":
            ch = chooser_from_prefix(case["prefix"]) if "prefix" in case else chooser_from_choices(case["choices"])
            r = self.run_mconc(case["cap"], case["progs"], ch, res)
            lines, out = r["lines"], r["out"]
            res.bump("mgr_schedules_random", 1)
        elif kind == "mexplore":
            lines, out = self.explore(lambda ch: self.run_mconc(case["cap"], case["progs"], ch, res),
                                      case["bound"], case["maxruns"], res)
        else:
            raise ValueError(kind)
        return lines, out

    def nontrivial(self, case, impl_out):
        if case["kind"] in ("conc", "explore", "mconc", "mexplore"):
            return True
        if case["kind"] == "mseq":
            return any(o.startswith("closed") and not o.startswith("closed-") for o in impl_out)
        return any(len(o.split(" | ")) > 1 and o.split(" | ")[1] != "" for o in impl_out)

    def shrink_candidates(self, case):
        kind = case["kind"]
        if kind in ("seq", "mseq"):
            ops = case["ops"]
            for i in range(len(ops)):
                c = dict(case)
                c["ops"] = ops[:i] + ops[i + 1:]
                yield c
        elif kind == "seqblock":
            for s in self.canon_seqs(list(case["prefix"]), self.nused_of(case["prefix"]), case["depth"], case["full"]):
                yield {"kind": "seq", "cap": case["cap"], "ops": s}
        elif kind == "seqblock-raw":
            ops1 = [[o, k] for o in ("get", "set", "del", "has", "mget") for k in range(NKEYS)] + [["clear"], ["len"], ["keys"]]
            for t in itertools.product(ops1, repeat=case["depth"]):
                yield {"kind": "seq", "cap": case["cap"], "ops": list(case["prefix"]) + list(t)}
        elif kind in ("conc", "mconc"):
            progs = case["progs"]
            for t in range(len(progs)):
                for i in range(len(progs[t])):
                    c = {k: v for k, v in case.items() if k != "prefix"}
                    c["progs"] = [p if u != t else p[:i] + p[i + 1:] for u, p in enumerate(progs)]
                    if "choices" not in c:
                        c["choices"] = []
                    yield c


PROP = C17()
