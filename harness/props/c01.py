"""C01 — a pool never loses, duplicates or leaks connection slots, whatever the outcome.

Correspondence: every history (requests with a per-ATTEMPT fault script — outcomes of connect / send / recv,
and failures outside the I/O steps: before the checkout (invalid timeout, file-like body that cannot be
rewound), in the checkout itself (negative `pool_timeout` on a blocking pool) and between two attempts (the wait
raises) —, ways of disposing of the
response, pool.close()) is run on the real `HTTPConnectionPool` over the in-memory network
(`harness/net.py`) and on `U3.Pool.step` (driver `pool`); per op the per-socket event trace
(connect / send / recv / close, `_put_conn` calls), the queue content and the result class are
compared.  Direct and forwarding-proxy pools are modelled; tunnelling-proxy pools run through the
oracle only.

Oracle (implementation only, the property text): at quiescence exactly N slots, no connection
queued twice, every socket not idle in the pool closed, block=True never more than N sockets open,
every failure a urllib3 exception, injected BaseExceptions propagate unchanged.
"""
from __future__ import annotations

import errno
import gc
import io
import itertools
import re
import socket
import sys
import types
import warnings

from ..core import Prop, Failure, enc

HOST = "h"
PROXY = ("proxy", 3128)

# ------------------------------------------------------------------ outcome alphabet (per attempt)


def att(connect="ok", send="ok", head=None, body=0, stray=0, after="silent", seg=0, chunks=None, trailers=(), hold=0,
        smuggle=False, pre="ok", wait="ok"):
    """one attempt of the environment script.  `chunks`: chunk sizes (each 1..15, summing up to `body`) of a
    `Transfer-Encoding: chunked` reply, `trailers`: content lengths of its trailer lines, `hold`: the last `hold`
    bytes of what follows the head (body / chunk framing / trailer section / stray bytes) are held back by the server
    and only delivered when the next request arrives on that connection (before that request's own reply).
    `pre`: what rewinding a file-like request body does at the entry of this urlopen invocation ("ok" / "unrewind":
    `seek()` raises OSError), consulted only when the invocation has a recorded body position.  `wait`: what the wait
    after this attempt's response does when urlopen retries / redirects it and it carries `Retry-After` ("ok":
    `Retry-After: 0`; "invalid": `Retry-After: soon` -> InvalidHeader; "intr": `Retry-After: 1` and the patched
    `time.sleep` raises the injected KeyboardInterrupt)"""
    a = {"connect": connect, "send": send, "head": head, "body": body, "stray": stray, "after": after, "seg": seg}
    if pre != "ok":
        a["pre"] = pre
    if wait != "ok":
        a["wait"] = wait
    if chunks is not None:
        a["chunks"] = list(chunks)
        a["trailers"] = list(trailers)
        if smuggle:
            a["smuggle"] = True
    if hold:
        a["hold"] = hold
    return a


def hd(status=200, close=False, cl="auto", loc=False, ra=False):
    return {"status": status, "close": close, "cl": cl, "loc": loc, "ra": ra}


OUTCOMES = {
    "ok": att(head=hd(), body=5),
    "ok-close": att(head=hd(close=True), body=5, after="fin"),
    "ok-untilclose": att(head=hd(cl=None), body=5, after="fin"),
    "ok-big": att(head=hd(), body=40, seg=16),
    "204": att(head=hd(204, cl=None)),
    "short-silent": att(head=hd(cl=9), body=3),
    "short-fin": att(head=hd(cl=9), body=3, after="fin"),
    "body-reset": att(head=hd(cl=9), body=3, after="reset"),
    "body-intr": att(head=hd(cl=9), body=3, after="intr"),
    "stray": att(head=hd(), body=5, stray=7),
    "ok-chunked": att(head=hd(cl=None), body=5, chunks=[3, 2], trailers=[4]),
    "chunked-held": att(head=hd(cl=None), body=5, chunks=[3, 2], trailers=[4, 9], hold=8),
    # the peer ends a chunked reply early (the held tail never arrives): right after the last-chunk line (EOF where
    # the terminating empty line should be), inside the trailer section, before the last-chunk line, inside a chunk.
    # (No cut INSIDE a chunk-size line: the model reads a framing line `<digit>\r\n` atomically, like a head, while
    # `int(b"0", 16)` also accepts the line without its line end; DESIGN.md section 10.)
    "chunked-cut-end": att(head=hd(cl=None), body=5, chunks=[3, 2], hold=2, after="fin"),
    "chunked-cut-trailer": att(head=hd(cl=None), body=5, chunks=[3, 2], trailers=[4, 9], hold=8, after="fin"),
    "chunked-cut-last": att(head=hd(cl=None), body=5, chunks=[3, 2], hold=5, after="fin"),
    "chunked-cut-data": att(head=hd(cl=None), body=5, chunks=[3, 2], hold=8, after="fin"),
    "302": att(head=hd(302, loc=True), body=2),
    "302-close": att(head=hd(302, close=True, loc=True), body=2, after="fin"),
    "500": att(head=hd(500), body=3),
    "503-ra": att(head=hd(503, ra=True), body=3),
    "503-ra-bad": att(head=hd(503, ra=True), body=3, wait="invalid"),
    "503-ra-intr": att(head=hd(503, ra=True), body=3, wait="intr"),
    "302-ra": att(head=hd(302, loc=True, ra=True), body=2),
    "302-ra-bad": att(head=hd(302, loc=True, ra=True), body=2, wait="invalid"),
    "302-ra-intr": att(head=hd(302, loc=True, ra=True), body=2, wait="intr"),
    "303": att(head=hd(303, loc=True), body=2),
    "ok-unrewind": att(head=hd(), body=5, pre="unrewind"),
    "conn-refused": att(connect="refused"),
    "conn-timeout": att(connect="timeout"),
    "conn-nameres": att(connect="nameres"),
    "conn-intr": att(connect="intr"),
    "send-epipe": att(send="epipe"),
    "send-reset": att(send="reset"),
    "send-oserr": att(send="oserr"),
    "send-intr": att(send="intr"),
    "recv-timeout": att(),
    "recv-reset": att(after="reset"),
    "recv-eof": att(after="fin"),
    "recv-garbage": att(head="garbage"),
    "recv-intr": att(after="intr"),
}
NAMES = list(OUTCOMES)
BENIGN = "ok"

DISPOSALS = [["readall"], ["readkrel", 2], ["release"], ["drain"], ["close"], ["with"], ["drop"], ["stream", 3],
             ["readk", 2]]
SETTLING = {"preloaded", "readall", "readkrel", "release", "drain", "close", "with", "stream"}

CONFIGS_QUICK = [
    dict(maxsize=1, block=True, proxy="none"),
    dict(maxsize=1, block=False, proxy="none"),
    dict(maxsize=2, block=True, proxy="none"),
    dict(maxsize=2, block=False, proxy="forward"),
    dict(maxsize=1, block=True, proxy="forward"),
    dict(maxsize=1, block=True, proxy="tunnel"),
    dict(maxsize=2, block=False, proxy="tunnel"),
]
REQCFGS = [
    dict(retries=False, preload=True, release=None),
    dict(retries=0, preload=False, release=None),
    dict(retries=1, preload=True, release=None),
    dict(retries=1, preload=False, release=None),
    dict(retries=2, preload=False, release=True),
    dict(retries=1, preload=True, release=False),
]
# per-request keywords that make `urlopen` fail outside the I/O steps of an attempt: `body="file"` a file-like body
# (rewound at every retry / redirect hop; `seek()` fails where the script says `pre="unrewind"`), `bodypos=True` the
# caller passes `body_pos=0` (the first invocation rewinds, too), `badtimeout=True` passes `timeout=-1` (rejected by
# `Timeout`: ValueError, the caller's own argument error), `badpooltimeout=True` passes `pool_timeout=-1` (rejected
# by `queue.get(block=True, timeout=-1)` inside `_get_conn`: ValueError on a block=True pool — the caller's own
# argument error again; a block=False pool never looks at `pool_timeout`), `badheader=True` passes
# `headers={"X-Bad": "\u0100"}`: the request is rejected on the client side AFTER the checkout, between `putrequest()`
# and `endheaders()` (`putheader` cannot encode the value as latin-1: UnicodeEncodeError, a ValueError that none of
# urlopen's handlers matches) -> not a byte is written, the connection object (whose output buffer holds the request
# line) is thrown away, the exception reaches the caller unretried
EXTRA_KW = [
    dict(body="file"),
    dict(body="file", bodypos=True),
    dict(badtimeout=True),
    dict(body="file", badtimeout=True),
    dict(badpooltimeout=True),
    dict(body="file", badpooltimeout=True),
    dict(badheader=True),
    dict(body="file", badheader=True),
]
BAD_HEADER = {"X-Bad": "\u0100"}
# outcomes after which urlopen goes on to another invocation (given budget), and the failures between the attempts
HOP_OUTCOMES = ["302", "302-close", "302-ra", "303", "503-ra", "conn-refused", "recv-reset", "send-reset"]
WAIT_FAILURES = ["503-ra-bad", "503-ra-intr", "302-ra-bad", "302-ra-intr"]

# ------------------------------------------------------------------ class names (as in U3.Gen.Pool)

_SPECIAL = {socket.gaierror: "Gaierror"}


def cls_name(cls) -> str:
    import http.client
    import ssl
    if cls in _SPECIAL:
        return _SPECIAL[cls]
    if cls is Interrupt:
        return "KeyboardInterrupt"
    if cls is ssl.SSLError:
        return "SslSSLError"
    if cls is ssl.SSLCertVerificationError:
        return "SslCertVerificationError"
    if cls is http.client.IncompleteRead:
        return "HttpIncompleteRead"
    if issubclass(cls, UnicodeError):
        return "ValueError"          # `UnicodeEncodeError` from `putheader`: the model's class table has its base class
    if cls.__module__ == "urllib3.exceptions":
        return "U3" + cls.__name__
    return cls.__name__


def reply_body(rid: int, j: int, n: int) -> bytes:
    pat = b"<r%da%d>" % (rid, j)
    return (pat * (n // len(pat) + 1))[:n]


STRAY = b"HTTP/1.1 200 OK\r\nContent-Length: 6\r\n\r\nSTRAY!"


def stray_bytes(n: int) -> bytes:
    return (STRAY * (n // len(STRAY) + 1))[:n]


SMUGGLE_LINES = [b"HTTP/1.1 200 OK", b"Content-Length: 6"]


def trailer_lines(a: dict):
    """the trailer fields of a chunked reply: opaque `X-T<i>: ...` lines of the scripted lengths; with `smuggle` the
    second and third line are a status line and a Content-Length field (trailer smuggling)"""
    out = []
    for i, m in enumerate(a.get("trailers", ())):
        if a.get("smuggle") and 1 <= i <= len(SMUGGLE_LINES):
            out.append(SMUGGLE_LINES[i - 1])
        else:
            out.append((b"X-T%d: " % i + b"abcdefghijklmnopqrstuvwxyz")[:max(m, 1)])
    return out


def chunked_wire(a: dict, body: bytes) -> bytes:
    """the chunked coding of `body`: the scripted chunk sizes, what is left over as one more chunk, the last-chunk,
    the trailer section and the empty line"""
    out, pos = b"", 0
    for n in a["chunks"]:
        if n <= 0 or pos >= len(body):
            continue
        piece = body[pos:pos + n]
        out += b"%x\r\n" % len(piece) + piece + b"\r\n"
        pos += len(piece)
    if pos < len(body):
        out += b"%x\r\n" % (len(body) - pos) + body[pos:] + b"\r\n"
    out += b"0\r\n"
    for ln in trailer_lines(a):
        out += ln + b"\r\n"
    return out + b"\r\n"


def is_chunked(a: dict) -> bool:
    return isinstance(a.get("head"), dict) and a.get("chunks") is not None


def split_reply(rid: int, j: int, a: dict, method: str):
    """(bytes sent at once, bytes held back until the next request arrives on the connection)"""
    head, body, stray, _ = build_reply(rid, j, a, method)
    post = (chunked_wire(a, body) if is_chunked(a) else body) + stray
    hold = min(a.get("hold", 0), len(post)) if head else 0
    return head + post[:len(post) - hold], post[len(post) - hold:]


RETRY_AFTER = {"ok": "0", "invalid": "soon", "intr": "1"}
_TARGET = re.compile(r"/r(\d+)$")


NOISE_HEADERS = [[], [], ["Keep-Alive: timeout=5, max=100"], ["Connection: keep-alive", "Keep-Alive: timeout=30"], [],
                 ["Server: s/1.0", "Date: Tue, 29 Sep 2026 00:00:00 GMT"], ["Keep-Alive: timeout=1"], ["Vary: Accept-Encoding"]]


def build_reply(rid: int, j: int, a: dict, method: str):
    """(head bytes, body bytes, stray bytes, model head token)"""
    h = a["head"]
    if h is None:
        return b"", b"", b"", "none"
    if h == "garbage":
        return b"GARBAGE\r\n", b"", b"", "garbage"
    body = reply_body(rid, j, a["body"])
    cl = h["cl"]
    if cl == "auto":
        cl = len(body)
    if is_chunked(a):
        cl = None
    lines = ["HTTP/1.1 %d X" % h["status"]]
    if is_chunked(a):
        lines.append("Transfer-Encoding: chunked")
    if cl is not None:
        lines.append("Content-Length: %d" % cl)
    if h["close"]:
        lines.append("Connection: close")
    if h["loc"]:
        lines.append("Location: /r%d" % rid)
    if h["ra"]:
        lines.append("Retry-After: " + RETRY_AFTER[a.get("wait", "ok")])
    # hop-by-hop / informational fields a real server adds and urllib3 must not act on when deciding whether a
    # pooled connection is clean (deterministic in the request and attempt number; part of the opaque head)
    lines += NOISE_HEADERS[(rid * 7 + j * 3) % len(NOISE_HEADERS)] if not h["close"] else []
    head = ("\r\n".join(lines) + "\r\n\r\n").encode()
    tok = "%d:%d:%s:%d:%d:%d" % (h["status"], int(h["close"]), "~" if cl is None else str(cl), int(h["loc"]), int(h["ra"]),
                                 int(is_chunked(a)))
    return head, body, stray_bytes(a["stray"]), tok


def attempt_token(rid, j, a, method):
    head, body, stray, tok = build_reply(rid, j, a, method)
    trailers = [len(t) for t in trailer_lines(a)]
    return ",".join([a["connect"], a["send"], tok, str(max(len(head), 1)), enc(body), enc(stray), a["after"], str(a["seg"]),
                     enc(bytes(a.get("chunks") or [])), enc(bytes(trailers)), str(a.get("hold", 0)),
                     a.get("pre", "ok"), a.get("wait", "ok")])


_CTX = []


def shared_ssl_context():
    """one unverified context per process (building one loads the system trust store: 50 ms)"""
    if not _CTX:
        import ssl
        from urllib3.util.ssl_ import create_urllib3_context
        _CTX.append(create_urllib3_context(cert_reqs=ssl.CERT_NONE))
    return _CTX[0]


class Interrupt(KeyboardInterrupt):
    """the injected BaseException (a KeyboardInterrupt, so that nothing can mistake it)"""


class ScriptBody(io.BytesIO):
    """a file-like request body: `tell()` works, `seek()` raises OSError at the urlopen invocations whose attempt
    record says `pre="unrewind"` (a body that cannot be rewound for that hop)"""

    def __init__(self, world):
        super().__init__(b"data")
        self.world = world

    def seek(self, pos, whence=0):
        a = self.world.attempt
        if a is not None and a.get("pre", "ok") == "unrewind":
            raise OSError(errno.ESPIPE, "Illegal seek")
        return super().seek(pos, whence)


class World:
    """one pool over one in-memory network, with the per-attempt script installed"""

    def __init__(self, cfg):
        from ..net import Net, Server
        self.cfg = cfg
        self.net = Net()
        self.attempt = None          # the attempt record of the urlopen invocation now running
        self.att_rid = None
        self.att_idx = -1
        self.script = []
        self.exhausted = False
        self.send_fired = False
        self.connect_used = False
        self.injected = []           # Interrupt instances raised (by a hook) so far in this op
        self.armed = []              # every Interrupt instance ever created (some fire later, in a read)
        self.resps = {}              # rid -> response handed to the caller (None once dropped)
        self.bound_sig = None
        self.max_open = 0
        self.method = "GET"
        self.made = {}               # (rid, j) -> _make_request returned a response
        self.dirty = set()           # (rid, j): request arrived on a connection that was not clean
        self.dirty_cause = {}        # (rid, j) -> rid of the previous exchange on that connection
        self.req_ops = {}            # rid -> the request op
        self.sent_body = {}          # (rid, j) -> body bytes sent for that attempt
        self.last_attempt = {}       # rid -> j of the last attempt started
        self.sock_history = {}       # sid -> description of the previous reply on that socket
        self.inv_conn = False        # the urlopen invocation now running has taken a connection out of the pool
        self.put_without_checkout = False   # `_put_conn(None)` on an open pool by an invocation that took nothing
        self.get_raised = None       # class of what `_get_conn` raised in the urlopen invocation now running
        self.pwc_sig = ""            # classifier of the first put-without-checkout seen
        self.sleeps = []
        self.foreign_requests = []   # (rid of the call now running, target the server saw): a request head that is not
        #                              the one the running call is making reached the server
        net = self.net
        orig_log = net.log

        def log(*ev):
            orig_log(*ev)
            n = sum(1 for s in net.socks if s.connected and not s.really_closed)
            if n > self.max_open:
                self.max_open = n
                if cfg["block"] and n > cfg["maxsize"] and self.bound_sig is None:
                    # classify at the moment the bound is exceeded
                    detached = [rid for rid, r in self.resps.items()
                                if r is not None and r._connection is None and r._fp is not None
                                and hasattr(r._fp, "isclosed") and not r._fp.isclosed()]
                    self.bound_sig = "block-bound-exceeded" + (self.pwc_sig if self.put_without_checkout else
                                                               ":unread-response-after-release" if detached else "")
        net.log = log
        net.connect_hook = self.on_connect
        net.send_hook = self.on_send
        net.resolve = self.on_resolve
        srv = Server(self.on_request)
        if cfg["proxy"] == "none":
            net.servers[(HOST, 80)] = srv
        else:
            net.servers[PROXY] = srv
            net.servers[(HOST, 443)] = srv

    # ---- fault hooks -----------------------------------------------------------------------
    def interrupt(self, armed_only=False):
        e = Interrupt()
        e.token = len(self.armed)
        self.armed.append(e.token)      # tokens, not instances: a kept traceback would keep sockets alive
        if not armed_only:
            self.injected.append(e.token)
        return e

    def fired(self):
        """did an injected interrupt fire since the trace was last taken?"""
        return bool(self.injected) or any(ev[0] == "recv-fault" and ev[2] == "Interrupt" for ev in self.net.events)

    def on_resolve(self, host):
        a = self.attempt
        if a is not None and a["connect"] == "nameres" and not self.connect_used:
            self.connect_used = True
            raise socket.gaierror(socket.EAI_NONAME, "Name or service not known")
        return [host]

    def on_connect(self, sock, host, port):
        a = self.attempt
        if a is None:
            return
        sock.segment = a["seg"] or None
        if self.connect_used:
            return
        self.connect_used = True
        c = a["connect"]
        if c == "refused":
            raise ConnectionRefusedError(errno.ECONNREFUSED, "Connection refused")
        if c == "timeout":
            raise TimeoutError("timed out")
        if c == "intr":
            raise self.interrupt()

    def on_send(self, sock, data):
        a = self.attempt
        if a is None or self.send_fired:
            return
        self.send_fired = True
        s = a["send"]
        if s == "epipe":
            raise BrokenPipeError(errno.EPIPE, "Broken pipe")
        if s == "reset":
            raise ConnectionResetError(errno.ECONNRESET, "Connection reset by peer")
        if s == "oserr":
            raise OSError(errno.EIO, "Input/output error")
        if s == "intr":
            raise self.interrupt()

    def pending_bytes(self, sid):
        import fcntl
        import struct
        import termios
        s = self.net.socks[sid]
        try:
            return struct.unpack("i", fcntl.ioctl(s.fileno(), termios.FIONREAD, b"\0\0\0\0"))[0]
        except OSError:
            return 0

    def on_request(self, peer, req):
        if req.method == "CONNECT":
            from ..net import http_response
            peer.reply(b"HTTP/1.1 200 Connection established\r\n\r\n")
            peer.tunnel_to = (HOST, 443)
            return
        a = self.attempt
        if a is None:
            return
        rid, j = self.att_rid, self.att_idx
        # C03, server side: the request the server sees is the one the running call is making (every request of call
        # `rid` — first attempt, retry, followed redirect — has the target `…/r<rid>`), and it is ONE request head
        m = _TARGET.search(req.target or "")
        if m is None or int(m.group(1)) != rid or any(":" not in k and not v for k, v in req.headers):
            self.foreign_requests.append((rid, req.target))
        # C03: was this connection clean when the request arrived?
        prev = self.sock_history.get(peer.sid)
        if prev is not None:
            if self.pending_bytes(peer.sid) > 0 or peer.server_closed or prev["unclean"]:
                self.dirty.add((rid, j))
                self.dirty_cause[(rid, j)] = prev["rid"]
        head, body, stray, _ = build_reply(rid, j, a, req.method)
        self.sent_body[(rid, j)] = body
        peer.recv_fault = None
        cl = a["head"]["cl"] if isinstance(a["head"], dict) else None
        declared = len(body) if cl == "auto" else cl
        nobody = isinstance(a["head"], dict) and (a["head"]["status"] in (204, 304) or 100 <= a["head"]["status"] < 200
                                                  or req.method == "HEAD")
        now, tail = split_reply(rid, j, a, req.method)
        # what the server held back of the previous reply arrives now, before this request's own reply
        late, peer.held = peer.held, tail
        self.sock_history[peer.sid] = {
            "rid": rid,
            "unclean": (not isinstance(a["head"], dict)) or a["after"] != "silent" or a["head"]["close"] or bool(tail)
                       or (not nobody and not is_chunked(a) and (declared is None or declared != len(body)))}
        if late or now:
            peer.reply(late + now)
        af = a["after"]
        if af == "fin":
            peer.close()
        elif af == "reset":
            peer.fault_on_read(ConnectionResetError(errno.ECONNRESET, "Connection reset by peer"))
        elif af == "intr":
            peer.fault_on_read(self.interrupt(armed_only=True))

    # ---- the pool ------------------------------------------------------------------------------
    def make_pool(self):
        import urllib3
        from urllib3.connectionpool import HTTPConnectionPool
        cfg = self.cfg
        if cfg["proxy"] == "none":
            pool = HTTPConnectionPool(HOST, 80, maxsize=cfg["maxsize"], block=cfg["block"])
            self.base = ""
        else:
            pm = urllib3.ProxyManager("http://%s:%d" % PROXY, maxsize=cfg["maxsize"], block=cfg["block"],
                                      cert_reqs="CERT_NONE", ssl_context=shared_ssl_context())
            self.pm = pm
            if cfg["proxy"] == "forward":
                pool = pm.connection_from_host(HOST, 80, "http")
                self.base = "http://%s" % HOST
            else:
                pool = pm.connection_from_host(HOST, 443, "https")
                self.base = ""
        self.pool = pool
        self.queue_obj = pool.pool
        world = self
        nconn = [0]
        orig_new, orig_put, orig_open, orig_make = pool._new_conn, pool._put_conn, pool.urlopen, pool._make_request
        orig_get = pool._get_conn

        def new_conn():
            c = orig_new()
            c._vid = nconn[0]
            nconn[0] += 1
            return c

        def put_conn(conn):
            world.net.events.append(("put", None if conn is None else conn._vid))
            if conn is None and not world.inv_conn and pool.pool is not None:
                if not world.put_without_checkout:
                    # which instance: `_get_conn` was never reached (a statement of the `try:` before it raised),
                    # or `_get_conn` itself raised before it took anything (`queue.get` rejecting `pool_timeout`)
                    world.pwc_sig = ":put-without-checkout" + (
                        "" if world.get_raised is None else
                        ":pool-timeout" if world.get_raised is ValueError else ":checkout-raised")
                world.put_without_checkout = True
            return orig_put(conn)

        def get_conn(*a, **kw):
            try:
                c = orig_get(*a, **kw)
            except BaseException as e:   # noqa: BLE001 - the class is the observation
                world.get_raised = type(e)
                raise
            world.inv_conn = True
            return c

        def urlopen(*a, **kw):
            world.begin_attempt()
            world.inv_conn = False
            world.get_raised = None
            return orig_open(*a, **kw)

        def make_request(*a, **kw):
            key = (world.att_rid, world.att_idx)
            r = orig_make(*a, **kw)
            world.made[key] = True
            return r

        pool._new_conn, pool._put_conn, pool.urlopen, pool._make_request = new_conn, put_conn, urlopen, make_request
        pool._get_conn = get_conn
        return pool

    def sleep(self, seconds):
        """`time.sleep` as seen from urllib3.util.retry: recorded, never slept; raises the injected interrupt when the
        attempt whose response urlopen is waiting on says so"""
        self.sleeps.append(seconds)
        a = self.attempt
        if a is not None and a.get("wait", "ok") == "intr":
            raise self.interrupt()

    def begin_attempt(self):
        if self.script:
            self.attempt = self.script.pop(0)
        else:
            self.exhausted = True
            self.attempt = OUTCOMES[BENIGN]
        self.att_idx += 1
        self.last_attempt[self.att_rid] = self.att_idx
        self.send_fired = False
        self.connect_used = False

    # ---- observation ---------------------------------------------------------------------------
    def take_trace(self):
        out = []
        for ev in self.net.events:
            k = ev[0]
            if k in ("connect", "send", "close"):
                t = "%s:s%d" % (k, ev[1])
            elif k in ("recv", "recv-timeout", "recv-fault"):
                t = "recv:s%d" % ev[1]
            elif k == "put":
                t = "put:" + ("~" if ev[1] is None else "c%d" % ev[1])
            else:
                continue
            if not out or out[-1] != t:
                out.append(t)
        self.net.events.clear()
        return ",".join(out) if out else "-"

    def queue(self):
        if self.pool.pool is None:
            return "-"
        items = list(self.pool.pool.queue)[::-1]
        return ",".join("~" if c is None else "c%d" % c._vid for c in items) if items else "-"

    def referenced_open_sockets(self):
        """sockets really open and still referenced by something other than the harness"""
        gc.collect()
        out = []
        for i in range(len(self.net.socks)):
            s = self.net.socks[i]
            if not s.really_closed and sys.getrefcount(s) > 3:     # list + local + argument
                out.append(i)
            del s
        return out


MODELLED = ("none", "forward")


def req_line(rid, op, script_tokens):
    rel = op["preload"] if op.get("release") is None else op["release"]
    ret = "~" if op["retries"] is False else str(op["retries"])
    method = op.get("method", "GET")
    ext = "%d%d%d%d" % (int(op.get("body") == "file"), int(bool(op.get("bodypos"))), int(bool(op.get("badtimeout"))),
                        int(bool(op.get("badpooltimeout"))))
    if op.get("badheader"):
        ext += "1"

    return "req %d %s %d %d %d %d %d %s %s" % (rid, ret, int(op["preload"]), int(rel), int(op.get("redirect", True)),
                                                 int(method != "POST"), int(method == "HEAD"), ext,
                                                 ";".join(script_tokens) if script_tokens else "-")


def how_token(how):
    k = how[0]
    if k in ("readk", "readkrel", "stream"):
        return "%s:%d" % (k, how[1])
    if k == "with":
        return "close"
    return k


def uses_extended(case) -> bool:
    """chunked framing / delayed delivery somewhere in the scripts (oracle only until the model has them)"""
    for op in case["ops"]:
        if op["op"] == "req":
            for a in op["script"]:
                if isinstance(a, dict) and (a.get("chunks") is not None or a.get("hold")):
                    return True
    return False


class RetryTime(types.SimpleNamespace):
    pass


def run_history(case, res, check_c01=True, check_c03=False, pid="C01"):
    """runs one history on the implementation; returns (lines, impl_out, world)"""
    import urllib3
    from urllib3.exceptions import HTTPError
    import urllib3.util.retry as uretry
    cfg = case["cfg"]
    w = World(cfg)
    lines, out = [], []
    modelled = cfg["proxy"] in MODELLED
    lines.append("new %d %d %d" % (cfg["maxsize"], int(cfg["block"]), int(cfg["proxy"] == "forward")))
    out.append("ok")
    failures = []
    resps = w.resps       # rid -> response
    hows = {}             # rid -> list of disposal kinds applied
    saved_time = uretry.time
    uretry.time = RetryTime(sleep=w.sleep, time=saved_time.time, monotonic=saved_time.monotonic)

    def fail(sig, what):
        failures.append(Failure(signature=sig, what=what, case=case))

    def check_exc(e, where, op=None):
        if isinstance(e, HTTPError):
            return
        if type(e) is ValueError and op is not None and (op.get("badtimeout") or
                                                         (op.get("badpooltimeout") and cfg["block"])):
            return       # the caller's own argument error (`timeout=-1` / `pool_timeout=-1`), not a failure of the request
        if isinstance(e, UnicodeEncodeError) and op is not None and op.get("badheader"):
            return       # the caller's own argument error again: a header value that cannot be sent
        if isinstance(e, Interrupt):
            if getattr(e, "token", None) not in w.armed:
                fail("foreign-interrupt", f"{where}: an Interrupt that was not injected")
            return
        fail("raw-exception:" + cls_name(type(e)), f"{where} raised {type(e).__name__}: {e} (not a urllib3 exception)")

    with warnings.catch_warnings():
        warnings.simplefilter("ignore")
        try:
            with w.net.installed(fake_tls=True):
                pool = w.make_pool()
                rid = -1
                for op in case["ops"]:
                    w.injected = []
                    kind = op["op"]
                    if kind == "req":
                        rid += 1
                        method = op.get("method", "GET")
                        toks = [attempt_token(rid, j, OUTCOMES[a] if isinstance(a, str) else a, method)
                                for j, a in enumerate(op["script"])]
                        w.script = [OUTCOMES[a] if isinstance(a, str) else a for a in op["script"]]
                        w.att_rid, w.att_idx, w.attempt = rid, -1, None
                        lines.append(req_line(rid, op, toks))
                        w.req_ops[rid] = op
                        kw = dict(retries=op["retries"], preload_content=op["preload"],
                                  pool_timeout=-1 if op.get("badpooltimeout") else 0.001,
                                  redirect=op.get("redirect", True))
                        if op.get("release") is not None:
                            kw["release_conn"] = op["release"]
                        if cfg["proxy"] == "forward":
                            kw["assert_same_host"] = False
                        if op.get("body") == "file":
                            kw["body"] = ScriptBody(w)
                            kw["headers"] = {"Content-Length": "4"}
                            if op.get("bodypos"):
                                kw["body_pos"] = 0
                        if op.get("badtimeout"):
                            kw["timeout"] = -1
                        if op.get("badheader"):
                            kw["headers"] = dict(kw.get("headers") or {}, **BAD_HEADER)
                        try:
                            r = pool.urlopen(method, w.base + "/r%d" % rid, **kw)
                            resps[rid] = r
                            hows[rid] = ["preloaded"] if op["preload"] else []
                            w.preload_unreleased = getattr(w, "preload_unreleased", set())
                            # a preloaded (completely read) response that urlopen hands out still holding its
                            # connection: the repaired `_make_request` releases it, so this set stays empty
                            # unless the defect `preloaded-release_conn=False` comes back
                            if op["preload"] and op.get("release") is False and r._connection is not None:
                                w.preload_unreleased.add(rid)
                            result = "resp:%d" % r.status
                            if w.fired():
                                fail("interrupt-swallowed", f"request {rid}: an injected interrupt did not reach the caller")
                            if check_c03:
                                key = (rid, w.last_attempt.get(rid, 0))
                                if key in w.dirty and w.made.get(key):
                                    prev = w.dirty_cause.get(key)
                                    pop = w.req_ops.get(prev, {})
                                    early = (not pop.get("preload", True) and pop.get("release") is True) or \
                                        bool({"release", "readkrel"} & set(hows.get(prev, [])))
                                    fail("dirty-connection-yielded-response" + (":released-before-body-read" if early else ""),
                                         f"request {rid} was answered on a connection whose previous exchange (request {prev}) "
                                         f"had not ended cleanly" + (" - that response's connection went back to the pool "
                                                                     "before its body was read" if early else ""))
                                if op["preload"]:
                                    # the cached body (`.data` would read again when the body is empty)
                                    check_body(w, rid, r._body or b"", method, fail)
                        except BaseException as e:   # noqa: BLE001 - the class is the observation
                            result = "raise:" + cls_name(type(e))
                            check_exc(e, f"request {rid}", op)
                            if w.fired() and not isinstance(e, Interrupt):
                                fail("interrupt-replaced", f"request {rid}: injected interrupt replaced by {type(e).__name__}")
                            del e
                        w.attempt = None
                        if w.exhausted:
                            res.bump("script_exhausted")
                            modelled = False
                    elif kind == "disp":
                        r = resps.get(op["rid"])
                        if r is None:
                            continue
                        how = op["how"]
                        lines.append("disp %d %s" % (op["rid"], how_token(how)))
                        hows[op["rid"]].append(how[0])
                        result = "ok"
                        try:
                            k = how[0]
                            data = None
                            if k == "readall":
                                data = r.read()
                            elif k == "readk":
                                data = r.read(how[1])
                            elif k == "readkrel":
                                data = r.read(how[1])
                                r.release_conn()
                            elif k == "release":
                                r.release_conn()
                            elif k == "drain":
                                r.drain_conn()
                            elif k == "close":
                                r.close()
                            elif k == "with":
                                if r.closed:          # entering a closed io object is the caller's ValueError
                                    r.close()
                                else:
                                    with r:
                                        pass
                            elif k == "drop":
                                resps[op["rid"]] = None
                                del r
                                gc.collect()
                            elif k == "stream":
                                data = b"".join(r.stream(how[1]))
                            if data is not None:
                                result = "data:" + enc(data)
                                if check_c03:
                                    w.delivered = getattr(w, "delivered", {})
                                    w.delivered[op["rid"]] = w.delivered.get(op["rid"], b"") + data
                                    check_body(w, op["rid"], w.delivered[op["rid"]], None, fail)
                            if w.fired():
                                fail("interrupt-swallowed", f"dispose {how}: an injected interrupt did not reach the caller")
                        except BaseException as e:   # noqa: BLE001
                            result = "raise:" + cls_name(type(e))
                            check_exc(e, f"dispose {how} of response {op['rid']}")
                            if w.fired() and not isinstance(e, Interrupt):
                                fail("interrupt-replaced", f"dispose {how}: injected interrupt replaced by {type(e).__name__}")
                            del e
                        r = None
                    elif kind == "closepool":
                        lines.append("closepool")
                        pool.close()
                        result = "ok"
                    else:
                        raise ValueError(kind)
                    if check_c03 and w.foreign_requests:
                        cur, tgt = w.foreign_requests[0]
                        w.foreign_requests = []
                        bad = [i for i, o in w.req_ops.items() if o.get("badheader") and i < cur]
                        fail("foreign-request-at-server" + (":after-rejected-request" if bad else ""),
                             f"while request {cur} was running the server received a request head for {tgt!r} "
                             f"that is not (only) the head of request {cur}" +
                             (f" - request(s) {bad} had been rejected on the client side before anything was sent" if bad else ""))
                    out.append("trace=%s q=%s result=%s" % (w.take_trace(), w.queue(), result))

                if check_c01:
                    quiescence_oracle(w, case, resps, hows, fail, res)
        finally:
            uretry.time = saved_time
    res.failures.extend(failures)
    if not modelled:
        return [], [], w
    return lines, out, w


def check_body(w, rid, got, method, fail):
    j = w.last_attempt.get(rid, 0)
    sent = w.sent_body.get((rid, j), b"")
    if not sent.startswith(got):
        fail("foreign-bytes", f"request {rid}: delivered {got[:40]!r} is not a prefix of its own reply {sent[:40]!r}")


def quiescence_oracle(w, case, resps, hows, fail, res):
    from urllib3.exceptions import EmptyPoolError
    cfg = case["cfg"]
    pool = w.pool
    n = cfg["maxsize"]
    if cfg["block"] and w.max_open > n:
        fail(w.bound_sig or "block-bound-exceeded", f"block=True maxsize={n}: {w.max_open} sockets open at once")
    if pool.pool is None:
        # closed pool: every socket must be closed once the responses are gone
        res.bump("closed_pool_histories")
        return
    items = list(pool.pool.queue)
    ids = [id(c) for c in items if c is not None]
    if len(ids) != len(set(ids)):
        fail("connection-queued-twice", "the same connection object is in the queue twice")
    if cfg["block"]:
        # block=True: the free slots and the connections that responses still hold never add up to more than N
        # (theorem `C01_block_slots_exact`: on the model they add up to exactly N); one slot too many is one
        # connection too many as soon as enough requests are outstanding
        holding = {id(r._connection) for r in resps.values() if r is not None and getattr(r, "_connection", None) is not None}
        if len(items) + len(holding) > n:
            fail("slot-surplus" + (w.pwc_sig if w.put_without_checkout else ""),
                 f"block=True maxsize={n}: the pool offers {len(items)} free slots while {len(holding)} responses "
                 f"still hold their connections")
    unsettled = [rid for rid, r in resps.items() if not (set(hows.get(rid, [])) & SETTLING)]
    if unsettled:
        res.bump("not_quiescent")
        # a dropped response is neither read, released nor closed: the socket census still applies
        if all(resps[rid] is None for rid in unsettled):
            census(w, items, fail)
        return
    res.bump("quiescent")
    if len(items) != n:
        holders = set()
        for rid, r in resps.items():
            if r is None and rid in getattr(w, "preload_unreleased", ()) and not ({"release", "readkrel"} & set(hows[rid])):
                holders.add("preloaded-release_conn=False")
            if r is not None and r._connection is not None:
                hs = set(hows[rid]) & SETTLING
                if hs & {"close", "with"}:
                    holders.add("close")                       # response.close() keeps the connection
                elif rid in getattr(w, "preload_unreleased", ()) and "release" not in hs and "readkrel" not in hs:
                    holders.add("preloaded-release_conn=False")  # body read by the constructor, never released
                else:
                    holders |= hs
        for h in sorted(holders) or ["unknown"]:
            fail("slot-not-returned:" + h, f"at quiescence the pool offers {len(items)} slots instead of {n} "
                                           f"(a response disposed of by `{h}` still holds its connection)")
        return            # the sockets of the lost connections are a consequence, not a second failure
    elif cfg["block"]:
        got = []
        try:
            for _ in range(n):
                got.append(pool._get_conn(timeout=0.001))
        except EmptyPoolError:
            fail("slot-not-usable", f"block=True: only {len(got)} of {n} consecutive checkouts succeed at quiescence")
        for c in got:
            pool._put_conn(c)
        items = list(pool.pool.queue)
    census(w, items, fail)


def census(w, items, fail):
    idle = {id(c.sock) for c in items if c is not None and c.sock is not None}
    leaked = [k for k in w.referenced_open_sockets() if id(w.net.socks[k]) not in idle]
    if leaked:
        causes = set()
        for k in leaked:
            sk = w.net.socks[k]
            cause = "unknown"
            for rid, r in w.resps.items():
                if r is None:
                    continue
                fp = getattr(getattr(r, "_fp", None), "fp", None)
                rsock = getattr(getattr(fp, "raw", None), "_sock", None)
                if r._connection is None and rsock is sk:
                    # kept open only by the reader of a response whose connection went back to the pool unread
                    cause = "unread-response-after-release"
                elif r._connection is not None and r._connection.sock is sk and rid in getattr(w, "preload_unreleased", ()):
                    # the connection of a preloaded response that was never released (masked slot loss, block=False)
                    cause = "preloaded-release_conn=False"
            causes.add(cause)
            del sk
        for cause in sorted(causes):
            fail("socket-leak" + ("" if cause == "unknown" else ":" + cause),
                 f"sockets {leaked} are open but not idle in the pool ({cause})")


class C01(Prop):
    id = "C01"
    model = "pool"
    rule = ("histories of requests on one pool: per ATTEMPT one outcome of the alphabet {2xx/204/3xx/5xx keep-alive or "
            "close, short body then silence/EOF/reset/interrupt, stray bytes, chunked reply (complete / trailer section "
            "held back), connect refused/timeout/name-resolution/"
            "interrupt, send EPIPE/ECONNRESET/EIO/interrupt, receive timeout/reset/EOF/garbage/interrupt; failures "
            "outside the I/O steps: invalid per-request timeout (ValueError before the checkout), negative pool_timeout "
            "(ValueError inside the checkout of a block=True pool, nothing taken), a header value that cannot be encoded "
            "(UnicodeEncodeError between putrequest() and endheaders(): after the checkout, nothing sent), file-like body that "
            "cannot be rewound at a retry / redirect hop (UnrewindableBodyError before the checkout), the wait between two "
            "attempts raising (Retry-After: soon -> InvalidHeader, time.sleep interrupted)} x "
            "maxsize/block x retries/preload_content/release_conn x direct/forwarding/tunnelling pool x disposal "
            "{read all, read k, read k+release, release, drain, close, with, drop+gc, stream}; quick: k streamed responses "
            "outstanding + one request failing outside the I/O steps + maxsize more requests, every 1-request "
            "history with <=2 attempts on 7 pool configurations + sampled 2-request histories; thorough: <=3 requests x "
            "<=3 attempts sampled. non-trivial = at least one fault or non-200 outcome was consumed")
    assumptions = ["faults are injected at I/O steps (connect / sendall / recv), before the checkout (invalid timeout "
                   "argument, file-like body whose seek() fails), in the checkout (negative pool_timeout rejected by "
                   "queue.get on a block=True pool) and in the wait between two attempts (Retry-After "
                   "parsing, time.sleep); an interrupt between two bytecodes is outside the model",
                   "a ValueError for a per-request timeout that Timeout rejects is the caller's argument error, not a "
                   "failure of the request (the exception oracle accepts it only for requests that pass timeout=-1, or "
                   "pool_timeout=-1 to a block=True pool); likewise the UnicodeEncodeError for a header value that cannot "
                   "be encoded as latin-1 (accepted only for requests that pass that header); the class table of the model "
                   "has no UnicodeEncodeError: it is compared as its base class ValueError",
                   "bytes arrive when the server sends them (no arrival after the checkout probe)",
                   "tunnelling-proxy pools are checked by the oracle only (the Lean model covers direct and forwarding pools)",
                   "response bodies are shorter than BufferedReader's 8192-byte buffer"]
    trusted = ["http.client request/response state machine and io.BufferedReader read-ahead are modelled, not verified",
               "queue.LifoQueue (modelled as a list)", "harness/net.py in-memory sockets"]
    time_budget = {"quick": 100, "thorough": 1100}

    def cases(self, rng, tier, escalate=False):
        deep = tier == "thorough" or escalate
        i = 0
        # 0. failures OUTSIDE the I/O steps of an attempt, while other responses are outstanding: `k` streamed
        # responses hold their connections, then one request that fails before its checkout (invalid timeout; a
        # file-like body that cannot be rewound at a retry / redirect hop), in its checkout (negative pool_timeout:
        # `queue.get` raises inside `_get_conn`, block=True pools only) or between two attempts (the wait raises:
        # unparsable Retry-After, interrupted sleep), then N more streamed requests (a slot too many shows as a
        # connection too many on a block=True pool), then everything is disposed of.  (First, so that a loaded
        # machine still gets through this family within the time budget.)
        stream = dict(retries=1, preload=False, release=None)
        special = []
        for rc in (REQCFGS[3], REQCFGS[5]):
            special.append(dict(rc, badtimeout=True, script=[BENIGN, BENIGN]))
            special.append(dict(rc, badpooltimeout=True, script=[BENIGN, BENIGN]))
            special.append(dict(rc, retries=2, body="file", badpooltimeout=True, script=["conn-refused", BENIGN, BENIGN]))
            # rejected between putrequest() and endheaders(): after the checkout, nothing sent, never retried
            special.append(dict(rc, badheader=True, script=[BENIGN, BENIGN]))
            special.append(dict(rc, retries=2, body="file", badheader=True, script=[BENIGN, BENIGN, BENIGN]))
            for first in HOP_OUTCOMES:
                for xkw in EXTRA_KW[:2]:
                    special.append(dict(rc, retries=2, script=[first, "ok-unrewind", BENIGN], **xkw))
            special.append(dict(rc, retries=2, body="file", bodypos=True, script=["ok-unrewind", BENIGN]))
            for wf in WAIT_FAILURES:
                special.append(dict(rc, retries=2, script=[wf, BENIGN, BENIGN]))
                special.append(dict(rc, retries=2, body="file", script=["conn-refused", wf, BENIGN]))
        # the failing call with release_conn=True (the default): `release_this_conn` starts out true, so a `finally`
        # clause that merely refrains from SETTING it when no connection was obtained still puts a `None` back
        for rc in (REQCFGS[2], REQCFGS[4]):
            special.append(dict(rc, badpooltimeout=True, script=[BENIGN, BENIGN]))
            special.append(dict(rc, badheader=True, script=[BENIGN, BENIGN]))
        for cfg in CONFIGS_QUICK:
            n = cfg["maxsize"]
            for k in range(0, n + 1):
                for sp in special:
                    ops = [dict(op="req", script=[BENIGN, BENIGN], **stream) for _ in range(k)]
                    ops.append(dict(op="req", **sp))
                    ops += [dict(op="req", script=[BENIGN, BENIGN], **stream) for _ in range(n)]
                    d = DISPOSALS[i % 4]                 # read all / read k + release / release / drain
                    i += 1
                    ops += [dict(op="disp", rid=r, how=d) for r in range(k + 1 + n)]
                    yield {"cfg": cfg, "ops": ops, "kind": "outside-io"}
        # 1. every single-request history with <= 2 attempts, on every configuration, cycling disposal / request cfg:
        # the whole square over the I/O outcomes; the outcomes whose wait fails (and the 3xx variants) paired with
        # every I/O outcome as the other attempt
        waits = ["503-ra-bad", "503-ra-intr", "302-ra", "302-ra-bad", "302-ra-intr", "303"]
        plain = [n for n in NAMES if n not in waits and n != "ok-unrewind"]   # "ok-unrewind" needs a file-like body
        pairs = [(a, b) for a in plain for b in plain] + [(a, b) for a in waits for b in plain] + \
                [(a, b) for a in HOP_OUTCOMES for b in waits]
        for cfg in CONFIGS_QUICK:
            for a, b in pairs:
                rc = REQCFGS[i % len(REQCFGS)]
                d = DISPOSALS[(i // len(REQCFGS)) % len(DISPOSALS)]
                i += 1
                ops = [dict(op="req", script=[a, b, BENIGN], **rc), dict(op="disp", rid=0, how=d)]
                yield {"cfg": cfg, "ops": ops, "kind": "exh1"}
        # 1b. the per-request keywords must survive the retry recursion: a failing first attempt followed by a
        # redirect reply, with redirect=False (the 3xx comes back, nothing is followed) and with redirect=True
        redirs = ["302", "302-close", "303"]
        for cfg in CONFIGS_QUICK[:5]:
            for a in plain:
                if a == BENIGN or a in redirs:
                    continue
                for b in redirs:
                    for redirect in (False, True):
                        rc = dict(REQCFGS[2 + (i % 3)])         # retries >= 1: the first failure may be retried
                        rc["redirect"] = redirect
                        d = DISPOSALS[i % len(DISPOSALS)]
                        i += 1
                        ops = [dict(op="req", script=[a, b, BENIGN, BENIGN], **rc), dict(op="disp", rid=0, how=d)]
                        yield {"cfg": cfg, "ops": ops, "kind": "exh-redirect"}
        # 2. the disposal x request-configuration matrix on the plain outcomes
        for cfg in CONFIGS_QUICK:
            for a in ("ok", "ok-close", "ok-untilclose", "ok-big", "short-silent", "short-fin", "stray", "204", "body-intr",
                      "ok-chunked", "chunked-held", "chunked-cut-end", "chunked-cut-trailer", "chunked-cut-last",
                      "chunked-cut-data"):
                for rc in (REQCFGS if deep else REQCFGS[1:5]):
                    for d in DISPOSALS:
                        ops = [dict(op="req", script=[a, BENIGN, BENIGN], **rc), dict(op="disp", rid=0, how=d),
                               dict(op="req", script=[BENIGN, BENIGN], **rc), dict(op="disp", rid=1, how=["readall"])]
                        yield {"cfg": cfg, "ops": ops, "kind": "matrix"}
        # 3. sampled longer histories
        nreq, natt = (3, 3) if deep else (2, 2)
        nrand = 150000 if deep else 5000
        mixes = [2, 1, 1, 3] if deep else [2, 1]
        for _ in range(nrand):
            cfg = dict(maxsize=rng.choice([1, 1, 2, 3] if deep else [1, 2]), block=rng.random() < 0.6,
                       proxy=rng.choice(["none", "none", "forward", "tunnel"]))
            ops = []
            k = rng.randint(1, nreq)
            live = []
            rid = -1
            for _req in range(k):
                rid += 1
                rc = dict(rng.choice(REQCFGS))
                if rng.random() < 0.15:
                    rc["method"] = rng.choice(["POST", "HEAD"])
                if rng.random() < 0.1:
                    rc["redirect"] = False
                if rng.random() < 0.12:
                    rc.update(rng.choice(EXTRA_KW))
                script = [rng.choice(NAMES) if rng.random() < 0.7 else BENIGN for _ in range(natt)] + [BENIGN] * 2
                ops.append(dict(op="req", script=script, **rc))
                live.append(rid)
                if rc.get("badheader"):
                    # a rejected request is always followed by a benign one on the same pool (what the connection
                    # object kept of the rejected request would go out in front of it)
                    ops.append(dict(op="req", script=[BENIGN] * 3, **rng.choice(REQCFGS)))
                    rid += 1
                    live.append(rid)
                # dispose now, later, or never
                while live and rng.random() < 0.6:
                    r = live.pop(rng.randrange(len(live)))
                    ops.append(dict(op="disp", rid=r, how=rng.choice(DISPOSALS)))
                if rng.random() < 0.04:
                    ops.append(dict(op="closepool"))
            for r in live:
                if rng.random() < 0.8:
                    ops.append(dict(op="disp", rid=r, how=rng.choice(DISPOSALS)))
            yield {"cfg": cfg, "ops": ops, "kind": "rand"}

    def setup_worker(self):
        gc.collect()
        gc.freeze()          # the census runs gc.collect() per history: keep the start-up heap out of it

    def execute(self, case, res):
        res.bump("proxy:" + case["cfg"]["proxy"])
        res.bump("kind:" + case.get("kind", "?"))
        lines, out, w = run_history(case, res, check_c01=True, check_c03=False)
        for o in out:
            r = o.split("result=")[-1]
            res.bump("result:" + r.split(":")[0] + (":" + r.split(":")[1] if r.startswith("raise") else ""))
        return lines, out

    def nontrivial(self, case, impl_out):
        return any(op.get("badtimeout") or op.get("badpooltimeout") or op.get("badheader") or op.get("body") or any(a != BENIGN for a in op["script"][:1])
                   for op in case["ops"] if op["op"] == "req")

    def shrink_candidates(self, case):
        ops = case["ops"]
        for i in range(len(ops)):
            if ops[i]["op"] != "req":
                yield dict(case, ops=ops[:i] + ops[i + 1:])
        for i, op in enumerate(ops):
            if op["op"] == "req":
                for j, a in enumerate(op["script"]):
                    if a != BENIGN:
                        sc = list(op["script"])
                        sc[j] = BENIGN
                        yield dict(case, ops=ops[:i] + [dict(op, script=sc)] + ops[i + 1:])


PROP = C01()
