"""C07 — an HTTPS request is sent only over a connection verified as configured.

Every case is one `urlopen(retries=False)` on a fresh `PoolManager` / `ProxyManager` whose https pool
class uses a recording `HTTPSConnection` subclass (`ConnectionCls` / `pool_classes_by_scheme`, the
documented extension points).  The connection's constructor arguments, `set_tunnel` arguments and
the state of the caller's `SSLContext` *before* `connect()` are the model's input; the TLS-layer
calls (`urllib3.connection.ssl_wrap_socket`: server_hostname, the context's verify_mode and
check_hostname at that moment, CA material, tls_in_tls, whether `load_default_certs()` had been called
on that context), the exception class, `is_verified`,
`proxy_is_verified` right after `connect()`, the InsecureRequestWarning, "request bytes arrived at the
server" and "socket closed" are compared with `U3.Tls.urlopenOnce` (driver `tls`).

* tier `fake` (quick and thorough): the in-memory network with a fake TLS layer that implements the
  handshake contract of DESIGN §5 (chain validation iff verify_mode != CERT_NONE, against the CA
  material the context was given; name check by the backend iff it is stdlib `ssl` and
  `check_hostname` is on) for a scripted server identity {issuer, SANs / CN, DER bytes}.
* tier `real` (thorough): real handshakes on loopback (127.0.0.1 / ::1): throw-away trustme CAs A
  and B, leaf certificates with the chosen SANs, stdlib `ssl` servers in threads recording
  "handshake completed" / "request bytes arrived", a CONNECT proxy (plain and TLS) that relays
  TLS-in-TLS.  This validates the handshake contract itself against OpenSSL.

The pyOpenSSL backend is exercised by `inject_into_urllib3()` … `extract_from_urllib3()` around the
single case inside the worker process (shards are forked subprocesses of the harness; the `finally`
restores the four module attributes the injection touches, also for replays in the main process).

Oracle (implementation only, from the property text, with an independent reference name matcher):
request bytes arrived  =>  every check the settings demand was satisfiable for that server identity
(cert_reqs in force != NONE: issuer equals the configured CA; additionally, unless
assert_hostname=False or a fingerprint is pinned, the reference matcher accepts
`assert_hostname or server_hostname or host`; pinned fingerprint: the pin is the certificate's
digest); a demanded check that cannot pass => SSLError (bare, or as reason / original_error of
MaxRetryError / ProxyError) and no socket left open; a direct or tunnelled request sent with
cert_reqs != REQUIRED and no pinned fingerprint => InsecureRequestWarning and `is_verified` False;
`is_verified` True => cert_reqs REQUIRED or fingerprint pinned.
"""
from __future__ import annotations

import gc
import hashlib
import ipaddress
import itertools
import os
import select
import socket
import ssl
import threading
import time
import warnings

from ..core import Prop, Failure, enc, WORK

DNS = "www.example.test"
PROXY = "proxy.example.test"
HOST_FORMS = {"plain": DNS, "upper": "WWW.Example.TEST", "dot": DNS + ".", "v4": "127.0.0.1",
              "v6": "[::1]", "v6zone": "[::1%25lo]"}
SANS = {          # origin identities: (SAN list, common name)
    "match": ([("DNS", DNS)], "unrelated-cn"),
    "mismatch": ([("DNS", "other.example.test")], "unrelated-cn"),
    "wildcard": ([("DNS", "*.example.test")], "unrelated-cn"),
    "ip": ([("IP Address", "127.0.0.1"), ("IP Address", "::1")], "unrelated-cn"),
    "cn_only": ([], DNS),
}
# identities used in the fake tier only (no loopback server carries them): shapes on which a name matcher
# can go wrong without any of the identities above noticing — a wildcard entry with FEWER labels than the
# host, and an IP address written as dNSName text (RFC 6125: never matches an IP host)
SANS_FAKE = {
    "wild_short": ([("DNS", "*.example")], "unrelated-cn"),
    "wild_long": ([("DNS", "*.www.example.test")], "unrelated-cn"),
    "ip_as_dns": ([("DNS", "127.0.0.1"), ("DNS", "::1"), ("DNS", "*.0.0.1")], "unrelated-cn"),
}
REAL_SANS = list(SANS)
SANS.update(SANS_FAKE)
PSANS = {"match": ([("DNS", PROXY)], "unrelated-cn"), "mismatch": ([("DNS", "other.example.test")], "unrelated-cn")}
AH = {"unset": None, "false": False, "dns": DNS, "wrong": "wrong.example.test", "v4": "127.0.0.1",
      "v6b": "[::1]", "empty": "", "star": "x.example.test"}
PAH = {"unset": None, "false": False, "proxy": PROXY, "wrong": "wrong.example.test"}
SH = {"unset": None, "dns": DNS, "dnsdot": DNS + ".", "wrong": "wrong.example.test", "v6": "::1", "other": "other.example.test"}
CERT_REQS = {"unset": None,
             "cN": ssl.CERT_NONE, "cO": ssl.CERT_OPTIONAL, "cR": ssl.CERT_REQUIRED,
             "fN": "CERT_NONE", "fO": "CERT_OPTIONAL", "fR": "CERT_REQUIRED",
             "sN": "NONE", "sO": "OPTIONAL", "sR": "REQUIRED"}
FPS = ["unset", "right", "right_md5", "wrong", "badlen", "empty"]
# caller-supplied contexts: shape -> (verify_mode, check_hostname, hostname_checks_common_name)
CTX_SHAPES = {"default": ("R", True, False), "nocheck": ("R", False, False), "cnone": ("N", False, False),
              "default_cn": ("R", True, True), "nocheck_cn": ("R", False, True), "optional": ("O", True, False)}
CA_KINDS = ["none", "fileA", "dataA", "fileB"]
MODES = ["d", "th", "ts", "fw"]
VM = {ssl.CERT_NONE: "N", ssl.CERT_OPTIONAL: "O", ssl.CERT_REQUIRED: "R"}

DEFAULT_CASE = {"tier": "fake", "backend": "ssl", "ncn": 1, "mode": "d", "host": "plain", "cert_reqs": "unset",
                "ah": "unset", "fp": "unset", "sh": "unset", "ctx": "none", "ctx_ca": 0, "ctx_kind": "native",
                "ca": "fileA", "issuer": "A", "san": "match",
                "pctx": "none", "pctx_ca": 0, "pah": "unset", "pfp": "unset", "pissuer": "A", "psan": "match"}


# ------------------------------------------------------------------ reference name matcher

def canon_host(name: str):
    """lower-case, no trailing dots, no brackets, no zone id; (kind, value)"""
    n = name.strip("[]")
    if "%" in n:
        n = n[: n.rfind("%")]
    try:
        return "ip", ipaddress.ip_address(n)
    except ValueError:
        pass
    n = name.rstrip(".").lower()
    n2 = n.strip("[]")
    if "%" in n2:
        n2 = n2[: n2.rfind("%")]
    try:
        return "ip", ipaddress.ip_address(n2)
    except ValueError:
        return "dns", n


def ref_dns_match(pattern: str, host: str) -> bool:
    p, h = pattern.lower().split("."), host.split(".")
    if len(p) != len(h) or not all(h):
        return False
    if p[0] == "*":
        return len(p) > 2 and p[1:] == h[1:]
    return p == h


def ref_match(identity, name: str, checks_cn: bool) -> bool:
    """does the certificate identity (SAN list, CN) cover `name` (RFC 6125 as OpenSSL applies it)"""
    sans, cn = identity
    kind, val = canon_host(name)
    if kind == "ip":
        return any(k == "IP Address" and ipaddress.ip_address(v) == val for k, v in sans)
    dns = [v for k, v in sans if k == "DNS"]
    if any(ref_dns_match(d, val) for d in dns):
        return True
    if not dns and checks_cn and not any(k == "IP Address" for k, _ in sans):
        return ref_dns_match(cn, val)
    return False


def cert_dict(identity):
    """the dict `SSLSocket.getpeercert()` / pyOpenSSL's WrappedSocket.getpeercert() returns"""
    sans, cn = identity
    d = {"subject": ((("commonName", cn),),)}
    if sans:
        d["subjectAltName"] = tuple(sans)
    return d


def u3_match(identity, name: str, cn: bool) -> bool:
    """urllib3's own matcher as an oracle function for the model (its correctness is C08's subject)"""
    from urllib3.util.ssl_match_hostname import match_hostname, CertificateError
    try:
        match_hostname(cert_dict(identity), name, cn)
        return True
    except (CertificateError, ValueError):
        return False


def closure(strings):
    """every string the code could derive from the given ones by the three normalisations"""
    seen = set()
    todo = [s for s in strings if s is not None]
    while todo:
        s = todo.pop()
        if s in seen:
            continue
        seen.add(s)
        todo += [s.rstrip("."), s.strip("[]"), s.lower()]
        if "%" in s:
            todo.append(s[: s.rfind("%")])
    return sorted(seen)


# ------------------------------------------------------------------ recording connection / pool classes

class Rec:
    """what one case observes"""
    def __init__(self):
        self.conns = []         # [(conn, init kwargs snapshot)]
        self.wraps = []         # TLS layer calls
        self.after = []         # (is_verified, proxy_is_verified) right after connect()
        self.tcp = 0


_REC = None
_CTX_CA = {}                    # id(context) -> "the caller loaded CA A into it" (fake tier)
_CTX_SYS = set()                # id(context) of contexts on which load_default_certs() was called
_CTX_KEEP = []                  # … kept alive for the duration of the case, so that an id is never reused


def describe_ctx(ctx):
    if ctx is None:
        return "~"
    kind = "s" if isinstance(ctx, ssl.SSLContext) else "p"
    cn = bool(getattr(ctx, "hostname_checks_common_name", False) or False)
    return kind + VM[ctx.verify_mode] + str(int(bool(ctx.check_hostname))) + str(int(cn)) + str(int(_CTX_CA.get(id(ctx), 0)))


def make_classes():
    from urllib3.connection import HTTPSConnection
    from urllib3.connectionpool import HTTPSConnectionPool

    class RecConn(HTTPSConnection):
        def __init__(self, *a, **kw):
            snap = dict(kw)
            snap["_ctx"] = describe_ctx(kw.get("ssl_context"))
            pc = kw.get("proxy_config")
            snap["_pctx"] = describe_ctx(pc.ssl_context) if pc is not None else "~"
            self._c07 = snap
            _REC.conns.append(self)
            super().__init__(*a, **kw)

        def set_tunnel(self, host, port=None, headers=None, scheme="http"):
            self._c07["_tunnel"] = (host, scheme)
            return super().set_tunnel(host, port=port, headers=headers, scheme=scheme)

        def _new_conn(self):
            s = super()._new_conn()
            _REC.tcp += 1
            return s

        def connect(self):
            super().connect()
            _REC.after.append((self.is_verified, self.proxy_is_verified))

    class RecPool(HTTPSConnectionPool):
        ConnectionCls = RecConn

    return RecConn, RecPool


# ------------------------------------------------------------------ real-TLS loopback servers

class Loopback:
    """per-process servers for the real tier (created lazily; threads do not survive a fork)"""

    def __init__(self):
        import trustme
        self.cas = {"A": trustme.CA(), "B": trustme.CA()}
        d = os.path.join(WORK, f"c07-{os.getpid()}")
        os.makedirs(d, exist_ok=True)
        self.ca_file = {}
        self.ca_pem = {}
        for k, ca in self.cas.items():
            self.ca_file[k] = os.path.join(d, f"ca{k}.pem")
            ca.cert_pem.write_to_path(self.ca_file[k])
            self.ca_pem[k] = ca.cert_pem.bytes().decode()
        self.lock = threading.Lock()
        self.records = []           # one dict per accepted connection
        self.extra = 0              # upstream connections opened by the proxy for the current case
        self.origins = {}           # (issuer, san) -> {"port": p, "der": bytes}
        self.proxies = {}           # ("plain",) or (issuer, psan) -> {"port": p, "der": bytes}
        for issuer in "AB":
            for san in REAL_SANS:
                ident = SANS[san]
                self.origins[(issuer, san)] = self.start(self.server_ctx(issuer, ident), self.origin_handler, "origin")
            for psan, ident in PSANS.items():
                self.proxies[(issuer, psan)] = self.start(self.server_ctx(issuer, ident), self.proxy_handler, "proxy")
        self.proxies[("plain",)] = self.start(None, self.proxy_handler, "proxy")

    def server_ctx(self, issuer, ident):
        sans, cn = ident
        names = [v for _, v in sans]
        leaf = self.cas[issuer].issue_cert(*names, common_name=cn) if names else self.issue_cn_only(issuer, cn)
        ctx = ssl.SSLContext(ssl.PROTOCOL_TLS_SERVER)
        leaf.configure_cert(ctx)
        der = ssl.PEM_cert_to_DER_cert(leaf.cert_chain_pems[0].bytes().decode())
        return ctx, der

    def issue_cn_only(self, issuer, cn):
        """trustme always adds SANs for its identities; build a leaf without subjectAltName by hand"""
        import datetime
        import trustme
        from cryptography import x509
        from cryptography.hazmat.primitives import hashes, serialization
        from cryptography.hazmat.primitives.asymmetric import ec
        from cryptography.x509.oid import NameOID
        ca = self.cas[issuer]
        key = ec.generate_private_key(ec.SECP256R1())
        ca_cert = x509.load_pem_x509_certificate(ca.cert_pem.bytes())
        ca_key = serialization.load_pem_private_key(ca.private_key_pem.bytes(), None)
        now = datetime.datetime.now(datetime.timezone.utc)
        cert = (x509.CertificateBuilder()
                .subject_name(x509.Name([x509.NameAttribute(NameOID.COMMON_NAME, cn)]))
                .issuer_name(ca_cert.subject).public_key(key.public_key())
                .serial_number(x509.random_serial_number())
                .not_valid_before(now - datetime.timedelta(days=1)).not_valid_after(now + datetime.timedelta(days=30))
                .add_extension(x509.BasicConstraints(ca=False, path_length=None), critical=True)
                .sign(ca_key, hashes.SHA256()))
        key_pem = key.private_bytes(serialization.Encoding.PEM, serialization.PrivateFormat.TraditionalOpenSSL,
                                    serialization.NoEncryption())
        cert_pem = cert.public_bytes(serialization.Encoding.PEM)
        return trustme.LeafCert(key_pem, cert_pem, [])

    def start(self, ctx_der, handler, role):
        ctx, der = ctx_der if ctx_der else (None, b"")
        info = {"der": der, "role": role}
        socks = []
        port = None
        for fam, addr in ((socket.AF_INET, "127.0.0.1"), (socket.AF_INET6, "::1")):
            for _ in range(50):
                ls = socket.socket(fam, socket.SOCK_STREAM)
                ls.setsockopt(socket.SOL_SOCKET, socket.SO_REUSEADDR, 1)
                try:
                    ls.bind((addr, port or 0))
                except OSError:
                    ls.close()
                    if fam == socket.AF_INET6 and port:
                        # the port is taken on ::1: start over with a new pair
                        for s in socks:
                            s.close()
                        socks, port = [], None
                        return self.start(ctx_der, handler, role)
                    continue
                break
            ls.listen(64)
            port = ls.getsockname()[1]
            socks.append(ls)
        info["port"] = port
        for ls in socks:
            threading.Thread(target=self.accept_loop, args=(ls, ctx, handler, info), daemon=True).start()
        return info

    def accept_loop(self, ls, ctx, handler, info):
        while True:
            try:
                c, _ = ls.accept()
            except OSError:
                return
            rec = {"role": info["role"], "port": info["port"], "hs": None, "bytes": False, "done": False}
            with self.lock:
                self.records.append(rec)
            threading.Thread(target=self.run_handler, args=(handler, c, ctx, rec), daemon=True).start()

    def run_handler(self, handler, c, ctx, rec):
        try:
            c.settimeout(10)
            if ctx is not None:
                try:
                    c = ctx.wrap_socket(c, server_side=True)
                    rec["hs"] = True
                except Exception:
                    rec["hs"] = False
                    return
            handler(c, rec)
        except Exception as e:          # noqa: BLE001 - a server thread must never die silently
            rec["exc"] = type(e).__name__
        finally:
            try:
                c.close()
            except Exception:
                pass
            rec["done"] = True

    @staticmethod
    def read_head(c):
        buf = b""
        while b"\r\n\r\n" not in buf:
            try:
                d = c.recv(65536)
            except (OSError, ssl.SSLError):
                return buf
            if not d:
                return buf
            buf += d
        return buf

    def origin_handler(self, c, rec):
        buf = self.read_head(c)
        if buf:
            rec["bytes"] = True
            c.sendall(b"HTTP/1.1 200 OK\r\nContent-Length: 2\r\n\r\nok")
            self.read_head(c)           # wait for the client to go away

    def proxy_handler(self, c, rec):
        buf = self.read_head(c)
        if not buf:
            return
        rec["bytes"] = True
        line = buf.split(b"\r\n", 1)[0].decode("latin-1").split(" ")
        if line[0] != "CONNECT":
            rec["forwarded"] = True
            c.sendall(b"HTTP/1.1 200 OK\r\nContent-Length: 2\r\n\r\nfw")
            self.read_head(c)
            return
        host, port = line[1].rsplit(":", 1)
        fam_addr = "::1" if ":" in host else "127.0.0.1"
        with self.lock:
            self.extra += 1             # one more server-side connection record to wait for
        up = socket.create_connection((fam_addr, int(port)), timeout=10)
        try:
            c.sendall(b"HTTP/1.1 200 Connection established\r\n\r\n")
            is_ssl = isinstance(c, ssl.SSLSocket)
            while True:
                if is_ssl and c.pending():
                    r = [c]
                else:
                    r, _, _ = select.select([c, up], [], [], 10)
                    if not r:
                        return
                if c in r:
                    try:
                        d = c.recv(65536)
                    except (OSError, ssl.SSLError):
                        return
                    if not d:
                        return
                    up.sendall(d)
                if up in r:
                    try:
                        d = up.recv(65536)
                    except OSError:
                        return
                    if not d:
                        return
                    c.sendall(d)
        finally:
            up.close()

    def settle(self, n_expected, timeout=5.0):
        """wait until the servers have finished with the connections opened so far"""
        t0 = time.time()
        while time.time() - t0 < timeout:
            with self.lock:
                recs = list(self.records)
            if len(recs) >= n_expected + self.extra and all(r["done"] for r in recs):
                return recs
            time.sleep(0.002)
        with self.lock:
            return list(self.records)


_LOOP = None


def loopback():
    global _LOOP
    if _LOOP is None or _LOOP.pid != os.getpid():
        _LOOP = Loopback()
        _LOOP.pid = os.getpid()
    return _LOOP


# ------------------------------------------------------------------ the check

class C07(Prop):
    id = "C07"
    model = "tls"
    rule = ("one urlopen(retries=False) per lattice point cert_reqs {unset, CERT_X const, 'CERT_X', 'X'} x "
            "assert_hostname {unset, False, right, wrong, IPv4, [IPv6], '', other} x assert_fingerprint {unset, sha256, "
            "MD5 upper+colons, wrong, bad length, ''} x server_hostname {unset, right, trailing dot, wrong, IPv6, other} x "
            "ssl_context {none, default-like, check_hostname off, CERT_NONE, hostname_checks_common_name on, OPTIONAL} "
            "(x own CA loaded or not) x CA material {none, file A, data A, file B} x backend {ssl, pyOpenSSL injected} x "
            "HAS_NEVER_CHECK_COMMON_NAME x issuer {A, B} x identity {matching, mismatching, wildcard, IP, CN only} x host "
            "form {plain, upper, trailing dot, IPv4, IPv6, IPv6 zone} x {direct, tunnel http proxy, tunnel https proxy, "
            "forwarding https proxy} (proxy: context, assert_hostname, assert_fingerprint, issuer, identity). quick: core "
            "sub-lattice + random points with the fake TLS layer; thorough: more fake points + real handshakes on "
            "loopback. non-trivial = a TLS layer call was made with at least one non-default setting")
    assumptions = ["handshake contract (DESIGN §5): succeeds iff (verify_mode = NONE or chain valid) and (not check_hostname "
                   "or OpenSSL name match); validated against OpenSSL by the real-handshake tier",
                   "urllib3's match_hostname, assert_fingerprint and is_ipaddress enter the model as oracle tables (C08)",
                   "CONNECT is always answered 200 (tunnel failures are C09's subject)"]
    trusted = ["OpenSSL / pyOpenSSL chain building and name matching (oracle with stated contract)",
               "CPython ssl.SSLContext setter side conditions (modelled: CERT_NONE refused while check_hostname is on)"]
    time_budget = {"quick": 110, "thorough": 1100}
    batch = 3000

    # ------------------------------------------------------------ generation
    def rand_case(self, rng, tier):
        c = dict(DEFAULT_CASE)
        c["tier"] = tier
        c["backend"] = "pyopenssl" if rng.random() < 0.3 else "ssl"
        c["ncn"] = 0 if rng.random() < 0.12 else 1
        c["mode"] = rng.choice(["d", "d", "d", "th", "ts", "ts", "fw"])
        c["host"] = rng.choice(["plain", "plain", "upper", "dot", "v4", "v6", "v6zone"])
        c["cert_reqs"] = rng.choice(list(CERT_REQS))
        c["ah"] = rng.choice(["unset", "unset", "unset", "false", "dns", "wrong", "v4", "v6b", "empty", "star"])
        c["fp"] = rng.choice(["unset", "unset", "unset", "right", "right_md5", "wrong", "badlen", "empty"])
        c["sh"] = rng.choice(["unset", "unset", "unset", "dns", "dnsdot", "wrong", "v6", "other"])
        c["ctx"] = rng.choice(["none", "none", "default", "nocheck", "cnone", "default_cn", "nocheck_cn", "optional"])
        c["ctx_ca"] = rng.choice([0, 1])
        c["ctx_kind"] = "stdlib" if rng.random() < 0.2 else "native"
        c["ca"] = rng.choice(["none", "fileA", "fileA", "fileA", "dataA", "dataA", "fileB", "fileB"])
        c["issuer"] = rng.choice(["A", "A", "B"] if tier == "real" else ["A", "A", "B", "S"])
        c["san"] = rng.choice(REAL_SANS if tier == "real" else list(SANS))
        if tier == "real" and c["backend"] == "pyopenssl" and c["ca"] == "dataA":
            # PyOpenSSLContext.load_verify_locations(None, None, cadata) raises "unable to load trusted
            # certificates" before looking at cadata (fails closed; inside ssl_wrap_socket, outside the model)
            c["ca"] = "fileA"
        if c["mode"] in ("ts", "fw"):
            c["pissuer"] = rng.choice(["A", "A", "B"] if tier == "real" else ["A", "A", "B", "S"])
            c["psan"] = rng.choice(["match", "match", "mismatch"])
        if c["mode"] == "ts":
            c["pctx"] = rng.choice(["none", "none", "default", "nocheck", "cnone"])
            c["pctx_ca"] = rng.choice([0, 1])
            c["pah"] = rng.choice(["unset", "unset", "false", "proxy", "wrong"])
            c["pfp"] = rng.choice(["unset", "unset", "right", "wrong", "badlen"])
        return c

    def core_cases(self, tier, backend):
        for cr, ah, fp, ctx, issuer, san in itertools.product(
                ["unset", "cR", "fO", "sN"], ["unset", "false", "dns", "wrong"], ["unset", "right", "wrong", "badlen"],
                ["none", "default", "nocheck"], "AB", ["match", "mismatch", "wildcard", "ip"]):
            c = dict(DEFAULT_CASE)
            c.update(tier=tier, backend=backend, cert_reqs=cr, ah=ah, fp=fp, ctx=ctx, issuer=issuer, san=san)
            yield c

    def cases(self, rng, tier, escalate=False):
        deep = tier == "thorough" or escalate
        # the pinned-proxy tunnel (DESIGN §7) and its neighbours, always
        for cr in ("sN", "cO", "unset"):
            for pfp in ("right", "unset", "wrong"):
                for fp in ("unset", "right"):
                    c = dict(DEFAULT_CASE)
                    c.update(mode="ts", cert_reqs=cr, pfp=pfp, fp=fp)
                    yield c
        for a in ("fp", "ah", "ahf"):
            for san_b in ("mismatch", "match", "wildcard"):
                yield {"kind": "overlap", "a": a, "san_b": san_b}
        yield from self.core_cases("fake", "ssl")
        # name shapes of SANS_FAKE wherever urllib3 itself (not the TLS backend) does the matching
        for san in SANS_FAKE:
            for host in ("plain", "v4", "v6"):
                for backend, ctx, ah in (("ssl", "none", "dns"), ("ssl", "none", "v4"), ("ssl", "nocheck", "unset"),
                                         ("pyopenssl", "none", "unset"), ("ssl", "none", "unset"), ("ssl", "none", "v6b")):
                    c = dict(DEFAULT_CASE)
                    c.update(san=san, host=host, backend=backend, ctx=ctx, ah=ah)
                    yield c
        # the OS default store (scripted: it holds CA "S" only) must be consulted iff no CA material at all
        # was configured and urllib3 built the context itself
        for ca, ctx, ctx_ca, backend, mode, cr in itertools.product(
                CA_KINDS, ["none", "default", "nocheck"], [0, 1], ["ssl", "pyopenssl"], MODES, ["unset", "cO", "sN"]):
            c = dict(DEFAULT_CASE)
            c.update(ca=ca, ctx=ctx, ctx_ca=ctx_ca, backend=backend, mode=mode, cert_reqs=cr, issuer="S",
                     pissuer="S" if mode in ("ts", "fw") else "A")
            yield c
        for c in self.core_cases("fake", "pyopenssl"):
            if c["san"] in ("match", "mismatch") or deep:
                yield c
        for mode in ("th", "ts", "fw"):
            for host in HOST_FORMS:
                for sh in SH:
                    for san in SANS:
                        c = dict(DEFAULT_CASE)
                        c.update(mode=mode, host=host, sh=sh, san=san)
                        yield c
        for _ in range(120000 if deep else 16000):
            yield self.rand_case(rng, "fake")
        if deep:
            for backend in ("ssl", "pyopenssl"):
                for c in self.core_cases("real", backend):
                    yield c
            for _ in range(40000):
                yield self.rand_case(rng, "real")
        else:
            for _ in range(700):
                yield self.rand_case(rng, "real")

    def shrink_candidates(self, case):
        if case.get("kind") == "overlap":
            return
        for k, v in DEFAULT_CASE.items():
            if k != "tier" and case.get(k, v) != v:
                c = dict(case)
                c[k] = v
                yield c

    def nontrivial(self, case, impl_out):
        if case.get("kind") == "overlap":
            return True
        return any(case.get(k) != v for k, v in DEFAULT_CASE.items() if k != "tier") and "wraps=-" not in impl_out[0]

    # ------------------------------------------------------------ building the settings of a case
    def build_ctx(self, shape, own_ca, kind, backend, real, lb):
        if shape == "none":
            return None
        vm, ch, cn = CTX_SHAPES[shape]
        mode = {"N": ssl.CERT_NONE, "O": ssl.CERT_OPTIONAL, "R": ssl.CERT_REQUIRED}[vm]
        if backend == "pyopenssl" and kind == "native":
            from urllib3.contrib.pyopenssl import PyOpenSSLContext
            ctx = PyOpenSSLContext(ssl.PROTOCOL_TLS_CLIENT)
            ctx.verify_mode = mode
            ctx.check_hostname = ch            # a plain attribute on this class
            if cn:
                ctx.hostname_checks_common_name = True
        else:
            ctx = ssl.SSLContext(ssl.PROTOCOL_TLS_CLIENT)
            ctx.check_hostname = False
            ctx.verify_mode = mode
            if ch:
                ctx.check_hostname = True      # CERT_OPTIONAL stays, CERT_NONE cannot occur with ch
            ctx.hostname_checks_common_name = cn
        if own_ca:
            _CTX_CA[id(ctx)] = 1
            if real:
                ctx.load_verify_locations(cadata=lb.ca_pem["A"]) if isinstance(ctx, ssl.SSLContext) \
                    else ctx.load_verify_locations(cafile=lb.ca_file["A"])
        return ctx

    @staticmethod
    def pin(kind, der):
        if kind == "unset":
            return None
        if kind == "empty":
            return ""
        if kind == "right":
            return hashlib.sha256(der).hexdigest()
        if kind == "right_md5":
            h = hashlib.md5(der).hexdigest().upper()
            return ":".join(h[i:i + 2] for i in range(0, len(h), 2))
        if kind == "wrong":
            return hashlib.sha256(der + b"x").hexdigest()
        if kind == "badlen":
            return hashlib.sha256(der).hexdigest()[:-2]
        raise ValueError(kind)

    # ------------------------------------------------------------ execution
    def execute(self, case, res):
        global _REC
        if case.get("kind") == "overlap":
            return self.exec_overlap(case, res)
        case = {**DEFAULT_CASE, **case}
        import urllib3
        import urllib3.connection as ucn
        import urllib3.util.ssl_ as ussl
        from urllib3.exceptions import InsecureRequestWarning, SSLError, MaxRetryError, ProxyError, ProxySchemeUnsupported

        real = case["tier"] == "real"
        backend = case["backend"]
        res.bump(f"tier:{case['tier']}/{backend}")
        res.bump("mode:" + case["mode"])
        lb = loopback() if real else None
        mode = case["mode"]
        ident_o = SANS[case["san"]]
        ident_p = PSANS[case["psan"]]
        if real:
            o_info = lb.origins[(case["issuer"], case["san"])]
            p_info = lb.proxies[("plain",)] if mode == "th" else lb.proxies[(case["pissuer"], case["psan"])]
            der_o, der_p = o_info["der"], p_info["der"]
            o_port, p_port = o_info["port"], p_info["port"]
        else:
            der_o = b"DER-origin-" + case["issuer"].encode() + case["san"].encode()
            der_p = b"DER-proxy-" + case["pissuer"].encode() + case["psan"].encode()
            o_port, p_port = 443, (3128 if mode == "th" else 8443)

        rec = _REC = Rec()
        _CTX_CA.clear()
        _CTX_SYS.clear()
        _CTX_KEEP.clear()
        saved_ncn = ussl.HAS_NEVER_CHECK_COMMON_NAME
        injected = False
        cur = {}
        try:
            if backend == "pyopenssl":
                import urllib3.contrib.pyopenssl as pyo
                pyo.inject_into_urllib3()
                injected = True
            ussl.HAS_NEVER_CHECK_COMMON_NAME = bool(case["ncn"])
            _, RecPool = make_classes()

            kw = {}
            if CERT_REQS[case["cert_reqs"]] is not None:
                kw["cert_reqs"] = CERT_REQS[case["cert_reqs"]]
            if AH[case["ah"]] is not None:
                kw["assert_hostname"] = AH[case["ah"]]
            # in forwarding mode the connection's TLS peer is the proxy
            peer_der = der_p if mode == "fw" else der_o
            if case["fp"] != "unset":
                kw["assert_fingerprint"] = self.pin(case["fp"], peer_der)
            if SH[case["sh"]] is not None:
                kw["server_hostname"] = SH[case["sh"]]
            ctx = self.build_ctx(case["ctx"], case["ctx_ca"], case["ctx_kind"], backend, real, lb)
            if ctx is not None:
                kw["ssl_context"] = ctx
            ca = case["ca"]
            if ca == "fileA":
                kw["ca_certs"] = lb.ca_file["A"] if real else "/ca/A.pem"
            elif ca == "fileB":
                kw["ca_certs"] = lb.ca_file["B"] if real else "/ca/B.pem"
            elif ca == "dataA":
                kw["ca_cert_data"] = lb.ca_pem["A"] if real else "PEM-A"
            ca_name = {"none": None, "fileA": "A", "dataA": "A", "fileB": "B"}[ca]
            pkw = {}
            if mode == "ts":
                pctx = self.build_ctx(case["pctx"], case["pctx_ca"], case["ctx_kind"], backend, real, lb)
                if pctx is not None:
                    pkw["proxy_ssl_context"] = pctx
                if PAH[case["pah"]] is not None:
                    pkw["proxy_assert_hostname"] = PAH[case["pah"]]
                if case["pfp"] != "unset":
                    pkw["proxy_assert_fingerprint"] = self.pin(case["pfp"], der_p)

            # ---- the TLS layer: recorder (+ fake handshake) around urllib3.connection.ssl_wrap_socket
            def identity_of(sock, tls_in_tls):
                if mode == "fw" or (mode == "ts" and not tls_in_tls):
                    return "proxy", ident_p, der_p, case["pissuer"]
                return "origin", ident_o, der_o, case["issuer"]

            def tls_hook(sock, info):
                c = info["context"]
                who, ident, der, issuer = identity_of(sock, info["tls_in_tls"])
                stdlib = isinstance(c, ssl.SSLContext)
                if info["tls_in_tls"] and not hasattr(c, "wrap_bio"):
                    raise ProxySchemeUnsupported("TLS in TLS requires SSLContext.wrap_bio()")
                vm = c.verify_mode
                if vm != ssl.CERT_NONE:
                    trusted = (cur.get("ca") == issuer) or (_CTX_CA.get(id(c)) and issuer == "A") or \
                        (issuer == "S" and id(c) in _CTX_SYS)
                    if not trusted:
                        raise ssl.SSLCertVerificationError(1, "certificate verify failed: unable to get local issuer certificate")
                if stdlib and c.check_hostname:
                    if not ref_match(ident, info["sni"], bool(c.hostname_checks_common_name)):
                        raise ssl.SSLCertVerificationError(1, "certificate verify failed: Hostname mismatch")
                return {"cert": cert_dict(ident) if (vm != ssl.CERT_NONE or not stdlib) else {}, "der": der}

            inner = {}

            def wrap_recorder(sock, keyfile=None, certfile=None, cert_reqs=None, ca_certs=None, server_hostname=None,
                              ssl_version=None, ciphers=None, ssl_context=None, ca_cert_dir=None, key_password=None,
                              ca_cert_data=None, tls_in_tls=False):
                rec.wraps.append((server_hostname, VM.get(getattr(ssl_context, "verify_mode", None), "?"),
                                  int(bool(getattr(ssl_context, "check_hostname", False))),
                                  int(bool(ca_certs or ca_cert_dir or ca_cert_data)), int(bool(tls_in_tls)),
                                  int(id(ssl_context) in _CTX_SYS)))
                given = ca_certs or ca_cert_data
                cur["ca"] = None if not given else ("A" if given in ("/ca/A.pem", "PEM-A") or (real and given in (lb.ca_file["A"], lb.ca_pem["A"])) else "B")
                return inner["f"](sock, keyfile=keyfile, certfile=certfile, cert_reqs=cert_reqs, ca_certs=ca_certs,
                                  server_hostname=server_hostname, ssl_version=ssl_version, ciphers=ciphers,
                                  ssl_context=ssl_context, ca_cert_dir=ca_cert_dir, key_password=key_password,
                                  ca_cert_data=ca_cert_data, tls_in_tls=tls_in_tls)

            host_url = HOST_FORMS[case["host"]]
            url = f"https://{host_url}:{o_port}/"
            outcome = None
            exc = None
            if real:
                ctxmgr = self.real_network(lb, inner, wrap_recorder)
            else:
                ctxmgr = self.fake_network(inner, wrap_recorder, tls_hook, o_port, p_port)
            with ctxmgr as net:
                with warnings.catch_warnings(record=True) as wlist:
                    warnings.simplefilter("always")
                    if mode == "d":
                        pm = urllib3.PoolManager(retries=False, **kw)
                    else:
                        scheme = "http" if mode == "th" else "https"
                        pm = urllib3.ProxyManager(f"{scheme}://{PROXY}:{p_port}", use_forwarding_for_https=(mode == "fw"),
                                                  retries=False, **pkw, **kw)
                    pm.pool_classes_by_scheme = {**pm.pool_classes_by_scheme, "https": RecPool}
                    try:
                        r = pm.urlopen("GET", url)
                        outcome = ("ok", r.status)
                    except Exception as e:          # noqa: BLE001 - the class is the observation
                        exc = e
                        outcome = ("exc", type(e).__name__)
                warned = any(issubclass(w.category, InsecureRequestWarning) for w in wlist)
                conn_open = [c for c in rec.conns if c.sock is not None]
                if real:
                    sockets_open = len(conn_open)
                    pm.clear()
                    for c in conn_open:
                        c.close()
                    recs = lb.settle(rec.tcp)
                    origin_bytes = any(x["role"] == "origin" and x["bytes"] for x in recs) or \
                        any(x["role"] == "proxy" and x.get("forwarded") for x in recs)
                    proxy_bytes = any(x["role"] == "proxy" and x["bytes"] and not x.get("forwarded") for x in recs)
                else:
                    origin_bytes = False
                    for s_ in net.socks:
                        raw = bytes(net.sent.get(s_.sid, b""))
                        if mode in ("th", "ts"):
                            _, sep, rest = raw.partition(b"\r\n\r\n")
                            if sep and rest:
                                origin_bytes = True
                        elif raw:
                            origin_bytes = True
                    proxy_bytes = mode in ("th", "ts") and any(net.sent.get(s_.sid) for s_ in net.socks)
                    sockets_open = len(net.open_sockets()) if exc is not None else len(conn_open)
                    pm.clear()
        finally:
            ussl.HAS_NEVER_CHECK_COMMON_NAME = saved_ncn
            if injected:
                pyo.extract_from_urllib3()
            if real:
                with lb.lock:
                    lb.records.clear()
                    lb.extra = 0

        # ---- model input from what the connection object was given
        if not rec.conns:
            raise RuntimeError(f"no connection object was created: {outcome}")
        conn = rec.conns[0]
        snap = conn._c07
        line = self.model_line(case, snap, ident_o, ident_p, der_o, der_p, ca_name, real)
        # ---- canonical observation
        wraps = ";".join(f"{enc(sh) if sh else '-'}/{vm}/{ch}/{cag}/{tit}/{ld}" for sh, vm, ch, cag, tit, ld in rec.wraps) or "-"
        tail = f"wraps={wraps} warn={int(warned)} req={int(origin_bytes)} closed={int(exc is not None and sockets_open == 0)}"
        if exc is None:
            iv, piv = rec.after[-1] if rec.after else (None, None)
            sni = rec.wraps[-1][0] if rec.wraps else ""
            obs = f"ok iv={int(bool(iv))} piv={'~' if piv is None else int(bool(piv))} sni={enc(sni)} {tail}"
        else:
            obs = f"err={self.exc_class(exc)} {tail}"
        lines = ["run " + line, "dem " + line]
        out = [obs, self.reference_demands(case, snap)]
        self.oracle(case, res, exc, origin_bytes, proxy_bytes, warned, rec, sockets_open)
        return lines, out

    # ------------------------------------------------------------ two handshakes overlapping on one shared SSLContext
    def exec_overlap(self, case, res):
        """Connection A (fingerprint pin / assert_hostname / assert_hostname=False) and connection B (default
        settings, certificate for ANOTHER name from the trusted CA) share one caller-supplied SSLContext and run in
        two threads.  B's TLS socket is created while A's handshake is in progress and B's handshake completes
        after A has finished: whatever A does to the shared context, B's request must not be sent (fake tier; the
        fake handshake, like the stdlib, decides about the backend's own name check when the socket is created)."""
        import urllib3
        import hashlib as _hl
        from ..net import Net, Server, http_response
        res.bump("tier:fake/overlap")
        ctx = ssl.SSLContext(ssl.PROTOCOL_TLS_CLIENT)
        host_a, host_b = "a.example.test", DNS
        der_a = b"DER-overlap-A"
        ident_b = SANS[case.get("san_b", "mismatch")]
        a_in, b_in, a_done = threading.Event(), threading.Event(), threading.Event()
        b_started = []
        sent_b = []
        net = Net()

        def origin(peer, req):
            if (req.headers and dict((k.lower(), v) for k, v in req.headers).get("host", "").startswith(host_b)):
                sent_b.append(req.target)
            peer.reply(http_response(200, body=b"ok"))
        net.default_server = Server(origin)

        def tls_hook(sock, info):
            c = info["context"]
            if info["sni"] == host_a:
                a_in.set()
                b_in.wait(3.0)
                return {"cert": {"subjectAltName": (("DNS", host_a),)}, "der": der_a}
            captured = bool(c.check_hostname)           # the backend decides now, at socket creation
            b_started.append(captured)
            b_in.set()
            a_done.wait(3.0)
            if captured and not ref_match(ident_b, info["sni"], False):
                raise ssl.SSLCertVerificationError(1, "certificate verify failed: Hostname mismatch")
            return {"cert": cert_dict(ident_b), "der": b"DER-overlap-B"}
        net.tls_hook = tls_hook

        akw = {"fp": {"assert_fingerprint": _hl.sha256(der_a).hexdigest()}, "ah": {"assert_hostname": host_a},
               "ahf": {"assert_hostname": False}}[case.get("a", "fp")]
        out = {}

        def run_a():
            try:
                pm = urllib3.PoolManager(ssl_context=ctx, retries=False, **akw)
                out["a"] = pm.urlopen("GET", f"https://{host_a}/a").status
            except Exception as e:              # noqa: BLE001
                out["a"] = type(e).__name__
            finally:
                a_done.set()

        def run_b():
            a_in.wait(3.0)
            try:
                pm = urllib3.PoolManager(ssl_context=ctx, retries=False)
                out["b"] = pm.urlopen("GET", f"https://{host_b}/b").status
            except Exception as e:              # noqa: BLE001
                out["b"] = type(e).__name__

        with warnings.catch_warnings():
            warnings.simplefilter("ignore")
            with net.installed(fake_tls=True):
                ta, tb = threading.Thread(target=run_a), threading.Thread(target=run_b)
                ta.start(); tb.start(); ta.join(10); tb.join(10)
        res.bump(f"overlap:a={out.get('a')}:b={out.get('b')}")
        mismatch = not ref_match(ident_b, host_b, False)
        if mismatch and (sent_b or out.get("b") == 200):
            res.failures.append(Failure(signature="request-sent-unchecked:overlap-on-shared-context:hostname",
                                        what=f"two connections sharing one caller-supplied SSLContext with overlapping handshakes "
                                             f"(A: {sorted(akw)}, B: default settings): B's request was sent to a peer whose "
                                             f"certificate does not match {host_b!r} — neither the TLS backend nor urllib3 "
                                             f"checked the name (A outcome {out.get('a')}, B outcome {out.get('b')})", case=case))
        if not mismatch and out.get("b") != 200:
            res.failures.append(Failure(signature="overlap:matching-peer-refused", what=f"B refused although its certificate matches: {out}", case=case))
        return [], []

    @staticmethod
    def exc_class(e):
        from urllib3.exceptions import SSLError, ProxyError, MaxRetryError
        name = type(e).__name__
        if isinstance(e, ProxyError) and isinstance(getattr(e, "original_error", None), SSLError):
            return "ProxyError/SSLError"
        return name

    # ------------------------------------------------------------ networks
    def fake_network(self, inner, wrap_recorder, tls_hook, o_port, p_port):
        import contextlib
        import urllib3.connection as ucn
        from ..net import Net, Server, http_response

        @contextlib.contextmanager
        def cm():
            net = Net()

            def origin(peer, req):
                peer.reply(http_response(200, body=b"ok"))

            def proxy(peer, req):
                if req.method == "CONNECT":
                    h, p = req.target.rsplit(":", 1)
                    peer.tunnel_to = ("origin", 0)
                    peer.reply(b"HTTP/1.1 200 Connection established\r\n\r\n")
                else:
                    peer.reply(http_response(200, body=b"fw"))

            net.default_server = Server(origin)
            net.servers[("origin", 0)] = Server(origin)
            net.servers[(PROXY, p_port)] = Server(proxy)
            net.tls_hook = tls_hook
            saved_ldc = ssl.SSLContext.load_default_certs

            def load_default_certs(self, *a, **kw):
                # the scripted OS trust store: it contains CA "S" only (nothing is read from the machine)
                _CTX_SYS.add(id(self))
                _CTX_KEEP.append(self)

            with net.installed(fake_tls=True):
                inner["f"] = ucn.ssl_wrap_socket
                ucn.ssl_wrap_socket = wrap_recorder
                ssl.SSLContext.load_default_certs = load_default_certs
                try:
                    yield net
                finally:
                    ucn.ssl_wrap_socket = inner["f"]
                    ssl.SSLContext.load_default_certs = saved_ldc
        return cm()

    def real_network(self, lb, inner, wrap_recorder):
        import contextlib
        import types
        import urllib3.connection as ucn
        import urllib3.util.connection as uconn

        @contextlib.contextmanager
        def cm():
            real_socket = uconn.socket

            class Shim(types.ModuleType):
                def __getattr__(self, name):
                    return getattr(real_socket, name)

            shim = Shim("socket")

            def getaddrinfo(host, port, family=0, type=0, proto=0, flags=0):
                h = host.rstrip(".").lower()
                if h.endswith(".example.test"):
                    host = "127.0.0.1"
                elif "%" in host:
                    host = host[: host.rfind("%")]     # glibc refuses a zone on ::1; resolution is not C07's subject
                return real_socket.getaddrinfo(host, port, family, type, proto, flags)

            shim.getaddrinfo = getaddrinfo
            saved_ldc = ssl.SSLContext.load_default_certs

            def load_default_certs(self, *a, **kw):
                # recorded, and performed: the real tier handshakes against the machine's own store
                _CTX_SYS.add(id(self))
                _CTX_KEEP.append(self)
                return saved_ldc(self, *a, **kw)

            inner["f"] = ucn.ssl_wrap_socket
            ucn.ssl_wrap_socket = wrap_recorder
            uconn.socket = shim
            ssl.SSLContext.load_default_certs = load_default_certs
            try:
                yield None
            finally:
                ssl.SSLContext.load_default_certs = saved_ldc
                uconn.socket = real_socket
                ucn.ssl_wrap_socket = inner["f"]
        return cm()

    # ------------------------------------------------------------ model line
    def model_line(self, case, snap, ident_o, ident_p, der_o, der_p, ca_name, real):
        from urllib3.util.ssl_ import is_ipaddress, assert_fingerprint
        from urllib3.exceptions import SSLError

        def cr_tok(v):
            if v is None:
                return "u"
            if isinstance(v, str):
                return ("f" if v.startswith("CERT_") else "s") + v.replace("CERT_", "")[0]
            return "c" + VM[v]

        def ah_tok(v):
            if v is None:
                return "u"
            if v is False:
                return "f"
            return "n:" + enc(v)

        proxy = snap.get("proxy")
        tunnel = snap.get("_tunnel")
        if proxy is None:
            mode = "d"
        elif tunnel is None:
            mode = "fw"
        else:
            mode = "ts" if tunnel[1] == "https" else "th"
        pc = snap.get("proxy_config")
        th = tunnel[0] if tunnel else ""
        pah = pc.assert_hostname if pc is not None else None
        pfp = pc.assert_fingerprint if pc is not None else None
        ca_given = bool(snap.get("ca_certs") or snap.get("ca_cert_dir") or snap.get("ca_cert_data"))
        ah, fp, sh = snap.get("assert_hostname"), snap.get("assert_fingerprint"), snap.get("server_hostname")
        # oracle tables
        issuer_o, issuer_p = case["issuer"], case["pissuer"]

        def peer_bits(issuer):
            return f"{int(ca_name == issuer)}{int(issuer == 'S')}{int(issuer == 'A')}"

        names = closure([snap.get("host"), th, sh, ah if isinstance(ah, str) else None, pah if isinstance(pah, str) else None])
        rows = []
        for n in names:
            bits = [is_ipaddress(n)]
            for ident in (ident_o, ident_p):
                bits += [ref_match(ident, n, False), ref_match(ident, n, True), u3_match(ident, n, False), u3_match(ident, n, True)]
            rows.append(("" if not n else enc(n)) + ":" + "".join(str(int(b)) for b in bits))
        pins = []
        for p in sorted({x for x in (fp, pfp) if isinstance(x, str)}):
            bits = []
            for der in (der_o, der_p):
                try:
                    assert_fingerprint(der, p)
                    bits.append(1)
                except SSLError:
                    bits.append(0)
            pins.append(("" if not p else enc(p)) + ":" + "".join(map(str, bits)))
        import urllib3.util.ssl_ as ussl
        toks = [f"py={int(case['backend'] == 'pyopenssl')}", f"ncn={int(case['ncn'])}", f"host={enc(snap.get('host'))}",
                f"cr={cr_tok(snap.get('cert_reqs'))}", f"ah={ah_tok(ah)}", f"fp={enc(fp)}", f"sh={enc(sh)}",
                f"ctx={snap['_ctx']}", f"ca={int(ca_given)}", f"mode={mode}", f"th={enc(th)}",
                f"pctx={snap['_pctx']}", f"pah={ah_tok(pah)}", f"pfp={enc(pfp)}",
                f"oo={peer_bits(issuer_o)}", f"op={peer_bits(issuer_p)}",
                "names=" + (",".join(rows) or "-"), "pins=" + (",".join(pins) or "-")]
        return " ".join(toks)

    # ------------------------------------------------------------ the property, read off the case (no model, no internals)
    def eff_cert_reqs(self, case):
        cr = case["cert_reqs"]
        if cr != "unset":
            return cr[1]
        if case["ctx"] != "none":
            return CTX_SHAPES[case["ctx"]][0]
        return "R"

    def peer_demand(self, case, eff, ctx_shape, ctx_ca, ah, fp_kind, target):
        """what the settings ask of one peer: (chain?, anchors 'A'/'B' set, name or None, cn policy, pin kind or None)"""
        pinned = fp_kind not in ("unset", "empty")
        anchors = set()
        if case["ca"] != "none":
            anchors.add("A" if case["ca"] in ("fileA", "dataA") else "B")
        if ctx_shape != "none" and ctx_ca:
            anchors.add("A")
        if case["ca"] == "none" and ctx_shape == "none" and case["backend"] != "pyopenssl":
            anchors.add("S")        # nothing configured: the OS default store is what the settings ask for
        name = None
        if eff != "N" and ah is not False and not pinned:
            name = ah or target
        cn = CTX_SHAPES[ctx_shape][2] if ctx_shape != "none" else False
        return {"chain": eff != "N", "anchors": anchors, "name": name, "cn": cn, "pin": fp_kind if pinned else None}

    def demands_of(self, case):
        eff = self.eff_cert_reqs(case)
        host = HOST_FORMS[case["host"]]
        sh = SH[case["sh"]]
        mode = case["mode"]
        target = sh if sh is not None else (PROXY if mode == "fw" else host)
        d = {"eff": eff, "main": self.peer_demand(case, eff, case["ctx"], case["ctx_ca"], AH[case["ah"]], case["fp"], target)}
        if mode == "ts":
            d["proxy"] = self.peer_demand(case, eff, case["pctx"], case["pctx_ca"], PAH[case["pah"]], case["pfp"], PROXY)
        return d

    def reference_demands(self, case, snap):
        """the harness's own reading of the settings, printed in the format of the model's `dem` line
        (names as the connection object holds them: the pool's host normalisation is C14/C15's subject)"""
        eff = self.eff_cert_reqs(case)
        tunnel = snap.get("_tunnel")
        sh = snap.get("server_hostname")
        target = (sh if sh is not None else (tunnel[0] if tunnel else snap.get("host"))).rstrip(".")

        def show(ctx_shape, ctx_ca, ah, fp, tgt):
            pinned = bool(fp)
            system = int(case["ca"] == "none" and ctx_shape == "none" and case["backend"] != "pyopenssl")
            own = int(ctx_shape != "none" and bool(ctx_ca))
            nm = "~"
            if eff != "N" and ah is not False and not pinned:
                cn = CTX_SHAPES[ctx_shape][2] if ctx_shape != "none" else False
                nm = f"{enc(ah or tgt)}/{int(cn)}"
            return (f"chain={int(eff != 'N')} trust={int(case['ca'] != 'none')}{system}{own} name={nm} "
                    f"pin={enc(fp) if pinned else '~'}")

        main = show(case["ctx"], case["ctx_ca"], snap.get("assert_hostname"), snap.get("assert_fingerprint"), target)
        prox = "~"
        if case["mode"] == "ts":
            pc = snap.get("proxy_config")
            prox = show(case["pctx"], case["pctx_ca"], pc.assert_hostname, pc.assert_fingerprint, snap.get("host").rstrip("."))
        return f"eff={eff} origin: {main} proxy: {prox}"

    def satisfiable(self, dem, ident, issuer, pin_kind_ok):
        """can this server identity pass the demanded checks?  list of the checks it cannot pass"""
        bad = []
        if dem["chain"] and issuer not in dem["anchors"]:
            bad.append("chain")
        if dem["name"] is not None and not ref_match(ident, dem["name"], dem["cn"]):
            bad.append("hostname")
        if dem["pin"] is not None and not pin_kind_ok:
            bad.append("fingerprint")
        return bad

    def oracle(self, case, res, exc, origin_bytes, proxy_bytes, warned, rec, sockets_open):
        from urllib3.exceptions import SSLError, MaxRetryError, ProxyError, ProxySchemeUnsupported
        d = self.demands_of(case)
        mode = case["mode"]
        if mode == "fw":
            main_ident, main_issuer = PSANS[case["psan"]], case["pissuer"]
        else:
            main_ident, main_issuer = SANS[case["san"]], case["issuer"]
        bad_main = self.satisfiable(d["main"], main_ident, main_issuer, case["fp"] in ("right", "right_md5"))
        bad_proxy = []
        if "proxy" in d:
            bad_proxy = self.satisfiable(d["proxy"], PSANS[case["psan"]], case["pissuer"], case["pfp"] in ("right", "right_md5"))

        def fail(sig, what):
            res.failures.append(Failure(signature=sig, what=what, case=case))

        where = {"d": "direct", "th": "tunnel-http-proxy", "ts": "tunnel-https-proxy", "fw": "forwarding-https-proxy"}[mode]
        # (1) not one byte of the request unless the peer passed the demanded checks
        if origin_bytes and (bad_main or bad_proxy):
            which = "+".join(bad_main + ["proxy-" + b for b in bad_proxy])
            fail(f"request-sent-unchecked:{where}:{which}",
                 f"request bytes reached the server although the {which} check the settings demand cannot pass "
                 f"for this server identity ({where}, cert_reqs in force {d['eff']})")
        if proxy_bytes and bad_proxy:
            fail(f"connect-sent-unchecked:{where}:{'+'.join(bad_proxy)}",
                 f"CONNECT reached the https proxy although its {'+'.join(bad_proxy)} check cannot pass")
        # (2) a failed check raises SSLError and closes the socket
        if bad_main or bad_proxy:
            if exc is None:
                if not origin_bytes:
                    fail(f"silent-failure:{where}", "no exception although a demanded check cannot pass")
            else:
                e = exc
                inner = getattr(e, "reason", None) if isinstance(e, MaxRetryError) else getattr(e, "original_error", None) \
                    if isinstance(e, ProxyError) else None
                is_ssl = isinstance(e, SSLError) or isinstance(inner, SSLError)
                config_error = (isinstance(e, ValueError) and not isinstance(e, ProxySchemeUnsupported) and d["eff"] == "N") or \
                    (isinstance(e, ProxySchemeUnsupported) and mode == "ts" and not bad_proxy)
                if not is_ssl and not config_error:
                    fail(f"failed-check-wrong-exception:{where}:{type(e).__name__}",
                         f"a demanded check cannot pass but the exception is {type(e).__name__}, not SSLError")
                if sockets_open:
                    fail(f"failed-check-socket-open:{where}", "a demanded check failed but a socket is still open")
        if exc is not None and sockets_open:
            fail(f"socket-open-after-error:{where}", f"{type(exc).__name__} raised but a socket is still open")
        # (3) unverified direct / tunnelled connection: warning, never reported verified
        pinned = case["fp"] in ("right", "right_md5", "wrong", "badlen")
        iv = rec.after[-1][0] if rec.after else False
        if mode in ("d", "th", "ts") and origin_bytes and exc is None and d["eff"] != "R" and not pinned:
            if not warned:
                ppin = "proxy-fingerprint-pinned" if (mode == "ts" and case["pfp"] in ("right", "right_md5")) else "proxy-not-pinned"
                fail(f"unverified-no-warning:{where}:{ppin}",
                     f"request sent over a connection made without certificate validation (cert_reqs in force {d['eff']}, "
                     f"no pinned fingerprint, {where}, {ppin}) and no InsecureRequestWarning was issued")
            if iv:
                fail(f"unverified-reported-verified:{where}", "is_verified is True for a connection made without certificate validation")
        if iv and d["eff"] != "R" and not pinned:
            fail(f"verified-unsound:{where}", "is_verified True although cert_reqs is not REQUIRED and no fingerprint is pinned")


PROP = C07()
