"""C16 — HTTPHeaderDict is a case-insensitive, order-preserving multimap.

Correspondence: every op sequence is run on the real class and on `U3.Headers.step` (driver `hd`),
and the full observation vector of every live handle is compared after every op.
Oracle: an independent flat reference multimap (list of header lines) in Python.
"""
from __future__ import annotations

import itertools

from ..core import Prop, Failure, enc, enc_pairs, enc_list

NAMES = ["A", "a", "B", "b", "Set-Cookie", "set-cookie"]
VALUES = ["1", "2", "x, y", ""]
SMALL_NAMES = ["A", "a", "B"]
SMALL_VALUES = ["1", "x, y", ""]
MUT = ["set", "del", "add", "addc", "extend", "update", "setdefault", "pop", "popd", "popitem",
       "discard", "clear", "copy", "or", "ior", "ror", "pmc", "ctor"]


class Duck:
    """has keys() and __getitem__ but is neither Mapping nor Iterable"""
    def __init__(self, d):
        self._d = d

    def keys(self):
        return list(self._d.keys())

    def __getitem__(self, k):
        return self._d[k]


# ------------------------------------------------------------------ reference multimap (oracle)

def low(s):
    return s.lower()


def ref_has(f, k):
    return any(low(n) == low(k) for n, _ in f)


def ref_add(f, k, v, combine=False):
    idx = [i for i, (n, _) in enumerate(f) if low(n) == low(k)]
    if not idx:
        return f + [(k, v)]
    last = idx[-1]
    if combine:
        return f[:last] + [(f[last][0], f[last][1] + ", " + v)] + f[last + 1:]
    return f[:last + 1] + [(f[idx[0]][0], v)] + f[last + 1:]


def ref_set(f, k, v):
    idx = [i for i, (n, _) in enumerate(f) if low(n) == low(k)]
    if not idx:
        return f + [(k, v)]
    out = []
    for i, (n, x) in enumerate(f):
        if i == idx[0]:
            out.append((k, v))
        elif low(n) != low(k):
            out.append((n, x))
    return out


def ref_del(f, k):
    return [(n, x) for n, x in f if low(n) != low(k)]


def ref_merged(f):
    out = []
    for n, x in f:
        for i, (m, y) in enumerate(out):
            if low(m) == low(n):
                out[i] = (m, y + ", " + x)
                break
        else:
            out.append((n, x))
    return out


def ref_get(f, k):
    vs = [x for n, x in f if low(n) == low(k)]
    return ", ".join(vs) if vs else None


class C16(Prop):
    id = "C16"
    model = "hd"
    rule = ("op sequences over names {A,a,B,b,Set-Cookie,set-cookie} x values {'1','2','x, y',''} with every "
            "source kind (HTTPHeaderDict, dict, list of pairs, duck-typed) and up to 4 live handles; quick: "
            "exhaustive length<=2 on the reduced alphabet + random length<=30; thorough: exhaustive length<=3 + "
            "more random. After every op the full observation vector of every live handle (len, iteration, "
            "per-line and merged items, lookups under every casing, getlist, membership, item-view membership, "
            "equality matrix) is compared with the Lean model and with the flat reference multimap. "
            "non-trivial = at least one handle ends with two values under one name or two names")
    assumptions = ["str.lower() is modelled for ASCII only (names are ASCII in the generator)",
                   "MutableMapping.update/pop/popitem/setdefault/get are transcribed from CPython 3.12 _collections_abc"]
    trusted = ["CPython dict insertion-order semantics (modelled as an association list)"]
    time_budget = {"quick": 100, "thorough": 1200}
    exhaustive = {"quick": False, "thorough": False}

    # ------------------------------------------------------------ generation
    def atom_ops(self, names, values, nh):
        """all single ops applicable with `nh` live handles (handle 0 always exists)"""
        ops = []
        for h in range(nh):
            for k in names:
                ops += [["del", h, k], ["pop", h, k], ["discard", h, k]]
                ops += [["popd", h, k, "D"]]
                for v in values:
                    ops += [["set", h, k, v], ["add", h, k, v], ["addc", h, k, v], ["setdefault", h, k, v]]
            ops += [["popitem", h], ["clear", h], ["copy", h], ["pmc", h]]
            for g in range(nh):
                for o in ("extend", "update", "or", "ior", "ror"):
                    ops.append([o, h, ["hd", g]])
            ops.append(["ctor", ["hd", h]])
        return ops

    def rand_src(self, rng, nh, names, values):
        kind = rng.choice(["hd", "dict", "list", "duck", "list"])
        if kind == "hd":
            return ["hd", rng.randrange(nh)]
        n = rng.choice([0, 1, 1, 2, 3])
        ps = [[rng.choice(names), rng.choice(values)] for _ in range(n)]
        if kind in ("dict", "duck"):
            seen = {}
            for k, v in ps:
                seen[k] = v
            ps = [[k, v] for k, v in seen.items()]
        return [kind, ps]

    def rand_op(self, rng, nh, names, values):
        o = rng.choice(MUT)
        h = rng.randrange(nh)
        k = rng.choice(names + ["Content-Type", "content-length"] if rng.random() < 0.1 else names)
        v = rng.choice(values)
        if o in ("set", "add", "addc", "setdefault"):
            return [o, h, k, v]
        if o in ("del", "pop", "discard"):
            return [o, h, k]
        if o == "popd":
            return [o, h, k, "D"]
        if o in ("popitem", "clear", "copy", "pmc"):
            return [o, h]
        if o == "ctor":
            return [o, self.rand_src(rng, nh, names, values)]
        return [o, h, self.rand_src(rng, nh, names, values)]

    def cases(self, rng, tier, escalate=False):
        deep = tier == "thorough" or escalate
        # exhaustive short sequences on the reduced alphabet (handle 0 pre-exists)
        atoms = self.atom_ops(SMALL_NAMES, SMALL_VALUES, 1)
        for a in atoms:
            yield {"ops": [a], "kind": "exh1"}
        atoms2 = self.atom_ops(SMALL_NAMES, SMALL_VALUES, 2)
        for a in atoms:
            nh = 2 if a[0] in ("copy", "or", "ror", "ctor") else 1
            for b in (atoms2 if nh == 2 else atoms):
                yield {"ops": [a, b], "kind": "exh2"}
        if deep:
            seeds = [["add", 0, "A", "1"], ["set", 0, "B", "x, y"], ["add", 0, "a", ""], ["copy", 0]]
            for s in seeds:
                nh0 = 2 if s[0] == "copy" else 1
                for a in self.atom_ops(SMALL_NAMES, SMALL_VALUES, nh0):
                    nh = nh0 + (1 if a[0] in ("copy", "or", "ror", "ctor") else 0)
                    for b in self.atom_ops(SMALL_NAMES, ["1", ""], min(nh, 2)):
                        yield {"ops": [s, a, b], "kind": "exh3"}
        nrand = 60000 if deep else 6000
        for _ in range(nrand):
            n = rng.randint(3, 30)
            ops = []
            nh = 1
            for _ in range(n):
                op = self.rand_op(rng, nh, NAMES, VALUES)
                ops.append(op)
                if op[0] in ("copy", "or", "ror", "ctor") and nh < 4:
                    nh += 1
                elif op[0] in ("copy", "or", "ror", "ctor"):
                    ops.pop()
            yield {"ops": ops, "kind": "rand"}

    # ------------------------------------------------------------ execution
    @staticmethod
    def build_src(spec, hs):
        kind = spec[0]
        if kind == "hd":
            return hs[spec[1]], f"hd {spec[1]}", None
        ps = [tuple(p) for p in spec[1]]
        if kind == "dict":
            d = dict(ps)
            return d, "pairs " + enc_pairs(list(d.items())), list(d.items())
        if kind == "duck":
            d = dict(ps)
            return Duck(d), "pairs " + enc_pairs(list(d.items())), list(d.items())
        return list(ps), "pairs " + enc_pairs(ps), ps

    def observe(self, hs, refs, res, case, lines, out):
        names = NAMES
        for i, h in enumerate(hs):
            lines.append(f"obs {i}")
            items = list(h.iteritems())
            merged = list(h.itermerged())
            out.append(f"len={len(h)} keys={enc_list(list(h))} items={enc_pairs(items)} merged={enc_pairs(merged)}")
            f = refs[i]
            rm = ref_merged(f)
            probs = []
            if items != f:
                probs.append(("iteritems", items, f))
            if merged != rm:
                probs.append(("itermerged", merged, rm))
            if len(h) != len(rm):
                probs.append(("len", len(h), len(rm)))
            if list(h.keys()) != [n for n, _ in rm] or list(h.values()) != [v for _, v in rm]:
                probs.append(("keys/values", list(h.keys()), rm))
            if len(h.items()) != len(f) or list(h.items()) != f:
                probs.append(("items-view", list(h.items()), f))
            for k in names:
                lines.append(f"get {i} {enc(k)}")
                try:
                    g = h[k]
                    out.append("str " + enc(g))
                except KeyError:
                    g = None
                    out.append("KeyError")
                lines.append(f"getlist {i} {enc(k)}")
                gl = h.getlist(k)
                out.append("list " + enc_list(gl))
                lines.append(f"contains {i} {enc(k)}")
                out.append("1" if k in h else "0")
                rg = ref_get(f, k)
                if g != rg or h.get(k) != rg:
                    probs.append(("getitem " + k, g, rg))
                if gl != [x for n, x in f if low(n) == low(k)]:
                    probs.append(("getlist " + k, gl, f))
                if (k in h) != ref_has(f, k):
                    probs.append(("contains " + k, k in h, f))
            if (1 in h) or (b"A" in h):
                probs.append(("contains non-str", True, False))
            for (n, x) in f[:2]:
                lines.append(f"hasval {i} {enc(n.swapcase())} {enc(x)}")
                out.append("1" if (n.swapcase(), x) in h.items() else "0")
            for j, g2 in enumerate(hs):
                lines.append(f"eq {i} {j}")
                e = h == g2
                out.append("1" if e else "0")
                want = ({low(n): v for n, v in rm} == {low(n): v for n, v in ref_merged(refs[j])})
                if e != want or (h != g2) == e:
                    probs.append((f"eq {i} {j}", e, want))
            # equality with the accepted NON-HTTPHeaderDict source types: the per-line list, a dict of the merged
            # values, a generator of lines and a keys()/__getitem__ object describe the same multimap as `h`
            srcs = {"lines": list(f), "tuple": tuple(f), "merged-dict": dict(rm), "duck": Duck(dict(rm))}
            case_dup = {}
            for n, x in f:
                case_dup.setdefault(n, x)
            if len({low(n) for n in case_dup}) == len(case_dup) == len({low(n) for n, _ in f}) and len(f) == len(case_dup):
                srcs["exact-dict"] = dict(f)
            for nm, src in srcs.items():
                try:
                    e, ne = (h == src), (h != src)
                except Exception as ex:          # noqa: BLE001
                    probs.append((f"eqsrc {nm}", type(ex).__name__, True))
                    continue
                if e is not True or ne is not False:
                    probs.append((f"eqsrc {nm}", (e, ne), (True, False)))
            other = list(f) + [("X-Not-There", "1")]
            if (h == other) is not False or (h != other) is not True:
                probs.append(("eqsrc differing-lines", (h == other), False))
            for what, got, want in probs:
                res.failures.append(Failure(signature="multimap-mismatch:" + what.split(" ")[0],
                                            what=f"HTTPHeaderDict {what}: got {got!r}, reference multimap says {want!r}",
                                            case=case))

    def execute(self, case, res):
        from urllib3._collections import HTTPHeaderDict as HD
        hs = [HD()]
        refs = [[]]
        lines = ["new"]
        out = ["h0"]
        for op in case["ops"]:
            o = op[0]
            res.bump("op:" + o)
            try:
                if o == "ctor":
                    src, tok, ps = self.build_src(op[1], hs)
                    lines.append("ctor " + tok)
                    ref_src = list(refs[op[1][1]]) if op[1][0] == "hd" else list(ps)
                    hs.append(HD(src))
                    f = []
                    for k, v in ref_src:
                        f = ref_add(f, k, v)
                    refs.append(f)
                    out.append(f"h{len(hs) - 1}")
                    res.bump("src:" + op[1][0])
                else:
                    i = op[1]
                    h = hs[i]
                    f = refs[i]
                    if o == "set":
                        lines.append(f"set {i} {enc(op[2])} {enc(op[3])}"); h[op[2]] = op[3]; out.append("ok")
                        refs[i] = ref_set(f, op[2], op[3])
                    elif o == "add" or o == "addc":
                        c = o == "addc"
                        lines.append(f"add {i} {enc(op[2])} {enc(op[3])} {int(c)}"); h.add(op[2], op[3], combine=c); out.append("ok")
                        refs[i] = ref_add(f, op[2], op[3], c)
                    elif o == "del":
                        lines.append(f"del {i} {enc(op[2])}")
                        want_err = not ref_has(f, op[2])
                        refs[i] = ref_del(f, op[2])
                        try:
                            del h[op[2]]; out.append("ok"); err = False
                        except KeyError:
                            out.append("KeyError"); err = True
                        if err != want_err:
                            res.failures.append(Failure(signature="multimap-mismatch:del", what=f"del raised={err}, reference says {want_err}", case=case))
                    elif o == "discard":
                        lines.append(f"discard {i} {enc(op[2])}"); h.discard(op[2]); out.append("ok")
                        refs[i] = ref_del(f, op[2])
                    elif o == "setdefault":
                        lines.append(f"setdefault {i} {enc(op[2])} {enc(op[3])}")
                        r = h.setdefault(op[2], op[3]); out.append("str " + enc(r))
                        want = ref_get(f, op[2])
                        if want is None:
                            refs[i] = ref_set(f, op[2], op[3]); want = op[3]
                        if r != want:
                            res.failures.append(Failure(signature="multimap-mismatch:setdefault", what=f"setdefault returned {r!r}, reference {want!r}", case=case))
                    elif o in ("pop", "popd"):
                        d = op[3] if o == "popd" else None
                        lines.append(f"pop {i} {enc(op[2])} {enc(d)}")
                        want = ref_get(f, op[2])
                        refs[i] = ref_del(f, op[2])
                        try:
                            r = h.pop(op[2], d) if o == "popd" else h.pop(op[2])
                            out.append("str " + enc(r))
                        except KeyError:
                            r = KeyError
                            out.append("KeyError")
                        exp = want if want is not None else (d if o == "popd" else KeyError)
                        if r != exp:
                            res.failures.append(Failure(signature="multimap-mismatch:pop", what=f"pop returned {r!r}, reference {exp!r}", case=case))
                    elif o == "popitem":
                        lines.append(f"popitem {i}")
                        try:
                            k, v = h.popitem(); out.append(f"pair {enc(k)} {enc(v)}")
                            exp = (f[0][0], ref_get(f, f[0][0])) if f else None
                            if exp != (k, v):
                                res.failures.append(Failure(signature="multimap-mismatch:popitem", what=f"popitem returned {(k, v)!r}, reference {exp!r}", case=case))
                            refs[i] = ref_del(f, k)
                        except KeyError:
                            out.append("KeyError")
                            if f:
                                res.failures.append(Failure(signature="multimap-mismatch:popitem", what="popitem KeyError on non-empty", case=case))
                    elif o == "clear":
                        lines.append(f"clear {i}"); h.clear(); out.append("ok"); refs[i] = []
                    elif o == "pmc":
                        lines.append(f"pmc {i}"); h._prepare_for_method_change(); out.append("ok")
                        for n in ["Content-Encoding", "Content-Language", "Content-Location", "Content-Type",
                                  "Content-Length", "Digest", "Last-Modified"]:
                            refs[i] = ref_del(refs[i], n)
                    elif o == "copy":
                        lines.append(f"copy {i}"); hs.append(h.copy()); refs.append(list(f)); out.append(f"h{len(hs) - 1}")
                    elif o in ("extend", "update", "or", "ior", "ror"):
                        src, tok, ps = self.build_src(op[2], hs)
                        res.bump("src:" + op[2][0])
                        lines.append(f"{o} {i} {tok}")
                        src_lines = list(refs[op[2][1]]) if op[2][0] == "hd" else list(ps)
                        if o == "extend":
                            h.extend(src); out.append("ok")
                            for k, v in src_lines:
                                refs[i] = ref_add(refs[i], k, v)
                        elif o == "update":
                            h.update(src); out.append("ok")
                            upd = ref_merged(src_lines) if op[2][0] == "hd" else src_lines
                            for k, v in upd:
                                refs[i] = ref_set(refs[i], k, v)
                        elif o == "ior":
                            h |= src; hs[i] = h; out.append("ok")
                            for k, v in src_lines:
                                refs[i] = ref_add(refs[i], k, v)
                        elif o == "or":
                            hs.append(h | src); out.append(f"h{len(hs) - 1}")
                            g = list(f)
                            for k, v in src_lines:
                                g = ref_add(g, k, v)
                            refs.append(g)
                        else:
                            if op[2][0] == "duck":
                                r = HD(src); r.extend(h)      # Duck has no __or__; same code path as __ror__
                            else:
                                r = src | h if op[2][0] != "hd" else h.__ror__(src)
                            hs.append(r); out.append(f"h{len(hs) - 1}")
                            g = []
                            for k, v in src_lines:
                                g = ref_add(g, k, v)
                            for k, v in f:
                                g = ref_add(g, k, v)
                            refs.append(g)
                    else:
                        raise ValueError(o)
            except (KeyError, IndexError, TypeError, AttributeError, AssertionError) as e:
                res.failures.append(Failure(signature="unexpected-exception:" + type(e).__name__,
                                            what=f"{o} raised {type(e).__name__}: {e}", case=case))
                return lines, out
            self.observe(hs, refs, res, case, lines, out)
        return lines, out

    def nontrivial(self, case, impl_out):
        return any("," in o.split("items=")[1].split(" ")[0] for o in impl_out if o.startswith("len="))


PROP = C16()
