"""C05 — redirects are followed only as far as the effective retry policy allows.

Shared machinery of C05 and C06 (one model: `U3.Manager`, driver `manager`):

* a *case* is a redirect graph (server rules over <= 3 origins + optionally a proxy), a client
  (`PoolManager`, `ProxyManager` behind an http proxy, or a bare `HTTP(S)ConnectionPool`), a policy
  value with its placement (request keyword / pool or manager constructor), header carriers and one
  entry request;
* the real urllib3 runs the request on the in-memory network (`harness/net.py`, fake TLS); every
  request that reaches a server is logged from the *wire* (socket peer, tunnel target, request line,
  header lines, body, status sent back);
* the same case, together with the `parse_url` / `urljoin` oracle values for the strings met on a
  budget-free reference walk of the graph, is one protocol line for `u3model manager`; the model's
  ordered request log and outcome class must be textually equal to the implementation's;
* the oracles below are evaluated on the implementation's wire log only.
"""
from __future__ import annotations

import warnings
from urllib.parse import urljoin, urlsplit

from ..core import Prop, Failure, enc, enc_pairs, enc_list

REDIRECT = (301, 302, 303, 307, 308)
CONTENT_SPECIFIC = ("content-encoding", "content-language", "content-location", "content-type",
                    "content-length", "digest", "last-modified")
DEFAULT_REMOVE = ("authorization", "cookie", "proxy-authorization")
DEFAULT_PORT = {"http": 80, "https": 443}
PROXY = "http://proxy.example:3128"
AUTO_NAMES = ("host", "accept-encoding", "content-length", "transfer-encoding", "user-agent")


# ------------------------------------------------------------------------------ small helpers

def origin_of(url: str):
    """(scheme, host, port) of an absolute URL by the *stdlib* reading (independent of parse_url)"""
    s = urlsplit(url)
    scheme = (s.scheme or "http").lower()
    return (scheme, (s.hostname or "").lower(), s.port or DEFAULT_PORT.get(scheme, 80))


def request_uri_of(url: str) -> str:
    s = urlsplit(url)
    return (s.path or "/") + ("?" + s.query if s.query else "")


def enc_opt(s):
    return "~" if s is None else enc(s)


def enc_arg(a) -> str:
    if a is None:
        return "~"
    if a is False:
        return "F"
    if isinstance(a, int):
        return f"i{a}"

    def cnt(x):
        return "~" if x is None else "F" if x is False else str(x)
    rm = a.get("remove")
    return "R:%s/%s/%d/%s" % (cnt(a.get("total", 10)), cnt(a.get("redirect")), 1 if a.get("ror", True) else 0,
                              "D" if rm is None else enc_list(rm))


def build_arg(a):
    from urllib3.util.retry import Retry
    if a is None or a is False or isinstance(a, int):
        return a
    kw = {"total": a.get("total", 10), "redirect": a.get("redirect"), "raise_on_redirect": a.get("ror", True)}
    if a.get("remove") is not None:
        # the container type the caller uses for the names is free (list / tuple / set / frozenset, e.g.
        # `Retry.DEFAULT_REMOVE_HEADERS_ON_REDIRECT | {"X-Secret"}`); the policy is the set of lower-cased names
        mk = {"list": list, "tuple": tuple, "set": set, "frozenset": frozenset}[a.get("rmtype", "list")]
        kw["remove_headers_on_redirect"] = mk(a["remove"])
    return Retry(**kw)


def enc_hdrs(h) -> str:
    if h is None:
        return "~"
    return ("d:" if h[0] == "d" else "h:") + enc_pairs([tuple(p) for p in h[1]])


def build_hdrs(h):
    from urllib3._collections import HTTPHeaderDict
    if h is None:
        return None
    if h[0] == "d":
        return {k: v for k, v in h[1]}
    hd = HTTPHeaderDict()
    for k, v in h[1]:
        hd.add(k, v)
    return hd


def hdr_names(h):
    return [] if h is None else [k for k, _ in h[1]]


# ------------------------------------------------------------------------------ policy readings

def budget_of(policy, redirect_kw):
    """the property's reading of a supplied policy value: (budget, raise_on_redirect, disabled, remove)"""
    if redirect_kw is False:
        return 0, False, True, DEFAULT_REMOVE if not isinstance(policy, dict) else remove_of(policy)
    if policy is None:
        return 3, True, False, DEFAULT_REMOVE                 # Retry.DEFAULT = Retry(3)
    if policy is False:
        return 0, False, True, DEFAULT_REMOVE
    if isinstance(policy, int):
        return max(policy, 0), True, False, DEFAULT_REMOVE
    total, red = policy.get("total", 10), policy.get("redirect")
    disabled = total is False or red is False
    nums = [max(int(x), 0) for x in (total, red) if x is not None and x is not False]
    b = 0 if disabled else (min(nums) if nums else None)
    return b, (policy.get("ror", True) and not disabled), disabled, remove_of(policy)


def remove_of(policy):
    rm = policy.get("remove") if isinstance(policy, dict) else None
    return DEFAULT_REMOVE if rm is None else tuple(x.lower() for x in rm)


def supplied_policy(case):
    """(value, placement): per request if given, else the constructor's, else the default"""
    if case.get("ret") is not None:
        return case["ret"], "request"
    if case["client"] == "pool":
        if case.get("pret") is not None:
            return case["pret"], "pool"
    elif case.get("mret") is not None:
        return case["mret"], "manager"
    return None, "default"


# ------------------------------------------------------------------------------ the world

class World:
    """servers of one case on the in-memory network + the wire log"""

    def __init__(self, case):
        from ..net import Net, Server
        self.case = case
        self.net = Net()
        self.reqs = []
        self.proxy_key = None
        if case["client"] == "px":
            o = origin_of(case["proxy"])
            self.proxy_key = (o[1], o[2])
        keys = set()
        for r in case["rules"]:
            keys.add((r[1].lower(), r[2]))
        for u in case.get("urls", []):
            o = origin_of(u)
            keys.add((o[1], o[2]))
        if case["client"] == "pool":
            sc, h, p = case["pool"]
            keys.add((h.lower(), p or DEFAULT_PORT[sc]))
        if self.proxy_key:
            keys.add(self.proxy_key)
        for k in keys:
            self.net.servers[k] = Server(self.handler)

    def lookup(self, origin, method, target):
        for sc, h, p, m, t, st, loc in self.case["rules"]:
            if (sc, h, p) == origin and t == target and (m == "*" or m == method):
                return st, loc
        return 200, None

    def handler(self, peer, req):
        from ..net import http_response
        here = (peer.addr[0].lower(), peer.addr[1])
        if req.method == "CONNECT":
            h, p = req.target.rsplit(":", 1)
            peer.tunnel_to = (h.lower(), int(p))
            peer.reply(b"HTTP/1.1 200 Connection established\r\n\r\n")
            return
        if peer.tunnel_to is not None:
            dial = ("https" if (peer.tls or {}).get("outer") else "http",) + here
            dest = ("https" if peer.tls else "http",) + tuple(peer.tunnel_to)
            tunnel, key = True, req.target
        else:
            dial = ("https" if peer.tls else "http",) + here
            tunnel = False
            if here == self.proxy_key and not req.target.startswith("/"):
                dest = origin_of(req.target)                 # forwarding proxy relays to the named origin
                key = request_uri_of(req.target)
            else:
                dest, key = dial, req.target
        status, loc = self.lookup(dest, req.method, key)
        self.reqs.append({"dial": dial, "tunnel": tunnel, "dest": dest, "method": req.method,
                          "target": req.target, "key": key, "wire": list(req.headers), "body": req.body,
                          "status": status, "location": loc})
        peer.reply(http_response(status, [("Location", loc)] if loc is not None else [], b""))


def user_section(wire):
    """header lines produced by the caller's mapping: everything after the default User-Agent line
    (the generator never supplies User-Agent, so urllib3 always writes its own right before them)"""
    idx = [i for i, (k, v) in enumerate(wire) if k.lower() == "user-agent" and v.startswith("python-urllib3/")]
    if len(idx) != 1:
        return None
    return wire[idx[0] + 1:]


# ------------------------------------------------------------------------------ oracle tables

def pool_target(s):
    """what HTTPConnectionPool.urlopen puts on the request line for the URL string it was given (an oracle
    value of the model, computed with the real `_encode_target` / `parse_url`): origin-form targets are
    re-encoded; an absolute-form target is the URL without userinfo and fragment (repair 4a47f58)"""
    from urllib3.util.url import parse_url, _encode_target
    return _encode_target(s) if s.startswith("/") else parse_url(s)._replace(auth=None, fragment=None).url


def parse_entry(s):
    from urllib3.util.url import parse_url
    u = parse_url(s)
    target = pool_target(s)
    return ",".join([enc(s), enc_opt(u.scheme), enc_opt(u.host), "~" if u.port is None else str(u.port),
                     enc(u.request_uri), enc(u.url), enc_opt(u.netloc), enc(target)]), u, target


def reference_walk(case, world, max_hops=9):
    """budget-free walk of the graph: the strings whose parse_url / urljoin values the model needs.
    Returns (parse entries, join entries, urls, chain) — chain = [(url, method, status, location)]"""
    from urllib3.util.url import parse_url
    parses, joins, chain = {}, {}, []

    def need(s):
        if s not in parses:
            parses[s] = parse_entry(s)
        return parses[s]

    method = case["method"].upper() if case.get("via") else case["method"]
    cur = case["url"]
    if case["client"] == "pool":
        sc, h, p = case["pool"]
        pool_origin = (sc, h.lower(), p or DEFAULT_PORT[sc])
        for _ in range(max_hops):
            _, u, target = need(cur)
            status, loc = world.lookup(pool_origin, method, target)
            chain.append((cur, method, status, loc))
            if status not in REDIRECT or not loc:
                break
            if status == 303:
                method = "GET"
            cur = loc
    else:
        for _ in range(max_hops):
            _, u, _t = need(cur)
            need(u.request_uri)
            dest = ((u.scheme or "http"), (u.host or ""), u.port or DEFAULT_PORT.get(u.scheme or "http", 80))
            status, loc = world.lookup(dest, method, u.request_uri)
            chain.append((cur, method, status, loc))
            if status not in REDIRECT or not loc:
                break
            nxt = urljoin(cur, loc)
            joins[(cur, loc)] = nxt
            if status == 303:
                method = "GET"
            cur = nxt
        need(cur)
    return parses, joins, chain


# ------------------------------------------------------------------------------ running a case

def protocol_line(case, parses, joins, fuel=40):
    kv = [("client", case["client"])]
    if case["client"] == "pool":
        sc, h, p = case["pool"]
        kv += [("pool", f"{enc(sc)},{enc(h)},{'~' if p is None else p}"), ("pret", enc_arg(case.get("pret"))),
               ("phdr", enc_hdrs(case.get("phdr")))]
    else:
        kv += [("mret", enc_arg(case.get("mret"))), ("mhdr", enc_hdrs(case.get("mhdr")))]
        if case["client"] == "px":
            o = origin_of(case["proxy"])
            kv += [("proxy", f"{enc(o[0])},{enc(o[1])},{o[2]},0"), ("pxhdr", enc_pairs([tuple(p) for p in case.get("pxhdr", [])]))]
    rd, ash = case.get("redirect"), case.get("ash")
    kv += [("via", "1" if case.get("via") else "0"), ("method", enc(case["method"])), ("url", enc(case["url"])),
           ("body", enc_opt(case.get("body"))), ("hdr", enc_hdrs(case.get("hdr"))), ("ret", enc_arg(case.get("ret"))),
           ("redirect", "~" if rd is None else "1" if rd else "0"), ("ash", "~" if ash is None else "1" if ash else "0"),
           ("fuel", str(fuel))]
    rules = ";".join(",".join([enc(sc), enc(h), str(p), "*" if m == "*" else enc(m), enc(t), str(st), enc_opt(loc)])
                     for sc, h, p, m, t, st, loc in case["rules"]) or "-"
    kv += [("serve", rules), ("parse", ";".join(e[0] for e in parses.values()) or "-"),
           ("join", ";".join(f"{enc(b)},{enc(l)},{enc(r)}" for (b, l), r in joins.items()) or "-")]
    return "run " + " ".join(f"{k}={v}" for k, v in kv)


def show_origin(o):
    return f"{enc(o[0])}:{enc(o[1])}:{o[2]}"


def impl_line(reqs, outcome):
    parts = []
    for r in reqs:
        us = user_section(r["wire"])
        parts.append("/".join([show_origin(r["dial"]), "1" if r["tunnel"] else "0", show_origin(r["dest"]),
                               enc(r["method"]), enc(r["target"]),
                               enc_pairs(us) if us is not None else "?no-user-agent-line",
                               enc(r["body"]) if r["body"] else "~", str(r["status"])]))
    return "log=" + ("|".join(parts) if parts else "-") + " out=" + outcome


class _Sleeps(list):
    def __call__(self, t):
        self.append(t)


def run_impl(case, world):
    """the real urllib3 on the in-memory network; returns the outcome token"""
    import urllib3
    import urllib3.util.retry as uretry
    from urllib3 import PoolManager, ProxyManager, HTTPConnectionPool, HTTPSConnectionPool
    from urllib3.exceptions import HTTPError

    import time as _time
    sleeps = _Sleeps()
    mgr = None
    try:
        uretry.time = type("T", (), {"sleep": sleeps, "time": staticmethod(_time.time)})()
        with warnings.catch_warnings():
            warnings.simplefilter("ignore")
            with world.net.installed(fake_tls=True):
                kw = {}
                if case.get("body") is not None:
                    kw["body"] = case["body"].encode("latin-1")
                if case.get("hdr") is not None:
                    kw["headers"] = build_hdrs(case["hdr"])
                if case.get("ret") is not None:
                    kw["retries"] = build_arg(case["ret"])
                elif case.get("none_kw"):
                    kw["retries"] = None         # `retries=None` spelled out means the same as leaving it out
                if case.get("redirect") is not None:
                    kw["redirect"] = case["redirect"]
                if case["client"] == "pool":
                    sc, h, p = case["pool"]
                    ckw = {}
                    if case.get("pret") is not None:
                        ckw["retries"] = build_arg(case["pret"])
                    elif case.get("none_kw") and case.get("pool_via") != "manager":
                        ckw["retries"] = None
                    if case.get("phdr") is not None:
                        ckw["headers"] = build_hdrs(case["phdr"])
                    if case.get("pool_via") == "manager":
                        mgr = PoolManager()
                        client = mgr.connection_from_host(h, p, sc, pool_kwargs=ckw)
                    else:
                        client = (HTTPSConnectionPool if sc == "https" else HTTPConnectionPool)(h, p, **ckw)
                    if case.get("ash") is not None:
                        kw["assert_same_host"] = case["ash"]
                else:
                    ckw = {}
                    if case.get("mret") is not None:
                        ckw["retries"] = build_arg(case["mret"])
                    elif case.get("none_kw"):
                        ckw["retries"] = None
                    if case.get("mhdr") is not None:
                        ckw["headers"] = build_hdrs(case["mhdr"])
                    if case["client"] == "px":
                        client = ProxyManager(case["proxy"], proxy_headers=dict(case.get("pxhdr", [])) or None, **ckw)
                    else:
                        client = PoolManager(**ckw)
                    mgr = client
                try:
                    fn = client.request if case.get("via") else client.urlopen
                    try:
                        r = fn(case["method"], case["url"], **kw)
                        loc = r.headers.get("location")
                        out = f"resp:{r.status}:{enc_opt(loc)}"
                    except HTTPError as e:
                        out = type(e).__name__
                    except RecursionError:
                        out = "RecursionError"
                finally:
                    if mgr is not None:
                        mgr.clear()
                    elif case["client"] == "pool":
                        client.close()
        return out, sleeps
    finally:
        uretry.time = _time


def execute_case(case, res):
    """-> (lines, impl_out, reqs, outcome, chain)"""
    world = World(case)
    parses, joins, chain = reference_walk(case, world)
    outcome, sleeps = run_impl(case, world)
    lines = [protocol_line(case, parses, joins)]
    out = [impl_line(world.reqs, outcome)]
    return lines, out, world.reqs, outcome, chain, sleeps


# ------------------------------------------------------------------------------ generators

ORIGIN_SPELLINGS = {
    ("http", "a.example", 80): ["http://a.example", "http://A.Example", "http://a.example:80", "HTTP://A.EXAMPLE:80"],
    ("http", "a.example", 8080): ["http://a.example:8080", "http://A.example:8080"],
    ("https", "a.example", 443): ["https://a.example", "https://a.example:443", "https://A.Example"],
    ("http", "b.example", 80): ["http://b.example", "http://B.example:80"],
    ("https", "b.example", 443): ["https://b.example", "https://b.example:443"],
    ("http", "b.example", 8080): ["http://b.example:8080"],
    ("https", "a.example", 8443): ["https://a.example:8443"],
    ("http", "proxy.example", 3128): ["http://proxy.example:3128", "http://PROXY.example:3128"],
}
ORIGINS = [k for k in ORIGIN_SPELLINGS if k[1] != "proxy.example"]
SENSITIVE = ["Authorization", "authorization", "AUTHORIZATION", "aUtHoRiZaTiOn", "Cookie", "cookie", "COOKIE",
             "Proxy-Authorization", "proxy-authorization", "PROXY-AUTHORIZATION", "Proxy-authorization"]
PLAIN = ["X-Keep", "x-keep", "X-Other", "Accept-Language", "X-Secret", "x-secret"]
CONTENT = ["Content-Type", "content-type", "Content-Language", "Digest", "Last-Modified", "Content-Encoding"]


def gen_policy(rng, bounded=True):
    k = rng.randrange(12)
    if k == 0:
        return None
    if k == 1:
        return False
    if k in (2, 3):
        return rng.choice([0, 1, 2, 3, 6])
    ror = rng.random() < 0.6
    rm = rng.choice([None, None, None, ["X-Secret"], ["x-secret", "Cookie"], [], ["AUTHORIZATION"]])
    d = {"ror": ror}
    if rm is not None:
        d["remove"] = rm
        d["rmtype"] = rng.choice(["list", "frozenset", "tuple", "set", "frozenset"])
    if k in (4, 5, 6):
        d["redirect"] = rng.choice([0, 1, 2, 3, False])
        if rng.random() < 0.3:
            d["total"] = rng.choice([None, 0, 1, 5])
    elif k in (7, 8, 9):
        d["total"] = rng.choice([0, 1, 2, 5, 7, False])
    else:
        d["total"] = rng.choice([None, 1, 2, 5])
        d["redirect"] = rng.choice([0, 1, 2])
    return d


def gen_headers(rng, sensitive_bias=0.7):
    """-> hdrspec or None"""
    kind = rng.choice(["d", "d", "dd", "h", "h", None])
    if kind is None:
        return None
    n = rng.randint(1, 5)
    names = []
    for _ in range(n):
        r = rng.random()
        pool = SENSITIVE if r < sensitive_bias * 0.6 else PLAIN if r < 0.85 else CONTENT
        names.append(rng.choice(pool))
    if kind == "dd" and names:
        # case-duplicate keys in a plain dict
        base = rng.choice(names)
        names += [base.upper(), base.lower()]
    if kind in ("d", "dd"):
        seen, pairs = set(), []
        for i, nm in enumerate(names):
            if nm not in seen:
                seen.add(nm)
                pairs.append([nm, f"v{i}"])
        return ["d", pairs]
    pairs = [[nm, f"v{i}"] for i, nm in enumerate(names)]
    if rng.random() < 0.6:
        nm = rng.choice(names)
        pairs.append([rng.choice([nm, nm.lower(), nm.upper()]), "again"])
    return ["h", pairs]


def gen_graph(rng, client, origins, start_origin, max_len=6, loop_p=0.25, rel_p=0.3):
    """build a chain (optionally closed into a loop) of redirects; -> (entry url, rules, urls)"""
    spell = lambda o: rng.choice(ORIGIN_SPELLINGS[o])
    path0 = rng.choice(["/p0", "/d/p0", "/d/e/p0?x=1"])
    cur = spell(start_origin) + path0
    urls = [cur]
    rules = []
    L = rng.randint(1, max_len)
    seen_keys = set()
    for i in range(L):
        o = origin_of(cur)
        key = (o, request_uri_of(cur))
        if key in seen_keys:
            break
        seen_keys.add(key)
        status = rng.choice(REDIRECT)
        same = rng.random() < 0.4
        tgt = o if same else rng.choice(origins)
        path = rng.choice([f"/p{i + 1}", f"/d/p{i + 1}", f"/p{i + 1}?y={i}", f"/d/e/p{i + 1}"])
        r = rng.random()
        if tgt == o and r < rel_p:
            loc = rng.choice([path, f"q{i + 1}", f"../q{i + 1}", f"?z={i}", f"sub/q{i + 1}", f"./q{i + 1}#frag"])
        elif r < rel_p + 0.12 and tgt[0] == o[0]:
            hp = spell(tgt).split("://", 1)[1]
            loc = "//" + hp + path
        else:
            loc = spell(tgt) + path
            if rng.random() < 0.1:
                loc += "#frag"
        nxt = urljoin(cur, loc)
        m = "*"
        if rng.random() < 0.12:
            m = rng.choice(["GET", "POST"])
        rules.append([o[0], o[1], o[2], m, request_uri_of(cur), status, loc])
        cur = nxt
        urls.append(cur)
    o = origin_of(cur)
    key = (o, request_uri_of(cur))
    if key not in seen_keys:
        r = rng.random()
        if r < loop_p and len(urls) > 1:
            back = rng.choice(urls[:-1])
            rules.append([o[0], o[1], o[2], "*", request_uri_of(cur), rng.choice(REDIRECT), back])
        elif r < loop_p + 0.15:
            # a 3xx that must not be followed: not a redirect status, or no / empty Location
            st, loc = rng.choice([(300, "http://b.example/x"), (304, None), (305, "http://b.example/x"),
                                  (301, None), (302, ""), (306, "/x")])
            rules.append([o[0], o[1], o[2], "*", request_uri_of(cur), st, loc])
    return urls[0], rules, urls


def gen_manager_case(rng, client, emphasis="policy"):
    origins = rng.sample(ORIGINS, rng.choice([1, 2, 2, 3, 3]))
    if client == "px" and rng.random() < 0.3:
        origins = origins[:2] + [("http", "proxy.example", 3128)]
    start = rng.choice([o for o in origins if o[1] != "proxy.example"] or origins)
    entry, rules, urls = gen_graph(rng, client, origins, start)
    case = {"client": client, "rules": rules, "urls": urls, "url": entry}
    if client == "px":
        case["proxy"] = PROXY
        if rng.random() < 0.4:
            case["pxhdr"] = [["X-Px", "1"]]
    pol = gen_policy(rng)
    place = rng.choice(["request", "request", "manager", "manager", "both", "none"])
    if place in ("request", "both"):
        case["ret"] = pol
    if place == "manager":
        case["mret"] = pol
    if place == "both":
        case["mret"] = gen_policy(rng)
    rk = rng.random()
    if rk < 0.08:
        case["redirect"] = False
    elif rk < 0.14:
        case["redirect"] = True
    case["method"] = rng.choice(["GET", "GET", "POST", "POST", "PUT", "HEAD", "DELETE"])
    case["via"] = 1 if rng.random() < 0.5 else 0
    if case["method"] in ("POST", "PUT") and rng.random() < 0.7:
        case["body"] = "xy"
    h = gen_headers(rng, 0.7 if emphasis == "headers" else 0.4)
    where = rng.choice(["request", "request", "manager", "both"])
    if h is not None:
        if where in ("request", "both"):
            case["hdr"] = h
        if where == "manager":
            case["mhdr"] = h
        if where == "both":
            case["mhdr"] = gen_headers(rng)
    if case.get("body") and case.get("hdr") and rng.random() < 0.2:
        case["hdr"] = [case["hdr"][0], case["hdr"][1] + [["Content-Length", "2"]]]
    return case


def gen_pool_case(rng):
    start = rng.choice(ORIGINS)
    sc, h, p = start
    others = [o for o in ORIGINS if o != start]
    case = {"client": "pool", "pool": [sc, rng.choice([h, h.upper(), h.title()]),
                                        rng.choice([p, p, None]) if p == DEFAULT_PORT[sc] else p]}
    if rng.random() < 0.25:
        case["pool_via"] = "manager"
        if case["pool"][2] is None:
            case["pool"][2] = p
    # a chain of locations interpreted by the pool itself (no urljoin)
    rules, urls = [], []
    cur = rng.choice(["/p0", "/d/p0?x=1"])
    entry = cur
    L = rng.randint(1, 6)
    from urllib3.util.url import parse_url, _encode_target
    seen = set()
    for i in range(L):
        target = pool_target(cur)
        if target in seen:
            break
        seen.add(target)
        status = rng.choice(REDIRECT)
        r = rng.random()
        path = rng.choice([f"/p{i + 1}", f"/d/p{i + 1}?y={i}"])
        if r < 0.5:
            loc = path
        elif r < 0.75:
            loc = rng.choice(ORIGIN_SPELLINGS[start]) + path                 # same origin, any spelling
        elif r < 0.93:
            loc = rng.choice(ORIGIN_SPELLINGS[rng.choice(others)]) + path    # another origin
        else:
            loc = rng.choice([f"q{i + 1}", f"//{h}{path}"])                  # forms a bare pool does not resolve
        rules.append([sc, h, p, "*", target, status, loc])
        cur = loc
    if rng.random() < 0.25 and rules:
        target = pool_target(cur)
        if target not in seen:
            rules.append([sc, h, p, "*", target, rng.choice(REDIRECT), entry])
    case["rules"] = rules
    case["urls"] = [u for u in urls if u]
    case["url"] = entry
    pol = gen_policy(rng)
    place = rng.choice(["request", "pool", "pool", "both", "none"])
    if place in ("request", "both"):
        case["ret"] = pol
    if place == "pool":
        case["pret"] = pol
    if place == "both":
        case["pret"] = gen_policy(rng)
    rk = rng.random()
    if rk < 0.08:
        case["redirect"] = False
    if rng.random() < 0.25:
        case["ash"] = rng.choice([False, False, True])
    case["method"] = rng.choice(["GET", "POST", "POST", "PUT", "HEAD"])
    case["via"] = 1 if rng.random() < 0.4 else 0
    if case["method"] in ("POST", "PUT") and rng.random() < 0.7:
        case["body"] = "xy"
    hh = gen_headers(rng, 0.4)
    if hh is not None:
        if rng.random() < 0.6:
            case["hdr"] = hh
        else:
            case["phdr"] = hh
    return case


# ------------------------------------------------------------------------------ classification

def placement_of(case):
    return supplied_policy(case)[1]


def explained_by_default_policy(case, reqs, outcome, check):
    """would the observation satisfy `check` if the manager-level policy were simply absent (as when
    the code derived the policy from the per-request keyword only, i.e. Retry.DEFAULT here — the
    repaired defect `manager-constructor-policy-ignored`; kept to recognise it should it return)?"""
    c = dict(case)
    c.pop("mret", None)
    return not check(c, reqs, outcome)


def is_followable(r):
    return r["status"] in REDIRECT and bool(r["location"])


# ------------------------------------------------------------------------------ C05 oracles

def c05_problems(case, reqs, outcome):
    """the property text on the wire log; -> list of (kind, text)"""
    probs = []
    pol, place = supplied_policy(case)
    budget, ror, disabled, _ = budget_of(pol, case.get("redirect"))
    followed = max(len(reqs) - 1, 0)
    if not reqs:
        return probs
    # budget
    if budget is not None and followed > budget:
        probs.append(("budget", f"{followed} redirects followed, the {place} policy {pol!r} allows {budget}"))
    # disabled => one request, the 3xx returned
    if disabled and is_followable(reqs[0]):
        if followed != 0:
            probs.append(("disabled", f"redirect disabled ({place}: {pol!r}, redirect={case.get('redirect')!r}) "
                                      f"but {followed} follow-up request(s) were sent"))
        elif not outcome.startswith(f"resp:{reqs[0]['status']}:"):
            probs.append(("disabled", f"redirect disabled but the caller got {outcome} instead of the {reqs[0]['status']} response"))
    # per hop
    for a, b in zip(reqs, reqs[1:]):
        if not is_followable(a):
            probs.append(("followed-nonredirect", f"a request followed a {a['status']} reply with Location {a['location']!r}"))
            continue
        if a["status"] == 303:
            bad = [k for k, _ in b["wire"] if k.lower() in CONTENT_SPECIFIC]
            if b["method"] != "GET" or b["body"] or bad:
                probs.append(("303", f"after 303: method {b['method']}, body {b['body']!r}, content headers {bad}"))
        else:
            if b["method"] != a["method"] or b["body"] != a["body"]:
                probs.append(("30x", f"after {a['status']}: {a['method']}/{a['body']!r} became {b['method']}/{b['body']!r}"))
        if case["client"] != "pool":
            base = a["url"]
            want = urljoin(base, a["location"])
            if (b["dest"], b["key"]) != (origin_of(want), request_uri_of(want)):
                probs.append(("relative", f"Location {a['location']!r} at {base} should lead to {want}, "
                                          f"request went to {b['dest']} {b['key']}"))
    # surface
    last = reqs[-1]
    if outcome.startswith("resp:"):
        if not outcome.startswith(f"resp:{last['status']}:"):
            probs.append(("surface", f"returned {outcome}, last reply was {last['status']}"))
        elif is_followable(last) and not disabled:
            # a followable redirect came back although redirects are enabled: only legal when the
            # budget is exhausted and raise_on_redirect is False
            if ror or budget is None or followed < budget:
                probs.append(("surface", f"a followable {last['status']} was returned after {followed} redirects "
                                         f"(budget {budget}, raise_on_redirect {ror})"))
    elif outcome == "MaxRetryError":
        if not (is_followable(last) and ror and budget is not None and followed >= budget):
            probs.append(("surface", f"MaxRetryError after {followed} redirects (budget {budget}, raise_on_redirect {ror}, "
                                     f"last reply {last['status']})"))
    elif outcome == "HostChangedError":
        if case["client"] != "pool" or case.get("ash") is False:
            probs.append(("surface", "HostChangedError from a client that does not assert the host"))
    else:
        probs.append(("exception", f"unexpected outcome {outcome}"))
    return probs


def annotate_urls(case, reqs):
    """attach to every logged request the URL it was sent for (from the wire: dest + key)"""
    for r in reqs:
        sc, h, p = r["dest"]
        hp = h if p == DEFAULT_PORT.get(sc) else f"{h}:{p}"
        r["url"] = f"{sc}://{hp}{r['key']}" if r["key"].startswith("/") else r["key"]


def classify(case, reqs, outcome, kind, problems_fn):
    place = placement_of(case)
    if place == "manager":
        c = dict(case)
        c.pop("mret", None)
        still = [k for k, _ in problems_fn(c, reqs, outcome)]
        if kind not in still:
            return f"{kind}:manager-constructor-policy-ignored"
        return f"{kind}:placement=manager:unexplained"
    return f"{kind}:placement={place}:client={case['client']}"


_KNOWN_SEEN = {}


def report(res, pid, sig, what, case, detail):
    """append a Failure; a signature listed as a *known* finding is reported at most 3 times per worker
    process (afterwards only counted), so that a frequent known finding cannot exhaust the engine's
    per-shard failure limit and cut the search for new failures short"""
    from ..core import known_signatures
    if sig in known_signatures(pid):
        n = _KNOWN_SEEN.get((pid, sig), 0) + 1
        _KNOWN_SEEN[(pid, sig)] = n
        res.bump("known:" + sig)
        if n > 3:
            return
    res.failures.append(Failure(signature=sig, what=what, case=case, detail=detail))


class C05(Prop):
    id = "C05"
    model = "manager"
    rule = ("random redirect graphs over <= 3 of 7 origins (differing in host / port / scheme; spelled with "
            "different letter case and explicit default ports), chains and loops of length <= 6, every status in "
            "{301,302,303,307,308} plus non-followable 3xx, Locations absolute / absolute-path / relative / "
            "scheme-relative / with fragment; policy values {None, False, 0..3, Retry(redirect=k|False), "
            "Retry(total=k|False|None), both} x raise_on_redirect x custom remove sets, placed at the request, the "
            "pool / manager constructor, both or nowhere; redirect= kwarg; via PoolManager, ProxyManager (http "
            "proxy: forwarding http, tunnelling https) and bare HTTP(S)ConnectionPool (direct or obtained from a "
            "manager with pool_kwargs), entered through urlopen() or request(). The ordered wire log (socket "
            "peer, tunnel, answering origin, method, target, caller header lines, body, status) and the outcome "
            "class are compared with the Lean model; oracles: followed <= budget of the supplied policy; disabled "
            "=> one request and the 3xx returned; 303 => body-less GET without content headers; other codes keep "
            "method and body; relative Locations resolved by urljoin against the current URL; exhaustion => "
            "MaxRetryError or the last 3xx when raise_on_redirect is False. non-trivial = at least one redirect "
            "reply seen")
    assumptions = ["every connection attempt succeeds and no reply carries Retry-After (connection errors and status retries are C04's)",
                   "hosts are ASCII reg-names; parse_url and urljoin values enter the model as oracle values computed by the real functions",
                   "the generator never supplies a User-Agent header (the default User-Agent line delimits the caller's header lines on the wire)"]
    trusted = ["urllib.parse.urljoin / urlsplit (stdlib) as the reference for resolving Locations and naming origins",
               "urllib3.util.parse_url and _encode_target as oracle values inside the model (C14/C15 check them)",
               "harness/net.py: the in-memory network, fake TLS and the CONNECT relay"]
    time_budget = {"quick": 110, "thorough": 1100}
    emphasis = "policy"

    def cases(self, rng, tier, escalate=False):
        deep = tier == "thorough" or escalate
        n = 60000 if deep else 9000
        for i in range(n):
            r = rng.random()
            if r < 0.45:
                c = gen_manager_case(rng, "pm", self.emphasis)
            elif r < 0.75:
                c = gen_manager_case(rng, "px", self.emphasis)
            else:
                c = gen_pool_case(rng)
            if i % 4 == 0:
                c["none_kw"] = True      # every `retries` keyword that would be left out is passed as None
            yield c

    def problems(self, case, reqs, outcome):
        return c05_problems(case, reqs, outcome)

    def execute(self, case, res):
        lines, out, reqs, outcome, chain, sleeps = execute_case(case, res)
        annotate_urls(case, reqs)
        res.bump("client:" + case["client"])
        res.bump("placement:" + placement_of(case))
        res.bump("hops:%d" % max(len(reqs) - 1, 0))
        res.bump("outcome:" + outcome.split(":")[0])
        for r in reqs:
            res.bump("status:%d" % r["status"])
        if sleeps:
            res.failures.append(Failure(signature="harness:unexpected-sleep", what=f"time.sleep called: {list(sleeps)}", case=case))
        for r in reqs:
            if user_section(r["wire"]) is None:
                res.failures.append(Failure(signature="harness:no-default-user-agent-line",
                                            what="cannot delimit the caller's header lines", case=case))
        seen = set()
        for kind, text in self.problems(case, reqs, outcome):
            sig = classify(case, reqs, outcome, kind, self.problems)
            if sig in seen:
                continue
            seen.add(sig)
            report(res, self.id, sig, text, case,
                   {"outcome": outcome, "log": [(r["dest"], r["method"], r["target"], r["status"]) for r in reqs]})
        return lines, out

    def nontrivial(self, case, impl_out):
        log = impl_out[0].split(" out=")[0][4:]
        return any(seg.rsplit("/", 1)[-1].startswith("3") for seg in log.split("|"))

    def shrink_candidates(self, case):
        # drop optional fields, then shorten the graph from the end
        for k in ("pxhdr", "mhdr", "phdr", "hdr", "body", "redirect", "ash", "pool_via", "via"):
            if k in case and case[k] not in (None, 0):
                c = dict(case)
                c.pop(k)
                yield c
        rules = case["rules"]
        for i in range(len(rules) - 1, -1, -1):
            c = dict(case)
            c["rules"] = rules[:i] + rules[i + 1:]
            yield c
        for k in ("hdr", "mhdr", "phdr"):
            h = case.get(k)
            if h and len(h[1]) > 1:
                for i in range(len(h[1])):
                    c = dict(case)
                    c[k] = [h[0], h[1][:i] + h[1][i + 1:]]
                    yield c


PROP = C05()
