"""C12 — every way of reading a response yields the same bytes.

Real `HTTPConnectionPool.urlopen` -> `HTTPConnection` -> `http.client` -> `HTTPResponse` over the
in-memory network (harness/net.py) with a scripted wire and controlled segmentation.

Correspondence: one protocol line per case (`resp …`, driver `resp` = `U3.Resp`): wire bytes,
segmentation, header values, flags and the call sequence; the answer is one token per call (exact
bytes of every returned piece, exception class) plus the final state (fp closed, connection
released, socket closed, length_remaining, tell()).  Only encodings the Lean model can decode
(identity, stored-block gzip/zlib/raw-deflate, raw/RLE-block zstd) go to the model; the model's own
`unsupported` outcome is never compared.  Unit lines (`dec`, `inthex`, `sums`, `bq`) compare the
decoder wrappers, Python's `int(x, 16)`, CRC-32/Adler-32 and BytesQueueBuffer directly.

Oracle (implementation only, also on really compressed streams): concatenation of all returned
pieces == decoded payload (raw de-framed payload when decoding is off), read(n)/readinto(k)/read1(n)
size rules, a short read(n) only at the end of the body, no empty stream piece, iteration yields
lines, `.data`/preload equality, every read after the end returns b""; `drain_conn()` (op `dc`) is a
whole-body consumer that returns nothing: after it every read returns b"".
"""
from __future__ import annotations

import gc
import gzip as _gzip
import itertools
import struct
import zlib

import zstandard as zstd

from ..core import Prop, Failure, digest

AMTS = [1, 2, 3, 7, 64, 1000]

# ------------------------------------------------------------------------------------------------
# codecs: the sub-formats the Lean model decodes, built by hand


def stored_blocks(p: bytes, sizes, final=True) -> bytes:
    pieces, i = [], 0
    for k in sizes:
        pieces.append(p[i:i + k]); i += k
    if i < len(p) or not pieces:
        rest = p[i:]
        while len(rest) > 65535:
            pieces.append(rest[:65535]); rest = rest[65535:]
        pieces.append(rest)
    out = b""
    for j, c in enumerate(pieces):
        last = 1 if (final and j == len(pieces) - 1) else 0
        out += bytes([last]) + struct.pack("<HH", len(c), len(c) ^ 0xffff) + c
    return out


def gz_stored(p, sizes=(), flags=0, extra=b"", name=b"", comment=b""):
    h = b"\x1f\x8b\x08" + bytes([flags]) + b"\0\0\0\0" + b"\0\xff"
    if flags & 4:
        h += struct.pack("<H", len(extra)) + extra
    if flags & 8:
        h += name + b"\0"
    if flags & 16:
        h += comment + b"\0"
    if flags & 2:
        h += struct.pack("<H", zlib.crc32(h) & 0xffff)
    return h + stored_blocks(p, sizes) + struct.pack("<II", zlib.crc32(p), len(p) & 0xffffffff)


def zl_stored(p, sizes=()):
    return b"\x78\x01" + stored_blocks(p, sizes) + struct.pack(">I", zlib.adler32(p))


def rd_stored(p, sizes=()):
    return stored_blocks(p, sizes)


def zs_raw(p, sizes=(), fcs=True):
    pieces, i = [], 0
    for k in sizes:
        pieces.append(p[i:i + k]); i += k
    if i < len(p) or not pieces:
        rest = p[i:]
        while len(rest) > 1024:
            pieces.append(rest[:1024]); rest = rest[1024:]
        pieces.append(rest)
    if fcs:
        n = len(p)
        hdr = bytes([0x20, n]) if n < 256 else bytes([0xa0]) + struct.pack("<I", n)
    else:
        hdr = bytes([0x00, 0x38])          # window descriptor: 128 KiB
    out = b"\x28\xb5\x2f\xfd" + hdr
    for j, c in enumerate(pieces):
        last = 1 if j == len(pieces) - 1 else 0
        if len(c) >= 4 and len(set(c)) == 1:       # RLE block
            out += struct.pack("<I", (len(c) << 3) | 2 | last)[:3] + c[:1]
        else:
            out += struct.pack("<I", (len(c) << 3) | last)[:3] + c
    return out


def split_parts(p: bytes, n: int):
    if n <= 1:
        return [p]
    k = max(1, len(p) // n)
    parts = [p[i * k:(i + 1) * k] for i in range(n - 1)] + [p[(n - 1) * k:]]
    return parts


def encode(kind: str, p: bytes, rng=None, parts=1, sizes=()):
    """-> (body, content-encoding token, model-decodable)"""
    ps = split_parts(p, parts)
    if kind == "identity":
        return p, None, True
    if kind == "gzs":
        fl = rng.choice([0, 0, 8, 4 | 16, 2, 2 | 4 | 8 | 16]) if rng else 0
        return b"".join(gz_stored(x, sizes, fl, b"xy", b"n.txt", b"c") for x in ps), "gzip", True
    if kind == "gzs+garbage":
        return b"".join(gz_stored(x, sizes) for x in ps) + b"\x00garbage\x1f", "gzip", True
    if kind == "zls":
        return zl_stored(p, sizes), "deflate", True
    if kind == "rds":
        return rd_stored(p, sizes), "deflate", True
    if kind == "zss":
        return b"".join(zs_raw(x, sizes, fcs=(i % 2 == 0)) for i, x in enumerate(ps)), "zstd", True
    if kind == "gzs,zls":           # gzip applied first, then deflate
        return zl_stored(b"".join(gz_stored(x, sizes) for x in ps), (5, 9)), "gzip, deflate", True
    if kind == "zss,gzs":
        return gz_stored(b"".join(zs_raw(x, sizes) for x in ps), (7,)), "zstd, gzip", True
    if kind == "rds,zss":
        return zs_raw(rd_stored(p, sizes), (6, 11)), "deflate, zstd", True
    # really compressed: implementation-only oracle
    lvl = rng.choice([1, 6, 9]) if rng else 6
    if kind == "gzip":
        return b"".join(_gzip.compress(x, lvl) for x in ps), "gzip", False
    if kind == "x-gzip":
        return _gzip.compress(p, lvl), "x-gzip", False
    if kind == "deflate":
        return zlib.compress(p, lvl), "deflate", False
    if kind == "rawdeflate":
        c = zlib.compressobj(lvl, wbits=-15)
        return c.compress(p) + c.flush(), "deflate", False
    if kind == "zstd":
        return b"".join(zstd.ZstdCompressor(level=3).compress(x) for x in ps), "zstd", False
    if kind == "gzip,deflate":
        return zlib.compress(_gzip.compress(p, lvl), lvl), "gzip, deflate", False
    if kind == "deflate,zstd":
        return zstd.ZstdCompressor().compress(zlib.compress(p, lvl)), "deflate, zstd", False
    if kind == "zstd,gzip":
        return _gzip.compress(b"".join(zstd.ZstdCompressor().compress(x) for x in ps), lvl), "zstd, gzip", False
    raise ValueError(kind)


MODEL_CODINGS = ["identity", "gzs", "gzs+garbage", "zls", "rds", "zss", "gzs,zls", "zss,gzs", "rds,zss"]
REAL_CODINGS = ["gzip", "x-gzip", "deflate", "rawdeflate", "zstd", "gzip,deflate", "deflate,zstd", "zstd,gzip"]
MULTI_OK = {"gzs", "gzs+garbage", "zss", "gzs,zls", "zss,gzs", "gzip", "zstd", "zstd,gzip"}

# ------------------------------------------------------------------------------------------------
# framing


def chunk_body(body: bytes, sizes, rng=None, trailers=False):
    """-> (bytes, [offset of each chunk-size line (start, end-exclusive incl. CRLF)])"""
    out, i, spans = b"", 0, []
    szs = list(sizes)
    while i < len(body):
        k = szs.pop(0) if szs else max(1, len(body) - i)
        c = body[i:i + k]; i += k
        if not c:
            continue
        style = rng.randrange(6) if rng else 0
        size = ("%x" % len(c)) if style != 1 else ("%X" % len(c))
        if style == 2:
            size = "00" + size
        ext = {3: ";ext=1", 4: " ;a=b;c", 5: ";x=\"q\""}.get(style, "")
        line = (size + ext + "\r\n").encode()
        spans.append((len(out), len(out) + len(line)))
        out += line + c + b"\r\n"
    last = b"0\r\n" if not (rng and rng.random() < 0.2) else b"0;last\r\n"
    spans.append((len(out), len(out) + len(last)))
    out += last
    if trailers:
        out += b"X-Trailer: 1\r\nY: 2\r\n"
    out += b"\r\n"
    return out, spans


def build_wire(framing: str, body: bytes, ce, chunk_sizes=(), rng=None, trailers=False, status=200,
               cl_text=None):
    """-> (wire, meta) ; meta: head_len, cl, te, close, spans (absolute chunk-size line spans)"""
    h = "HTTP/1.1 %d OK\r\n" % status
    if ce:
        h += "Content-Encoding: %s\r\n" % ce
    meta = {"cl": None, "te": None, "close": 0, "spans": []}
    if framing == "cl":
        meta["cl"] = cl_text if cl_text is not None else str(len(body))
        h += "Content-Length: %s\r\n" % meta["cl"]
        framed = body
    elif framing == "cl-close":
        meta["cl"] = str(len(body)); meta["close"] = 1
        h += "Content-Length: %d\r\nConnection: close\r\n" % len(body)
        framed = body
    elif framing == "close":
        meta["close"] = 1
        h += "Connection: close\r\n"
        framed = body
    elif framing == "chunked":
        meta["te"] = "chunked"
        h += "Transfer-Encoding: chunked\r\n"
        framed, spans = chunk_body(body, chunk_sizes, rng, trailers)
        meta["spans"] = spans
    else:
        raise ValueError(framing)
    head = (h + "\r\n").encode("latin-1")
    meta["head_len"] = len(head)
    meta["spans"] = [(a + len(head), b + len(head)) for a, b in meta["spans"]]
    return head + framed, meta


# ------------------------------------------------------------------------------------------------
# protocol helpers


def hx(b: bytes) -> str:
    return b.hex() if b else "-"


def stok(s) -> str:
    if s is None:
        return "~"
    return ".".join("%x" % ord(c) for c in s) if s else "-"


def case_line(case) -> str:
    return "resp %s %d %s %s %s %d %d %d %d %d %d %s" % (
        case["wire"] or "-", case["seg"], stok(case.get("ce")), stok(case.get("cl")), stok(case.get("te")),
        case.get("close", 0), case.get("status", 200), case.get("head", 0), case.get("enforce", 1),
        case["decode"], case.get("preload", 0), ",".join(case["ops"]) or "-")


class NoTermination(Exception):
    """a whole-body consumer kept calling read() far beyond what the body could need"""


KNOWN_EXC = {"ProtocolError", "DecodeError", "RuntimeError", "ResponseNotChunked", "InvalidHeader", "AttributeError"}


class Run:
    """the result of driving the real implementation through one case"""
    __slots__ = ("tokens", "final", "results", "error", "error_obj", "error_op", "resp", "sock", "net",
                 "pre_buffer", "zstd_boundary", "pool", "sock_closed_after_error")

    def __init__(self):
        self.tokens = []
        self.final = ""
        self.results = []          # (op, kind, payload) kind in bytes|pieces ; payload bytes or list
        self.error = None
        self.error_obj = None
        self.error_op = None
        self.pre_buffer = {}       # index of op -> bytes sitting in _decoded_buffer before the call
        self.zstd_boundary = False
        self.sock_closed_after_error = None


def _zstd_at_boundary(resp) -> bool:
    """is some ZstdDecoder of the response sitting exactly at the end of a frame (eof, nothing unused)?"""
    from urllib3 import response as R
    d = getattr(resp, "_decoder", None)
    ds = getattr(d, "_decoders", [d])
    for x in ds:
        if isinstance(x, getattr(R, "ZstdDecoder", ())):
            o = x._obj
            if o.eof and not o.unused_data:
                return True
    return False


def drive(case, second_request=False) -> Run:
    """run one case against the real urllib3"""
    import urllib3
    from urllib3.exceptions import HTTPError
    from ..net import Net, Server

    wire = bytes.fromhex(case["wire"]) if case["wire"] else b""
    run = Run()
    net = Net()
    seg = case["seg"] or None
    served = []

    def handler(peer, req):
        served.append(peer.sid)
        if len(served) == 1:
            peer.reply(wire)
            peer.close()
        else:
            peer.reply(b"HTTP/1.1 200 OK\r\nContent-Length: 2\r\n\r\nok")

    def on_connect(sock, host, port):
        if len(net.socks) == 1:
            sock.segment = seg

    net.servers[("h", 80)] = Server(handler)
    net.connect_hook = on_connect
    dc = bool(case["decode"])
    method = "HEAD" if case.get("head") else "GET"
    with net.installed():
        pool = urllib3.HTTPConnectionPool("h", 80, retries=False, maxsize=1)
        run.pool, run.net = pool, net
        r = None
        stopped = False
        try:
            r = pool.urlopen(method, "/", preload_content=bool(case.get("preload")), decode_content=dc,
                             enforce_content_length=bool(case.get("enforce", 1)), retries=False)
        except Exception as e:      # noqa: BLE001 - recorded, judged by the oracle
            run.tokens.append("E:" + type(e).__name__)
            run.error, run.error_obj, run.error_op = type(e).__name__, e, "ctor"
            stopped = True
        run.resp = r
        if r is not None:
            # observation only: a generator that keeps calling read() without getting anything (a spin) is
            # cut off.  Progress resets the counter: a corrupted zstd block header can turn into an RLE
            # block that inflates a 100-byte body to 128 KiB, and stream(3) over it is 40 000 legitimate
            # read() calls (thorough tier, seed 0: a count of *all* calls reported `no-termination` there)
            limit = 4 * len(wire) + 2000
            count = [0]
            orig_read = r.read

            def counted_read(*a, **k):
                d = orig_read(*a, **k)
                if d:
                    count[0] = 0
                else:
                    count[0] += 1
                    if count[0] > limit:
                        raise NoTermination()
                return d
            r.read = counted_read
        if r is not None and case.get("preload"):
            d = r._body if isinstance(r._body, bytes) else b""
            run.tokens.append("pre=" + hx(d))
            run.results.append(("pre", "data", d))
        if r is not None:
            for idx, op in enumerate(case["ops"]):
                tag, arg = op[:2], op[2:]
                amt = None if (arg in ("~", "") or op[0] == "L") else int(arg)
                try:
                    count[0] = 0
                    buffered = b"".join(r._decoded_buffer.buffer)
                    if buffered:
                        run.pre_buffer[idx] = buffered
                    if op[0] == "L":
                        # harness-side loop: the same call until it signals the end of the body
                        t2, a2 = op[1:3], op[3:]
                        n2 = None if a2 in ("~", "") else int(a2)
                        pieces = []
                        try:
                            # every round returns at least one byte or ends the loop, and a finite wire
                            # decodes to at most 128 KiB per 4 bytes (zstd RLE block): the bound is never
                            # reached by a loop that makes progress
                            for _ in range(len(wire) * 32768 + 1000000):
                                if t2 == "rd":
                                    d = r.read(n2, decode_content=dc)
                                elif t2 == "r1":
                                    d = r.read1(n2, decode_content=dc)
                                else:
                                    b = bytearray(n2)
                                    k = r.readinto(b)
                                    d = bytes(b[:k])
                                if not d:
                                    break
                                pieces.append(d)
                            else:
                                raise NoTermination()
                        except Exception as e:
                            nm = "no-termination" if isinstance(e, NoTermination) else type(e).__name__
                            run.tokens.append("L=" + "/".join(hx(p) for p in pieces) + "!" + nm)
                            run.results.append((op, "pieces", pieces))
                            tag = "st"
                            raise
                        run.tokens.append("L=" + "/".join(hx(p) for p in pieces))
                        run.results.append((op, "pieces", pieces))
                    elif tag == "rd":
                        d = r.read(amt, decode_content=dc)
                        run.tokens.append("rd=" + hx(d)); run.results.append((op, "bytes", d))
                    elif tag == "r1":
                        d = r.read1(amt, decode_content=dc)
                        run.tokens.append("r1=" + hx(d)); run.results.append((op, "bytes", d))
                    elif tag == "ri":
                        b = bytearray(amt)
                        k = r.readinto(b)
                        d = bytes(b[:k])
                        run.tokens.append("ri=" + hx(d)); run.results.append((op, "bytes", d))
                    elif tag == "dc":
                        # drain_conn(): consumes what is left, returns nothing, swallows HTTPError / OSError
                        r.drain_conn()
                        run.tokens.append("dc"); run.results.append((op, "drain", None))
                    elif tag == "da":
                        d = r.data
                        d = d if isinstance(d, bytes) else b""
                        run.tokens.append("da=" + hx(d)); run.results.append((op, "data", d))
                    elif tag in ("st", "rc", "it"):
                        pieces = []
                        g = (r.stream(amt, decode_content=dc) if tag == "st" else
                             r.read_chunked(amt, decode_content=dc) if tag == "rc" else iter(r))
                        try:
                            for p in g:
                                pieces.append(p)
                        except Exception as e:
                            nm = "no-termination" if isinstance(e, NoTermination) else type(e).__name__
                            run.tokens.append(tag + "=" + "/".join(hx(p) for p in pieces) + "!" + nm)
                            run.results.append((op, "pieces", pieces))
                            raise
                        run.tokens.append(tag + "=" + "/".join(hx(p) for p in pieces))
                        run.results.append((op, "pieces", pieces))
                    else:
                        raise ValueError(op)
                except Exception as e:      # noqa: BLE001 - every class is recorded and judged by the oracle
                    nm = "no-termination" if isinstance(e, NoTermination) else type(e).__name__
                    if not (run.tokens and run.tokens[-1].endswith("!" + nm) and tag in ("st", "rc", "it")):
                        run.tokens.append("E:" + nm)
                    run.error, run.error_obj, run.error_op = nm, e, op
                    run.zstd_boundary = _zstd_at_boundary(r) and "multiple times" in (str(e) + str(e.__cause__) + str(e.args))
                    stopped = True
                    break
        sock = net.socks[0] if net.socks else None
        run.sock = sock
        if r is not None:
            lr = r.length_remaining
            run.final = "| fp=%d rel=%d sock=%d lr=%s tell=%d" % (
                int(r._fp.isclosed()), int((not case.get("preload")) and r._connection is None),
                int(bool(sock and sock.really_closed)), "~" if lr is None else str(lr), r.tell())
        elif run.error != "InvalidHeader":
            run.final = None        # preload error: the driver prints the final state; compared loosely
        run.sock_closed_after_error = bool(sock and sock.really_closed)
        if second_request:
            # what a caller does after an exception: give the connection back, ask again
            info = {"first_closed_before": run.sock_closed_after_error}
            try:
                if r is not None:
                    r.release_conn()
                r2 = pool.urlopen("GET", "/2", retries=False)
                info["status"] = r2.status
                info["body"] = r2.data
                info["sid"] = served[-1] if len(served) > 1 else None
            except Exception as e:      # noqa: BLE001 - recorded, judged by the oracle
                info["exc"] = type(e).__name__
            info["first_closed"] = bool(sock and sock.really_closed)
            info["nsocks"] = len(net.socks)
            run.results.append(("second", "info", info))
        pool.close()
    return run


def inflating(run: Run, case) -> bool:
    """did the calls hand out far more bytes than the wire has (only reachable by a corruption that
    turns a block header into a large RLE block)?  The list-based Lean model needs tens of seconds
    for tens of thousands of pieces: such a case is judged by the oracle only."""
    total = 0
    for (_, kind, val) in run.results:
        if kind in ("bytes", "data") and isinstance(val, bytes):
            total += len(val)
        elif kind == "pieces":
            total += sum(len(p) for p in val)
    return total > 16 * (len(case["wire"]) // 2) + 20000


def canonical(run: Run, case) -> str:
    if run.final is None:
        return " ".join(run.tokens) + " <preload-error>"
    return (" ".join(run.tokens) + " " + run.final).strip()


# ------------------------------------------------------------------------------------------------
# the oracle


def oracle_c12(case, run: Run):
    """-> list of (signature, what)"""
    dc = bool(case["decode"])
    expected = bytes.fromhex(case["payload"] if dc else case["raw"])
    out = []
    if run.error is not None:
        if run.error == "DecodeError" and run.zstd_boundary:
            return [("zstd-frame-boundary-on-feed-boundary:DecodeError",
                     f"{run.error_op} raised DecodeError (zstd 'cannot use a decompressobj multiple times'): a zstd frame "
                     f"ended exactly at the end of one decompress() input and another frame followed")]
        if run.error == "no-termination" and run.error_op == "st~" and run.resp is not None and len(run.resp._decoded_buffer) > 0:
            return [("stream-none-spins-on-decoded-buffer",
                     "stream(None) never terminates: read() leaves already-decoded bytes in the buffer, so "
                     "`while not is_fp_closed(fp) or len(self._decoded_buffer) > 0` spins yielding nothing")]
        return [("unexpected-exception:" + run.error, f"{run.error_op} raised {run.error} on an intact response "
                 f"({case.get('kind')}, seg={case['seg']}, ops={case['ops']})")]
    cum = b""
    cached = None
    for idx, (op, kind, val) in enumerate(run.results):
        tag, arg = op[:2], op[2:]
        if kind == "info":
            continue
        if op[0] == "L":
            tag, arg = "L" + op[1:3], "~"
        if kind == "drain":
            # drain_conn() returned: everything that was left has been thrown away, every later read
            # must return b"" (`cum` at the end makes the checks below demand exactly that)
            cum = expected
            continue
        amt = None if (arg in ("~", "") or kind == "data") else int(arg)
        if kind == "data":
            # `.data` / preload: everything that is left; once cached (non-empty) the same bytes again
            if cached:
                if val != cached:
                    out.append(("data-differs:cached", f".data changed: {len(val)} bytes, before {len(cached)}"))
                    return out
                continue
            if val != expected[len(cum):]:
                out.append(("data-differs:" + ("preload" if op == "pre" else tag),
                            f"{'preloaded ' if op == 'pre' else ''}.data has {len(val)} bytes, expected {len(expected) - len(cum)}"))
                return out
            cum += val
            cached = val
            continue
        pieces = [val] if kind == "bytes" else val
        if kind == "bytes" and amt is not None and len(val) > amt:
            out.append(("size-rule:longer-than-n", f"{op} returned {len(val)} bytes"))
            return out
        if kind == "pieces":
            if any(len(p) == 0 for p in pieces):
                out.append(("empty-piece:" + tag, f"{op} yielded an empty piece"))
                return out
            if tag == "it" and any(b"\n" in p[:-1] for p in pieces):
                out.append(("iter-not-lines", f"iteration yielded a piece with an inner newline"))
                return out
        new = b"".join(pieces)
        want = expected[len(cum):len(cum) + len(new)]
        if tag == "rd" and amt is None:
            want = expected[len(cum):]              # read() must return everything that is left
        if new != want:
            ci = idx - (1 if case.get("preload") else 0)
            pend = run.pre_buffer.get(ci, b"")
            if tag == "rd" and amt is None and pend and new == expected[len(cum) + len(pend):]:
                out.append(("read-all-skips-decoded-buffer",
                            f"read() was called with {len(pend)} already-decoded bytes waiting in the buffer and "
                            f"returned the bytes *after* them ({len(new)} bytes); the waiting bytes come out later"))
            else:
                out.append(("bytes-differ:" + tag, f"{op} (call #{idx}) returned bytes that are not the next bytes of "
                            f"the body: got {new[:24]!r}… at offset {len(cum)}, expected {want[:24]!r}…"))
            return out
        cum += new
        if tag in ("rd", "ri") and amt is not None and amt > 0 and len(val) < amt and len(cum) != len(expected):
            out.append(("size-rule:short-read-before-end", f"{op} returned {len(val)} < {amt} bytes at offset {len(cum)} "
                        f"of {len(expected)}"))
            return out
    if cum != expected:
        out.append(("bytes-missing", f"all calls together returned {len(cum)} of {len(expected)} bytes"))
    return out


# ------------------------------------------------------------------------------------------------
# generation

SMALL = [b"", b"a", b"ab\ncd", b"hello world", bytes(range(20)), b"aaaaaaaabb\n\nxyz"]
TAIL = ["rd~", "rd3", "r13"]
LINE_BODIES = [b"a\nb\ncd\nef\n", b"alpha beta\ngamma\ndelta\nepsilon\nzeta", b"ab\ncd", b"\n\nx\n", b"x\n" * 4, b"no newline",
               b"ab\n\ncd\n\n", b"\n"]


def big_payload(rng, n):
    words = [b"alpha", b"beta\n", b"gamma ", b"\n", bytes([rng.randrange(256)]), b"zzzzzzzz"]
    out = bytearray()
    while len(out) < n:
        out += rng.choice(words)
    return bytes(out[:n])


READ_OPS = (["rd~", "rd0"] + ["rd%d" % n for n in AMTS] + ["r1~"] + ["r1%d" % n for n in AMTS] + ["ri3", "ri64"])


def make_case(payload, coding, framing, seg, decode, ops, rng=None, parts=1, sizes=(), chunk_sizes=(),
              trailers=False, preload=0, kind="", status=200, head=0, enforce=1, cl_text=None):
    body, ce, model = encode(coding, payload, rng, parts, sizes)
    if ce and rng is not None and rng.random() < 0.25:
        # coding names are case-insensitive and may carry optional white space around the commas
        ce = "".join(c.upper() if rng.random() < 0.5 else c for c in ce)
        if "," in ce and rng.random() < 0.5:
            ce = ce.replace(", ", rng.choice([",", " , ", ",  "]))
    wire, meta = build_wire(framing, body if not head else b"", ce, chunk_sizes, rng, trailers, status, cl_text)
    exp_payload = payload
    if coding == "gzs+garbage":
        exp_payload = payload
    if head or status in (204, 304):
        exp_payload, body = b"", b""
    return {"wire": wire.hex(), "seg": seg, "ce": ce, "cl": meta["cl"], "te": meta["te"], "close": meta["close"],
            "status": status, "head": head, "enforce": enforce, "decode": int(decode), "preload": preload,
            "ops": list(ops), "payload": exp_payload.hex(), "raw": body.hex(), "model": bool(model),
            "kind": kind or f"{coding}/{framing}", "coding": coding, "framing": framing,
            "head_len": meta["head_len"], "spans": meta["spans"]}


def terminal_ops(rng, framing, decode):
    t = ["st1", "st3", "st64", "st1000", "st~", "da", "dc"]
    if decode:
        t.append("it")
    if framing == "chunked":
        t += ["rc~", "rc1", "rc5", "rc64"]
    return t


class C12(Prop):
    id = "C12"
    model = "resp"
    rule = ("responses = payload (0 .. 70 000 bytes) x coding (identity, gzip incl. multi-member and trailing garbage, "
            "zlib, raw deflate, zstd incl. multi-frame, two-coding stacks; stored/raw-block encodings for the model and "
            "really compressed ones for the oracle) x framing (Content-Length, chunked with varied chunk sizes / "
            "extensions / trailers, close-delimited) x socket segmentation {1,2,3,5,7,64,1000,whole} x decode on/off; "
            "call sequences over {read(), read(n), read1(n), read1(), readinto(k), read(0)}, n in {1,2,3,7,64,1000}: "
            "exhaustive for length<=2 (quick; <=3 thorough) on 6 small bodies, random up to length 8 beyond, followed "
            "by a final read() and after-end probes; whole-body consumers stream(n), read_chunked(n), iteration, .data, "
            "preload, drain_conn() from the start (stream also after a prefix on non-chunked bodies, drain_conn() "
            "after any read-family prefix). Every returned piece, "
            "exception class and the final state are compared with the Lean model; the oracle checks concatenation == "
            "payload, size rules, no empty piece, after-end reads empty. non-trivial = body non-empty and >= 2 calls "
            "returned data")
    assumptions = ["http.client (CPython 3.12.1) and io.BufferedReader are modelled, not verified",
                   "zlib / zstandard obey the streaming law (validated here on stored/raw-block streams by the `dec` "
                   "unit lines and on really compressed streams by the oracle only)",
                   "call sequences use one explicit decode_content throughout; an abandoned read_chunked generator "
                   "followed by read() on a chunked body is outside the domain (DESIGN C12 Interpretation)"]
    trusted = ["http.client / BufferedReader semantics as transcribed in U3/Model/RespIO.lean",
               "C decompressors beyond stored / raw blocks (law + oracle only)"]
    time_budget = {"quick": 110, "thorough": 1100}

    # ---------------------------------------------------------------- model run: skip `unsupported`
    def flush(self, res, pending, tag=""):
        from ..core import run_model
        if not pending or self.model is None:
            pending.clear()
            return
        all_lines = []
        for _, lines, _ in pending:
            all_lines.append("reset")
            all_lines += lines
        out = run_model(self.model, all_lines, tag)
        i = 0
        for case, lines, impl_out in pending:
            i += 1
            mo = out[i:i + len(lines)]
            canon = getattr(self, "canon_line", None)
            if canon is not None:               # property-specific canonicalisation applied to BOTH sides
                mo = [canon(case, x) for x in mo]
                impl_out = [canon(case, x) for x in impl_out]
            i += len(lines)
            res.lines += len(lines)
            for j, (a, b) in enumerate(zip(impl_out, mo)):
                if "unsupported" in b:
                    res.bump("model-unsupported")
                    continue
                if a.endswith("<preload-error>"):
                    a = a[:-len("<preload-error>")].strip()
                    b = b.split(" | ")[0].strip()
                if a != b:
                    res.disagreements.append({"case": case, "index": j, "line": lines[j], "impl": a, "model": b})
                    break
        pending.clear()

    # ---------------------------------------------------------------- cases
    def unit_cases(self, rng, n):
        for _ in range(n):
            k = rng.randrange(4)
            if k == 0:
                toks = [b"1a", b" 5", b"+5", b"0x5", b"0X1f", b"5_0", b"_5", b"5_", b"5__0", b"", b"g", b"-0", b"-5",
                        b"0x", b"0x_5", b" \t7\r\n", b"7\x0b", b"\xff", b"+", b"00", b"1 2", b"0x-1", b"1\x00"]
                t = rng.choice(toks) if rng.random() < 0.6 else bytes(rng.choice(b"0123456789abcdefABCDEFxX_+- \r\n;g")
                                                                       for _ in range(rng.randrange(0, 5)))
                yield {"unit": "inthex", "arg": t.hex()}
            elif k == 1:
                yield {"unit": "sums", "arg": bytes(rng.randrange(256) for _ in range(rng.randrange(0, 40))).hex()}
            elif k == 2:
                ops = []
                for _ in range(rng.randrange(1, 10)):
                    c = rng.random()
                    if c < 0.5:
                        ops.append("p" + hx(bytes(rng.randrange(256) for _ in range(rng.choice([0, 0, 1, 2, 3, 7])))))
                    elif c < 0.9:
                        ops.append("g%d" % rng.choice([0, 1, 2, 3, 5, 9]))
                    else:
                        ops.append("a")
                yield {"unit": "bq", "arg": ops}
            else:
                p = rng.choice(SMALL + [b"x" * 30, bytes(range(64))])
                coding = rng.choice(MODEL_CODINGS[1:])
                parts = rng.choice([1, 1, 2, 3]) if coding in MULTI_OK else 1
                body, ce, _ = encode(coding, p, rng, parts, rng.choice([(), (1,), (3, 0, 2), (5,)]))
                if rng.random() < 0.35 and body:
                    i = rng.randrange(len(body))
                    body = body[:i] + bytes([body[i] ^ (1 << rng.randrange(8))]) + body[i + 1:]
                if rng.random() < 0.15 and body:
                    body = body[:rng.randrange(len(body))]
                cuts = sorted({rng.randrange(len(body) + 1) for _ in range(rng.choice([0, 1, 2, 3, 6]))})
                pieces = [body[a:b] for a, b in zip([0] + cuts, cuts + [len(body)])]
                if rng.random() < 0.1:
                    pieces = [bytes([x]) for x in body]
                yield {"unit": "dec", "ce": ce, "pieces": [x.hex() for x in pieces]}

    def cases(self, rng, tier, escalate=False):
        """random cases are interleaved with the exhaustive enumeration so that a run cut short by the
        time budget still sees every kind of case"""
        deep = tier == "thorough" or escalate
        yield from self.unit_cases(rng, 6000 if deep else 1500)
        nrand = 60000 if deep else 5000
        every = 3 if deep else 12
        k = 0
        for c in self.exhaustive_cases(rng, deep):
            yield c
            k += 1
            if k % every == 0 and nrand > 0:
                nrand -= 1
                yield self.random_case(rng)
        for _ in range(nrand):
            yield self.random_case(rng)

    def exhaustive_cases(self, rng, deep):
        # --- line iteration over pieces whose boundaries fall before / on / after a line end (first: cheap,
        # and a run cut short by its time budget must still have seen them)
        for p in LINE_BODIES:
            for csz in [(1,), (2,), (3,), (1, 2), (2, 3, 1), (4,), (5, 2), (7,)]:
                for coding in ("identity", "gzs"):
                    yield make_case(p, coding, "chunked", rng.choice([1, 3, 0]), True, ["it"] + TAIL, rng, 1, (), csz,
                                    kind="whole:it-lines")
        # --- exhaustive short call sequences on small bodies
        framings = ["cl", "chunked", "close"]
        combos = []
        for p in SMALL:
            for coding in MODEL_CODINGS:
                for framing in framings:
                    combos.append((p, coding, framing))
        maxlen = 3 if deep else 2
        for (p, coding, framing) in combos:
            for L in range(0, maxlen + 1):
                if L == 3 and not (coding in ("identity", "gzs", "zss") and p in (b"hello world", b"ab\ncd")):
                    continue
                for seq in itertools.product(READ_OPS, repeat=L):
                    seg = rng.choice([1, 2, 3, 5, 7, 64, 0])
                    decode = rng.random() < 0.75
                    parts = rng.choice([1, 2]) if coding in MULTI_OK else 1
                    yield make_case(p, coding, framing, seg, decode, list(seq) + TAIL, rng, parts,
                                    rng.choice([(), (1,), (2, 0, 3)]), rng.choice([(), (1, 2), (3,), (1, 1, 1, 1)]),
                                    rng.random() < 0.2, kind=f"exh{L}")
            # drain_conn() after every read-family prefix of length <= 1, then the after-end probes
            for pre in [()] + [(o,) for o in READ_OPS]:
                parts = rng.choice([1, 2]) if coding in MULTI_OK else 1
                yield make_case(p, coding, framing, rng.choice([1, 2, 3, 7, 64, 0]), rng.random() < 0.75,
                                list(pre) + ["dc"] + TAIL, rng, parts, rng.choice([(), (1,), (2, 0, 3)]),
                                rng.choice([(), (1, 2), (3,), (1, 1, 1, 1)]), rng.random() < 0.2, kind="drain")
            # whole-body consumers from the start
            for decode in (True, False):
                for t in terminal_ops(rng, framing, decode):
                    parts = rng.choice([1, 2]) if coding in MULTI_OK else 1
                    yield make_case(p, coding, framing, rng.choice([1, 3, 64, 0]), decode, [t] + TAIL, rng, parts,
                                    (), rng.choice([(), (1, 2), (4,)]), kind="whole:" + t[:2])
                yield make_case(p, coding, framing, rng.choice([1, 3, 0]), decode, ["da", "rd~"], rng, 1, (),
                                (2,), preload=1, kind="preload")

    def random_case(self, rng, model_only=False):
        r = rng.random()
        if r < 0.55:
            p = rng.choice(SMALL)
        elif r < 0.957:
            p = big_payload(rng, rng.choice([30, 100, 300, 1200]))
        elif r < 0.997:
            p = big_payload(rng, rng.choice([8191, 8192, 9000, 20000]))
        else:
            # bodies beyond stream()'s 2**16 default: the list-based Lean model needs 10-60 s for one
            # of these, so they are rare (about 15 per quick run, 180 per thorough run)
            p = big_payload(rng, 70000)
        coding = rng.choice(MODEL_CODINGS if (model_only or rng.random() < 0.6) else REAL_CODINGS)
        framing = rng.choice(["cl", "cl-close", "chunked", "chunked", "close"])
        seg = rng.choice([1, 2, 3, 5, 7, 64, 1000, 0]) if len(p) < 2000 else rng.choice([64, 1000, 4096, 0])
        decode = rng.random() < 0.8
        parts = rng.choice([1, 2, 3]) if coding in MULTI_OK else 1
        sizes = tuple(rng.choice([0, 1, 2, 5, 40, 300]) for _ in range(rng.randrange(0, 4)))
        csz = tuple(rng.choice([1, 2, 3, 7, 64, 1000, 9000]) for _ in range(rng.randrange(0, 6)))
        n = rng.randrange(0, 9)
        amts = AMTS if len(p) < 3000 else [64, 1000, 1000, 7]
        ops = []
        for _ in range(n):
            k = rng.random()
            if k < 0.4:
                ops.append("rd%d" % rng.choice(amts))
            elif k < 0.65:
                ops.append("r1%d" % rng.choice(amts))
            elif k < 0.75:
                ops.append("r1~")
            elif k < 0.87:
                ops.append("ri%d" % rng.choice([1, 3, 64, 1000]))
            elif k < 0.93:
                ops.append("rd0")
            else:
                ops.append("rd~")
        preload = 0
        z = rng.random()
        if z < 0.25:
            t = rng.choice(terminal_ops(rng, framing, decode))
            if t != "dc" and (framing == "chunked" or t in ("da",) or t.startswith("rc")):
                ops = []                     # (drain_conn is `read()`: it may follow any read-family prefix)
            if t == "it" and any(True for _ in ops) and framing == "chunked":
                ops = []
            ops.append(t)
        elif z < 0.3:
            preload, ops = 1, ["da"]
        if len(p) > 3000:
            ops = [o for o in ops if o not in ("st1", "rc1", "st3")]
            # tens of thousands of 1..7-byte chunks cost the list-based Lean model minutes per case
            # (vp check run 2 was stopped after 900 s with VERIF_SEED=1): big bodies get big chunks
            csz = tuple(c for c in csz if c >= 64)
        return make_case(p, coding, framing, seg, decode, ops + TAIL, rng, parts, sizes, csz,
                         rng.random() < 0.2, preload=preload, kind="rand")

    # ---------------------------------------------------------------- execution
    def record(self, res, sig, what, case):
        """every failure is counted in the histogram; at most 8 per signature and shard are kept as
        Failure objects (the engine stops a shard after 200 recorded failures)"""
        res.bump("failure:" + sig)
        seen = self.__dict__.setdefault("_seen", {})
        seen[sig] = seen.get(sig, 0) + 1
        if seen[sig] <= 8:
            res.failures.append(Failure(signature=sig, what=what, case=case))

    def execute_unit(self, case, res):
        u = case["unit"]
        res.bump("unit:" + u)
        if u == "inthex":
            b = bytes.fromhex(case["arg"])
            try:
                v = int(b, 16)
                out = "neg" if v < 0 else "ok %d" % v
            except ValueError:
                out = "ValueError"
            return ["inthex " + hx(b)], [out]
        if u == "sums":
            b = bytes.fromhex(case["arg"])
            return ["sums " + hx(b)], ["%d %d" % (zlib.crc32(b), zlib.adler32(b))]
        if u == "bq":
            from urllib3.response import BytesQueueBuffer
            q = BytesQueueBuffer()
            outs = []
            for op in case["arg"]:
                if op[0] == "p":
                    q.put(bytes.fromhex(op[1:]) if op[1:] != "-" else b"")
                    outs.append("len=%d" % len(q))
                elif op[0] == "g":
                    try:
                        d = q.get(int(op[1:]))
                        outs.append(hx(d) + ":%d" % len(q))
                    except RuntimeError:
                        outs.append("RuntimeError")
                else:
                    d = q.get_all()
                    outs.append(hx(d) + ":%d" % len(q))
                if len(q) != sum(len(c) for c in q.buffer):
                    res.failures.append(Failure(signature="bytesqueue-size", what="BytesQueueBuffer._size out of sync", case=case))
            return ["bq " + ",".join(case["arg"])], [" ".join(outs)]
        if u == "dec":
            from urllib3.response import _get_decoder
            from urllib3.exceptions import DecodeError
            d = _get_decoder(case["ce"])
            outs = []
            # the protocol token "-" stands for one empty input: an empty piece list is run as [b""] on
            # both sides (seed 1 drew an empty list; the model read "-" as one empty piece: false alarm)
            pieces = [bytes.fromhex(x) for x in case["pieces"]] or [b""]
            ok = True
            for p in pieces:
                try:
                    outs.append(hx(d.decompress(p)))
                except (zlib.error, zstd.ZstdError):
                    outs.append("E:DecodeError"); ok = False
                    break
            if ok:
                try:
                    outs.append("fl=" + hx(d.flush()))
                except DecodeError:
                    outs.append("fl=E:DecodeError")
            return ["dec %s %s" % (stok(case["ce"]), "/".join(hx(p) for p in pieces) if pieces else "-")], [" ".join(outs)]
        raise ValueError(u)

    def execute(self, case, res):
        if "unit" in case:
            return self.execute_unit(case, res)
        run = drive(case)
        gc.collect() if res.evaluations % 200 == 0 else None
        res.bump("coding:" + case.get("coding", "?"))
        res.bump("framing:" + case.get("framing", "?"))
        res.bump("seg:%s" % case["seg"])
        res.bump("kind:" + case.get("kind", "?").split(":")[0])
        for o in case["ops"]:
            res.bump("op:" + o[:2])
        for sig, what in oracle_c12(case, run):
            self.record(res, sig, what, case)
        self._last = run
        if not case.get("model", True):
            return [], []
        if inflating(run, case):
            res.bump("model-skipped:inflating")
            return [], []
        return [case_line(case)], [canonical(run, case)]

    def nontrivial(self, case, impl_out):
        if "unit" in case:
            return case["unit"] == "dec" and len(case["pieces"]) > 1
        if not case.get("payload"):
            return False
        line = impl_out[0] if impl_out else ""
        return sum(1 for t in line.split(" ") if "=" in t and not t.endswith("=-") and t[:2] in ("rd", "r1", "ri", "st", "rc", "it")) >= 2 \
            or not case.get("model", True)

    def shrink_candidates(self, case):
        if "unit" in case:
            return
        ops = case.get("ops", [])
        for i in range(len(ops)):
            c = dict(case)
            c["ops"] = ops[:i] + ops[i + 1:]
            yield c
        if case.get("seg"):
            c = dict(case); c["seg"] = 0
            yield c


PROP = C12()
