"""C04 — retries respect every budget, spare non-idempotent requests, and terminate.

Correspondence: every (pool kind, Retry configuration, method, per-attempt outcome script) is run
through the real `HTTPConnectionPool.urlopen` / `ProxyManager.urlopen` (http:// and https:// proxy) over the in-memory network
(`harness/net.py`, `time.sleep` of `urllib3.util.retry` recorded) and through `U3.Retry.runAttempts`
(driver `retry`); compared are the outcomes consumed, the number of requests on the wire, every
sleep, and the final result (response status / MaxRetryError + reason class / re-raised error
class).  The same script is then replayed on the bare `Retry` object (`increment` call by call, all
fields compared, plus `is_exhausted`, `get_backoff_time`, `is_retry`, `sleep`), and `from_int` is
compared for the legacy argument forms.
Replies may carry `Location:` a path on the same pool (301/302/303/307/308, also a 200 with a Location and a
301 without one), the request carries `redirect=` True/False, the policy is a Retry object (with `redirect` budget
and `raise_on_redirect`) or a legacy value, and the caller streams (`preload_content=False`) or preloads: the
response `urlopen` finally returns is READ and its bytes are compared with what the server sent for the last
attempt (every reply carries its attempt number in a header and in the body).
Oracle: the property text (C04, and C05's pool-level clauses), evaluated on the implementation's observations only.
"""
from __future__ import annotations

import errno
import itertools
import ssl

from ..core import Prop, Failure, enc, enc_list

UNIT = 1024
CONNECT = ("ct", "cr")
READ = ("rt", "rr", "re", "rg")
# the socket's send fails once the whole request has gone out: "st" socket.timeout (re-raised by _make_request),
# "sr" ConnectionResetError / "sp" BrokenPipeError (both swallowed by _make_request, the response is then read from
# the dead connection: reset resp. EOF).  Ground truth: the request may have reached the server -> read error
SEND = ("st", "sr", "sp")
# the TLS handshake with an HTTPS proxy (modes "sfwd" / "stun": forwarding / tunnelling through https://proxy:3129)
# fails after the TCP connection was accepted: "ht" socket.timeout, "hr" ConnectionResetError in do_handshake.  Nothing
# of the request has been written.  Ground truth: the property's "other error" (neither a connect error - the socket
# is open - nor a read error - the request cannot have reached the server)
HANDSHAKE = ("ht", "hr")
HTTPS_PROXY_MODES = ("sfwd", "stun")
NO_SOCKET_REUSE = CONNECT + HANDSHAKE        # outcomes that are only consulted when the attempt opens a socket
RETRY_AFTER_CODES = (413, 429, 503)          # the property text, not the source table
KNOWN_SIG = "proxy-read-reset-relabelled-proxyerror"

DEFAULT_ALLOWED = ["DELETE", "GET", "HEAD", "OPTIONS", "PUT", "TRACE"]
COUNTS = [None, None, 0, 1, 2, 3]
METHODS = ["GET", "POST", "PUT", "get", "DELETE", "PATCH"]
ALPHABET = [["ct"], ["cr"], ["st"], ["sr"], ["sp"], ["rt"], ["rr"], ["re"], ["rg"], ["o"], ["s", 200, None], ["s", 204, None],
            ["s", 500, None], ["s", 500, 9], ["s", 503, None], ["s", 503, 7], ["s", 503, 0], ["s", 429, 3],
            ["s", 413, 2], ["s", 418, None], ["s", 200, 5]]
SMALL_ALPHABET = [["ct"], ["rt"], ["rr"], ["re"], ["rg"], ["o"], ["s", 200, None], ["s", 500, None], ["s", 503, 3]]
SEND_ALPHABET = [["st"], ["sr"], ["sp"]]
HANDSHAKE_ALPHABET = [["ht"], ["hr"]]
# replies with `Location:` a path on the same pool ("l"); 200+Location and 301 without Location are no redirects
LOCATED = [["l", 301, None], ["l", 302, None], ["l", 302, None], ["l", 303, None], ["l", 303, None], ["l", 307, None],
           ["l", 308, None], ["l", 302, 4], ["l", 303, 0], ["l", 200, None], ["l", 500, None], ["s", 301, None],
           ["s", 302, None]]
REDIRECT_ALPHABET = [["ct"], ["rr"], ["l", 302, None], ["l", 303, None], ["s", 500, None], ["s", 200, None]]
REPLY = ("s", "l")
NO_BODY_STATUS = (204, 304)


def reply_body(i, o):
    """what the server sends as the body of the reply to attempt i"""
    return b"" if o[1] in NO_BODY_STATUS else b"reply to attempt %d\n" % i


def otok(o):
    if o[0] not in REPLY:
        return o[0]
    return f"{o[0]}{o[1]}" if o[2] is None else f"{o[0]}{o[1]}:{o[2]}"


def ctok(x):
    if x is None:
        return "~"
    if x is False:
        return "F"
    return str(int(x))


def category(o):
    """what the property text calls the outcome (ground truth of the script, not urllib3's label); a redirect reply
    (followed, or asked for again because its status is forcelisted) belongs to the redirect budget"""
    if o[0] == "l" and o[1] in (301, 302, 303, 307, 308):
        return "redirect"
    if o[0] in CONNECT:
        return "connect"
    if o[0] in READ or o[0] in SEND:
        return "read"
    if o[0] == "o" or o[0] in HANDSHAKE:
        return "other"
    return "status"


def is_redirect_reply(o):
    """ground truth: the reply is a redirect (a 3xx of the five redirect codes carrying a Location)"""
    return o[0] == "l" and o[1] in (301, 302, 303, 307, 308)


class FakeTime:
    def __init__(self, state):
        self.state = state

    def sleep(self, s):
        self.state["sleeps"].append((self.state["i"], s))

    def time(self):
        return 0.0


def ticks(s):
    v = s * UNIT
    return str(int(v)) if v == int(v) else "x" + repr(s)


class FakeResponse:
    """what Retry looks at on a response (used for the bare-object replay only)"""
    def __init__(self, status, retry_after, located=False):
        from urllib3._collections import HTTPHeaderDict
        self.status = status
        self.headers = HTTPHeaderDict()
        if retry_after is not None:
            self.headers["Retry-After"] = str(retry_after)
        if located:
            self.headers["Location"] = "/loc"

    def get_redirect_location(self):
        from urllib3.response import BaseHTTPResponse
        if self.status in BaseHTTPResponse.REDIRECT_STATUSES:
            return self.headers.get("location")
        return False


def err_name(e):
    from urllib3.exceptions import ProxyError
    if isinstance(e, ProxyError):
        return f"ProxyError({type(e.original_error).__name__})"
    return type(e).__name__


def cause_name(reason):
    from urllib3.exceptions import ResponseError
    if isinstance(reason, ResponseError):
        msg = str(reason)
        if msg == ResponseError.GENERIC_ERROR:
            return "ResponseError(generic)"
        if msg == "too many redirects":
            return "ResponseError(redirects)"
        if msg == "unknown":
            return "ResponseError(unknown)"
        for w in msg.split():
            if w.isdigit():
                return f"ResponseError({w})"
        return "ResponseError(?)"
    return err_name(reason)


def show_retry(r):
    am = r.allowed_methods
    hist = []
    for h in r.history:
        hist.append((err_name(h.error) if h.error is not None else "~") + "/" +
                    (str(h.status) if h.status is not None else "~") + "/" +
                    ("1" if h.redirect_location is not None else "0"))
    return (f"total={ctok(r.total)} connect={ctok(r.connect)} read={ctok(r.read)} redirect={ctok(r.redirect)} "
            f"status={ctok(r.status)} other={ctok(r.other)} "
            f"allowed={'~' if am is None else enc_list(sorted(am))} "
            f"force={','.join(str(x) for x in sorted(r.status_forcelist)) or '-'} "
            f"ros={int(bool(r.raise_on_status))} ror={int(bool(r.raise_on_redirect))} "
            f"rra={int(bool(r.respect_retry_after_header))} bf={ticks(r.backoff_factor)} bmax={ticks(r.backoff_max)} "
            f"rm={enc_list(sorted(r.remove_headers_on_redirect))} hist={','.join(hist) or '-'}")


def retry_tokens(r):
    """the 13 tokens describing a Retry object to the model (history must be empty)"""
    am = r.allowed_methods
    return " ".join([ctok(r.total), ctok(r.connect), ctok(r.read), ctok(r.redirect), ctok(r.status), ctok(r.other),
                     "~" if am is None else enc_list(sorted(am)),
                     ",".join(str(x) for x in sorted(r.status_forcelist)) or "-",
                     str(int(bool(r.raise_on_status))), str(int(bool(r.raise_on_redirect))),
                     str(int(bool(r.respect_retry_after_header))), ticks(r.backoff_factor), ticks(r.backoff_max)])


class C04(Prop):
    id = "C04"
    model = "retry"
    rule = ("(pool kind in {direct, forwarding proxy, tunnelling proxy (CONNECT + fake TLS), forwarding / tunnelling "
            "through an HTTPS proxy (fake TLS with the proxy; TLS-in-TLS)}) x Retry(total, connect, "
            "read, status, other over {None, False, -1..3}, allowed_methods in {default, None, [], [POST], [GET, POST]}, "
            "status_forcelist in {None, [500], [500, 503], [418]}, raise_on_status, respect_retry_after_header, "
            "backoff_factor in {0, 0.5, 1, 4, -0.5}, backoff_max in {0, 1, 3, 120}) or the legacy retries= forms "
            "{None, False, 0..3} x methods {GET, POST, PUT, get, DELETE, PATCH} x per-attempt outcome scripts of "
            "length <= 5 over {connect timeout, connect refused, send timeout / reset / broken pipe once the request "
            "has gone out, (HTTPS proxy only) TLS handshake with the proxy times out / is reset, read timeout, reset, EOF, "
            "garbage status line, "
            "ssl error while reading (other), 200, 204, 500, 500+Retry-After, 503, 503+Retry-After 7/0, 429+RA, 413+RA, "
            "418, 200+RA}, each followed by a final 200; with and without keep-alive. quick: exhaustive scripts of "
            "length <= 3 over a 9-letter alphabet x 3 pool kinds x {GET, POST} x 3 configurations, every script of "
            "length <= 2 over that alphabet + the 3 send failures containing a send failure, every script of length <= 2 "
            "over that alphabet + the 2 proxy-handshake failures x 2 HTTPS-proxy kinds x 4 configurations + random; "
            "thorough: "
            "more configurations + 20x random. Compared with the Lean model: outcomes consumed, requests on the wire, "
            "sleeps, final result, then increment/is_exhausted/get_backoff_time/is_retry/sleep on the bare object "
            "field by field. Redirect family: replies 301/302/303/307/308 (+ 200, 500) with Location: a path on "
            "the same pool (with and without Retry-After), 301/302 without Location; redirect= True/False on the "
            "request; Retry(redirect in {None, False, 0, 1, 2}, raise_on_redirect) or legacy values; body / no body; "
            "preload_content True/False - the returned response is read and compared with the bytes the server sent "
            "for the last attempt; pool.urlopen directly, or through ProxyManager.urlopen(redirect=False). quick: "
            "exhaustive scripts of length <= 3 over {connect timeout, reset, 302+Location, 303+Location, 500, 200} x "
            "redirect x preload x 3 pool kinds x {GET, POST} x 4 policies. non-trivial = at least two attempts")
    assumptions = ["backoff_jitter = 0 (jitter-free model); Retry-After is given in seconds (the HTTP-date form is not modelled)",
                   "seconds are dyadic (multiples of 2^-10 s) so that float arithmetic is exact",
                   "the script fixes the outcome of every attempt; one urlopen entry = one attempt",
                   "a Location names a path on the same pool (cross-host redirects and the manager-level branch are C05's)",
                   "through ProxyManager.urlopen only requests with redirect=False or scripts without a Location "
                   "(the manager's own redirect branch is C05's); everything else calls pool.urlopen"]
    trusted = ["http.client's reaction to the scripted faults (RemoteDisconnected / BadStatusLine / closing the "
               "connection on ConnectionError) is what the in-memory network provokes, not modelled separately"]
    time_budget = {"quick": 110, "thorough": 1100}

    # ------------------------------------------------------------------ generation
    def rand_retry(self, rng):
        if rng.random() < 0.12:
            return {"arg": rng.choice([None, False, 0, 1, 2, 3])}
        cnt = lambda: rng.choice(COUNTS)
        total = rng.choice([None, 0, 1, 2, 3, 3, 5, False, -1])
        r = {"total": total, "connect": cnt(), "read": cnt(), "status": cnt(), "other": cnt(),
             "allowed": rng.choice(["default", "default", None, [], ["POST"], ["GET", "POST"]]),
             "forcelist": rng.choice([None, [500], [500, 503], [418]]),
             "ros": rng.random() < 0.6, "rra": rng.random() < 0.7,
             "bf": rng.choice([0, 0.5, 0.5, 1, 4, -0.5]), "bmax": rng.choice([0, 1, 3, 120, 120])}
        if rng.random() < 0.08:
            r[rng.choice(["connect", "read", "status", "other"])] = rng.choice([False, -1])
        if rng.random() < 0.6:
            r["redirect"] = rng.choice([None, None, 0, 1, 1, 2, 3, False])
            r["ror"] = rng.random() < 0.6
            if rng.random() < 0.3:
                r["forcelist"] = rng.choice([[302], [303, 500], [500, 301]])
        return r

    def cases(self, rng, tier, escalate=False):
        deep = tier == "thorough" or escalate
        grid = [
            {"total": 3, "connect": None, "read": None, "status": None, "other": None, "allowed": "default",
             "forcelist": [500], "ros": True, "rra": True, "bf": 0.5, "bmax": 120},
            {"total": 2, "connect": 1, "read": 1, "status": 1, "other": 1, "allowed": "default",
             "forcelist": [500], "ros": False, "rra": True, "bf": 1, "bmax": 3},
            {"total": None, "connect": 0, "read": 2, "status": 0, "other": None, "allowed": ["POST"],
             "forcelist": None, "ros": True, "rra": False, "bf": 0, "bmax": 120},
        ]
        if deep:
            grid += [
                {"total": False, "connect": None, "read": None, "status": None, "other": None, "allowed": "default",
                 "forcelist": [500], "ros": True, "rra": True, "bf": 0, "bmax": 120},
                {"total": 1, "connect": None, "read": 0, "status": None, "other": 0, "allowed": None,
                 "forcelist": [500, 503], "ros": True, "rra": True, "bf": 4, "bmax": 1},
                {"arg": None}, {"arg": 1},
            ]
        # ---- send family (first: small, and time-budgeted shards reach the head of the generator under any load):
        # every script of length <= 2 over the small alphabet + {st, sr, sp} that contains a send failure
        sscripts = [list(t) for n in (1, 2) for t in itertools.product(SMALL_ALPHABET + SEND_ALPHABET, repeat=n)
                    if any(o[0] in SEND for o in t)]
        for mode in ("direct", "fwd", "tun"):
            for cfg in grid:
                for method in ("GET", "POST"):
                    for sc in sscripts:
                        yield {"mode": mode, "retry": cfg, "method": method, "script": sc, "keepalive": False,
                               "body": method == "POST" and len(sc) % 2 == 1, "kind": "exh-send"}
        # ---- HTTPS-proxy family: every script of length <= 2 over the small alphabet + {ht, hr}, through an HTTPS
        # proxy (forwarding / tunnelling); one more configuration whose `other` budget is smaller than `read`
        hgrid = grid[:3] + [
            {"total": 5, "connect": None, "read": 2, "status": None, "other": 0, "allowed": "default",
             "forcelist": [500], "ros": True, "rra": True, "bf": 0, "bmax": 120}]
        hscripts = [list(t) for n in (0, 1, 2) for t in itertools.product(SMALL_ALPHABET + HANDSHAKE_ALPHABET, repeat=n)]
        for mode in HTTPS_PROXY_MODES:
            for cfg in hgrid:
                for method in ("GET", "POST"):
                    for sc in hscripts:
                        yield {"mode": mode, "retry": cfg, "method": method, "script": sc, "keepalive": False,
                               "kind": "exh-https-proxy"}
        scripts = [[]]
        for n in (1, 2, 3):
            scripts += [list(t) for t in itertools.product(SMALL_ALPHABET, repeat=n)]
        for mode in ("direct", "fwd", "tun"):
            for cfg in grid:
                for method in ("GET", "POST"):
                    for sc in scripts:
                        yield {"mode": mode, "retry": cfg, "method": method, "script": sc, "keepalive": False,
                               "kind": "exh"}
        # ---- redirect family: fault / redirect / status scripts x redirect= x preload_content x policies
        rgrid = [
            {"total": 3, "connect": None, "read": None, "status": None, "other": None, "allowed": "default",
             "forcelist": [500], "ros": False, "rra": True, "bf": 0, "bmax": 120, "redirect": 1, "ror": True},
            {"total": 2, "connect": None, "read": None, "status": None, "other": None, "allowed": None,
             "forcelist": [500], "ros": False, "rra": True, "bf": 0, "bmax": 120, "redirect": None, "ror": False},
            {"arg": 2},
            {"total": None, "connect": 1, "read": 1, "status": 1, "other": None, "allowed": "default",
             "forcelist": [500, 302], "ros": True, "rra": True, "bf": 0, "bmax": 120, "redirect": 2, "ror": True},
        ]
        rscripts = []
        for n in (1, 2, 3):
            rscripts += [list(t) for t in itertools.product(REDIRECT_ALPHABET, repeat=n)]
        for mode in ("direct", "fwd", "tun"):
            for cfg in rgrid:
                for method in ("GET", "POST"):
                    for redirect in (True, False):
                        for preload in (True, False):
                            for sc in rscripts:
                                via = "manager" if (mode != "direct" and not redirect and len(sc) % 2 == 0) else "pool"
                                yield {"mode": mode, "retry": cfg, "method": method, "script": sc, "keepalive": False,
                                       "redirect": redirect, "preload": preload, "body": method == "POST",
                                       "via": via, "kind": "exh-redirect"}
        nrand = 500000 if deep else 40000
        for _ in range(nrand):
            n = rng.choice([1, 2, 2, 3, 3, 4, 5, 5])
            keep = rng.random() < 0.25
            with_loc = rng.random() < 0.5
            sc = []
            mode = rng.choice(["direct", "fwd", "tun", "direct", "fwd", "tun", "sfwd", "stun"])
            letters = ALPHABET + HANDSHAKE_ALPHABET if mode in HTTPS_PROXY_MODES else ALPHABET
            for _ in range(n):
                pick = lambda: rng.choice(LOCATED) if (with_loc and rng.random() < 0.45) else rng.choice(letters)
                o = pick()
                # with keep-alive the connection of a completed response is reused: no connect phase
                while keep and sc and sc[-1][0] in REPLY and o[0] in NO_SOCKET_REUSE:
                    o = pick()
                sc.append(o)
            redirect = rng.random() < 0.5 if with_loc else rng.random() < 0.8
            located = any(o[0] == "l" for o in sc)
            via = "pool"
            if mode != "direct" and (not redirect or not located) and rng.random() < 0.5:
                via = "manager"
            yield {"mode": mode, "retry": self.rand_retry(rng),
                   "method": rng.choice(METHODS), "script": sc, "keepalive": keep, "redirect": redirect,
                   "preload": rng.random() < 0.5, "body": rng.random() < 0.4, "via": via, "kind": "rand"}

    def shrink_candidates(self, case):
        sc = case["script"]
        for i in range(len(sc)):
            c = dict(case); c["script"] = sc[:i] + sc[i + 1:]
            yield c
        r = case["retry"]
        if "arg" not in r:
            for k in ("connect", "read", "status", "other"):
                if r[k] is not None:
                    c = dict(case); c["retry"] = dict(r); c["retry"][k] = None
                    yield c
            for k, v in (("bf", 0), ("forcelist", None), ("rra", True), ("ros", True), ("bmax", 120)):
                if r[k] != v:
                    c = dict(case); c["retry"] = dict(r); c["retry"][k] = v
                    yield c
        if case.get("keepalive"):
            c = dict(case); c["keepalive"] = False
            yield c
        if case.get("body"):
            c = dict(case); c["body"] = False
            yield c
        if case.get("via") == "manager":
            c = dict(case); c["via"] = "pool"
            yield c
        for i, o in enumerate(sc):
            if o[0] in REPLY and o[2] is not None:
                c = dict(case); c["script"] = sc[:i] + [[o[0], o[1], None]] + sc[i + 1:]
                yield c

    # ------------------------------------------------------------------ execution
    @staticmethod
    def build_retry(spec):
        from urllib3.util.retry import Retry
        if "arg" in spec:
            return spec["arg"]
        kw = dict(total=spec["total"], connect=spec["connect"], read=spec["read"], status=spec["status"],
                  other=spec["other"], status_forcelist=spec["forcelist"], raise_on_status=spec["ros"],
                  respect_retry_after_header=spec["rra"], backoff_factor=spec["bf"], backoff_max=spec["bmax"])
        if spec["allowed"] != "default":
            kw["allowed_methods"] = spec["allowed"]
        if "redirect" in spec:
            kw["redirect"] = spec["redirect"]
            kw["raise_on_redirect"] = spec["ror"]
        return Retry(**kw)

    _ctx = None

    def tls_context(self):
        if C04._ctx is None:
            from urllib3.util.ssl_ import create_urllib3_context
            C04._ctx = create_urllib3_context()
        return C04._ctx

    def drive(self, case, retries):
        """one urlopen through the in-memory network; returns the observations"""
        import inspect
        import urllib3.util.retry as ur
        from urllib3 import HTTPConnectionPool, ProxyManager
        from urllib3.exceptions import HTTPError, MaxRetryError
        from ..net import Net, Server, http_response, parse_request

        mode, method, keep = case["mode"], case["method"], bool(case.get("keepalive"))
        redirect, preload = bool(case.get("redirect", True)), bool(case.get("preload", True))
        via = case.get("via", "pool" if mode == "direct" else "manager")
        body = b"payload" if case.get("body") else None
        script = [list(o) for o in case["script"]] + [["s", 200, None]]
        state = {"i": 0, "att": [], "entries": [], "sleeps": [], "cur": None, "unconsulted": False, "wire": [],
                 "send_fired": set(), "hs_fired": set()}
        net = Net()
        base = "http://origin" if mode in ("fwd", "sfwd") else ""    # a forwarding proxy needs absolute-form targets

        def connect_hook(sock, host, port):
            o = state["cur"]
            sock.attempt = state["i"]
            state["connected_for"] = state["i"]
            if o[0] == "ct":
                raise TimeoutError("timed out")
            if o[0] == "cr":
                raise ConnectionRefusedError(errno.ECONNREFUSED, "Connection refused")

        net.connect_hook = connect_hook

        def send_hook(sock, data):
            """a scripted send failure fires in the `send` that completes the request of the attempt: the bytes
            go out (the server receives the request) and the call fails afterwards"""
            o, i = state["cur"], state["i"]
            if o is None or o[0] not in SEND or i in state["send_fired"]:
                return
            if state.get("send_buf_for") != (i, sock.sid):
                state["send_buf_for"], state["send_buf"] = (i, sock.sid), b""
            if not state["send_buf"] and data.startswith(b"CONNECT "):
                return                                  # setting up the tunnel belongs to connecting
            state["send_buf"] += data
            if parse_request(state["send_buf"])[0] is None:
                return                                  # head without its body: let it through, the body follows
            state["send_fired"].add(i)
            net.log("send", sock.sid, len(data))
            net.sent.setdefault(sock.sid, bytearray()).extend(data)
            sock.peer.feed(data)
            if o[0] == "st":
                raise TimeoutError("timed out")
            if o[0] == "sr":
                raise ConnectionResetError(errno.ECONNRESET, "Connection reset by peer")
            raise BrokenPipeError(errno.EPIPE, "Broken pipe")

        net.send_hook = send_hook

        def tls_hook(sock, info):
            """the handshake with the HTTPS proxy itself (not the TLS-in-TLS one with the origin behind it)"""
            o, i = state["cur"], state["i"]
            if mode in HTTPS_PROXY_MODES and not info["tls_in_tls"] and sock.peer.addr == ("proxy", 3129):
                if o[0] in HANDSHAKE:
                    state["hs_fired"].add(i)
                if o[0] == "ht":
                    raise TimeoutError("_ssl.c:1000: The handshake operation timed out")
                if o[0] == "hr":
                    raise ConnectionResetError(errno.ECONNRESET, "Connection reset by peer")
            return None

        net.tls_hook = tls_hook

        def handler(peer, req):
            if req.method == "CONNECT":
                peer.tunnel_to = ("origin", 443)
                peer.reply(b"HTTP/1.1 200 Connection established\r\n\r\n")
                return
            o = state["cur"]
            i = state["i"]
            state["wire"].append((i, req))
            k = o[0]
            if k in NO_SOCKET_REUSE:
                state["unconsulted"] = True          # a connect fault was scripted but no socket was opened
                k = "re"
            if k in ("rt", "st"):
                return
            if k == "sr":
                k = "rr"                                # the response is read although `send` was reset
            if k == "sp":
                k = "re"                                # the response is read although the pipe was broken
            if k == "rr":
                peer.fault_on_read(ConnectionResetError(errno.ECONNRESET, "Connection reset by peer"))
            elif k == "re":
                peer.close()
            elif k == "rg":
                peer.reply(b"GARBAGE\r\n\r\n")
                peer.close()
            elif k == "o":
                peer.fault_on_read(ssl.SSLError("scripted tls failure"))
            else:
                hs = [] if keep else [("Connection", "close")]
                hs.append(("X-Attempt", str(i)))
                if o[2] is not None:
                    hs.append(("Retry-After", str(o[2])))
                if k == "l":
                    hs.append(("Location", f"{base}/loc{i}"))
                peer.reply(http_response(o[1], hs, reply_body(i, o)))
                if not keep:
                    peer.close()

        srv = Server(handler)
        for key in (("origin", 80), ("origin", 443), ("proxy", 3128), ("proxy", 3129)):
            net.servers[key] = srv
        saved_time = ur.time
        ur.time = FakeTime(state)
        try:
            with net.installed(fake_tls=True):
                if mode == "direct":
                    pool = HTTPConnectionPool("origin", 80, maxsize=1)
                    top, url = pool, "/"
                else:
                    # a prepared context: creating the default one loads the system trust store (40 ms) per handshake
                    if mode in HTTPS_PROXY_MODES:
                        top = ProxyManager("https://proxy:3129", maxsize=1, ssl_context=self.tls_context(),
                                           proxy_ssl_context=self.tls_context())
                    else:
                        top = ProxyManager("http://proxy:3128", maxsize=1, ssl_context=self.tls_context())
                    url = "http://origin/" if mode in ("fwd", "sfwd") else "https://origin/"
                    pool = top.connection_from_url(url)
                inner = pool.urlopen
                sig = inspect.signature(inner)

                def counted(*a, **kw):        # one entry into pool.urlopen == one attempt
                    idx = len(state["att"])
                    o = script[idx] if idx < len(script) else ["s", 200, None]
                    state["att"].append(o)
                    state["cur"] = o
                    state["i"] = idx
                    ba = sig.bind(*a, **kw).arguments
                    state["entries"].append((ba.get("method"), ba.get("url"), ba.get("body")))
                    return inner(*a, **kw)

                pool.urlopen = counted
                returned = None
                try:
                    if via == "manager":
                        # PoolManager.urlopen hands `redirect=False` and the caller's `retries` to the pool
                        r = top.urlopen(method, url, body=body, retries=retries, redirect=redirect,
                                        preload_content=preload)
                    else:
                        purl = "/" if mode not in ("fwd", "sfwd") else url
                        # the forwarding pool is the proxy's: like PoolManager.urlopen, no same-host assertion
                        r = pool.urlopen(method, purl, body=body, retries=retries, redirect=redirect,
                                         assert_same_host=(mode not in ("fwd", "sfwd")), preload_content=preload)
                    res = ("resp", r.status, None)
                    # the caller now reads what it was given
                    try:
                        data = r.data if preload else r.read()
                    except Exception as e:      # noqa: BLE001
                        data = "unreadable:" + type(e).__name__
                    returned = {"attempt": r.headers.get("X-Attempt"), "data": data}
                    try:
                        r.release_conn()
                    except Exception:           # noqa: BLE001
                        pass
                except MaxRetryError as e:
                    res = ("max", cause_name(e.reason), e.reason)
                except HTTPError as e:
                    res = ("err", err_name(e), e)
                except RecursionError:
                    res = ("recursion", "", None)
                except Exception as e:      # noqa: BLE001 — a non-urllib3 exception leaking is itself an observation
                    res = ("raw", type(e).__name__, e)
                finally:
                    pool.urlopen = inner
                    try:
                        top.close() if mode == "direct" else top.clear()
                    except Exception:
                        pass
                wire = state["wire"]
        finally:
            ur.time = saved_time
        return {"att": state["att"], "entries": state["entries"], "wire": wire, "sleeps": state["sleeps"],
                "res": res, "returned": returned, "unconsulted": state["unconsulted"],
                "send_fired": state["send_fired"], "hs_fired": state["hs_fired"]}

    @staticmethod
    def target_id(url):
        """0: the caller's URL; k + 1: the Location handed out by the reply to attempt k"""
        path = url.split("://", 1)[1].partition("/")[2] if "://" in url else url.lstrip("/")
        if path.startswith("loc") and path[3:].isdigit():
            return int(path[3:]) + 1
        return 0 if path == "" else -1

    def execute(self, case, res):
        from urllib3.util.retry import Retry
        spec = case["retry"]
        retries = self.build_retry(spec)
        mode, method = case["mode"], case["method"]
        via = case.get("via", "pool" if mode == "direct" else "manager")
        redirect = bool(case.get("redirect", True))
        # the `redirect=` the pool is called with: PoolManager.urlopen always hands `redirect=False` down
        pool_redirect = redirect if via == "pool" else False
        if via == "manager" and redirect and any(o[0] == "l" for o in case["script"]):
            raise AssertionError("generator sent a Location through the manager's own redirect branch (C05's)")
        lines, out = [], []
        # ---- from_int for the legacy forms
        if not isinstance(retries, Retry):
            for rd in (True, False):
                for dflt in (None, False, 2):
                    lines.append(f"fromint {ctok(retries) if retries is not None else '~'} {int(rd)} "
                                 f"{ctok(dflt) if dflt is not None else '~'}")
                    out.append(show_retry(Retry.from_int(retries, redirect=rd, default=dflt)))
            effective = Retry.from_int(retries, redirect=pool_redirect, default=None)
            policy = "I " + (ctok(retries) if retries is not None else "~")
            res.bump("retries:legacy")
        else:
            effective = retries
            policy = retry_tokens(retries)
            res.bump("retries:object")
        before = dict(vars(effective))
        obs = self.drive(case, retries)
        if obs["unconsulted"]:
            raise AssertionError("generator produced a connect fault on a reused connection")
        att, wire, sleeps, (rk, rv, robj) = obs["att"], obs["wire"], obs["sleeps"], obs["res"]
        if {i for i, o in enumerate(att) if o[0] in SEND} != obs["send_fired"]:
            raise AssertionError("a scripted send failure did not fire (or fired in another attempt)")
        if {i for i, o in enumerate(att) if o[0] in HANDSHAKE} != obs["hs_fired"]:
            raise AssertionError("a scripted proxy handshake failure did not fire (or fired in another attempt)")
        entries, returned = obs["entries"], obs["returned"]
        script = case["script"] + [["s", 200, None]]
        res.bump("mode:" + mode)
        res.bump("via:" + via)
        res.bump("redirect:%d" % redirect)
        res.bump("preload:%d" % bool(case.get("preload", True)))
        res.bump("attempts:%d" % len(att))
        res.bump("result:" + rk)
        for o in att:
            res.bump("outcome:" + (o[0] if o[0] not in REPLY else "%s%d%s" % (o[0], o[1], "" if o[2] is None else "+ra")))
        # ---- the run, line for the model
        sent = len(wire)
        lines.append(f"run {0 if mode == 'direct' else 1} {int(pool_redirect)} {int(bool(case.get('body')))} "
                     f"{enc(method)} " + ",".join(otok(o) for o in script) + " " + policy)
        shown = ",".join(f"{enc(m)}@{self.target_id(u)}{'-' if b is None else '+'}/{otok(o)}"
                         for (m, u, b), o in zip(entries, att))
        if rk == "resp":
            # which reply the caller holds (header) and whether its bytes are those the server sent for it
            k = returned["attempt"]
            intact = k is not None and k.isdigit() and int(k) < len(att) and att[int(k)][0] in REPLY \
                and returned["data"] == reply_body(int(k), att[int(k)])
            shown_res = f"resp:{k}{'' if intact else '!body'}:{rv}"
        else:
            shown_res = rk + ":" + str(rv)
        out.append(f"att={shown or '-'} sent={sent} "
                   f"sleeps={','.join(ticks(s) for _, s in sleeps) or '-'} res={shown_res}")
        # ---- oracle (implementation only)
        self.oracle(case, retries, effective, pool_redirect, before, obs, res)
        # ---- the bare object, call by call
        self.replay_object(case, effective, att, entries, pool_redirect, lines, out)
        return lines, out

    # ------------------------------------------------------------------ bare Retry object
    def replay_object(self, case, retry, att, entries, pool_redirect, lines, out):
        from urllib3.exceptions import (ConnectTimeoutError, MaxRetryError, NewConnectionError, ProtocolError,
                                        ProxyError, ReadTimeoutError, SSLError)
        proxied = case["mode"] != "direct"
        lines.append("retry " + retry_tokens(retry)); out.append("ok")
        cur = retry
        for idx, o in enumerate(att):
            k = o[0]
            method = entries[idx][0] if idx < len(entries) else case["method"]
            if k in REPLY:
                resp = FakeResponse(o[1], o[2], located=(k == "l"))
                lines.append(f"isretry {enc(method)} {o[1]} {int(bool(resp.headers.get('Retry-After')))}")
                out.append(str(int(cur.is_retry(method, o[1], bool(resp.headers.get("Retry-After"))))))
                # `increment` itself asks the response whether it is a redirect
                ev, kw = f"{'r' if resp.get_redirect_location() else 's'}:{o[1]}", {"response": resp}
            else:
                if k == "ct":
                    e = ConnectTimeoutError(None, "timed out")
                elif k == "cr":
                    e = NewConnectionError(None, "refused")
                elif k == "rt":
                    e = ReadTimeoutError(None, "/", "read timed out")
                elif k == "o":
                    e = SSLError("tls")
                elif k == "rg":
                    e = ProtocolError("Connection aborted.", None)
                else:
                    e = ProtocolError("Connection aborted.", None)
                # what the pool would hand over behind a proxy is decided by the run above; here the object is
                # fed the direct-pool classes, plus a ProxyError-wrapped variant to exercise the unwrapping
                if k == "ht":
                    e = ProxyError("Unable to connect to proxy", ReadTimeoutError(None, "/", "read timed out"))
                if k == "hr":
                    e = ProxyError("Unable to connect to proxy", ConnectionResetError(104, "reset"))
                if proxied and k in CONNECT:
                    e = ProxyError("Unable to connect to proxy", e)
                if proxied and k in ("rr", "re"):
                    e = ProxyError("Unable to connect to proxy", ConnectionResetError(104, "reset"))
                ev, kw = "e:" + err_name(e), {"error": e}
            lines.append(f"inc {enc(method)} {ev}")
            try:
                cur = cur.increment(method, "/", **kw)
                out.append("ok " + show_retry(cur))
            except MaxRetryError as e:
                out.append("max " + cause_name(e.reason))
            except Exception as e:      # noqa: BLE001 — re-raised original error
                out.append("reraise " + err_name(e))
            lines.append("exh"); out.append(str(int(cur.is_exhausted())))
            lines.append("backoff"); out.append(ticks(cur.get_backoff_time()))
            if k in REPLY:
                import urllib3.util.retry as ur
                st = {"i": 0, "sleeps": []}
                saved = ur.time
                ur.time = FakeTime(st)
                try:
                    cur.sleep(FakeResponse(o[1], o[2], located=(k == "l")))
                finally:
                    ur.time = saved
                lines.append(f"sleep {o[1]}" + ("" if o[2] is None else f":{o[2]}"))
                out.append(ticks(st["sleeps"][0][1]) if st["sleeps"] else "~")

    # ------------------------------------------------------------------ oracle
    def oracle(self, case, retries, retry, pool_redirect, before, obs, res):
        from urllib3.exceptions import ResponseError, ProxyError, ConnectTimeoutError, ReadTimeoutError
        from urllib3.util.retry import Retry
        att, entries, wire, sleeps = obs["att"], obs["entries"], obs["wire"], obs["sleeps"]
        rk, rv, robj = obs["res"]
        returned = obs["returned"]
        mode, method = case["mode"], case["method"]
        proxied = mode != "direct"

        def fail(sig, what, **detail):
            res.bump("oracle-failure:" + sig)
            # the engine stops a shard after 200 failures: keep a few per signature (all are counted above)
            if sum(1 for f in res.failures if f.get("signature") == sig) < 5:
                res.failures.append(Failure(signature=sig, what=what, case=case, detail=detail))

        n = len(att)
        retried = att[:-1]                      # attempts after which another request was made
        # termination
        if rk == "recursion" or n > len(case["script"]) + 1:
            fail("no-termination", f"urlopen did not stop: {n} attempts for a script of {len(case['script'])}")
            return
        if rk == "raw":
            fail("non-urllib3-exception", f"urlopen raised {rv}")
        # which URL every attempt asked for: the caller's (0) or the Location handed out by attempt k (k + 1)
        targets = [self.target_id(u) for _, u, _ in entries]
        followed = [att[i][0] == "l" and targets[i + 1] == i + 1 for i in range(n - 1)]
        for i, t in enumerate(targets):
            if t != 0 and not (i > 0 and (t == targets[i - 1] or followed[i - 1])):
                fail("unexpected-target", f"attempt {i} asked for {entries[i][1]!r}")
                return
        # redirect=False: the 3xx is handed back, its Location is never requested - whatever was retried before
        if not pool_redirect and any(targets):
            i = next(i for i, t in enumerate(targets) if t)
            prior = ",".join(otok(o) for o in att[:i - 1]) or "nothing"
            fail("redirect-false-followed" + ("" if i == 1 else ":after-retry"),
                 f"redirect=False, yet the Location of {otok(att[i - 1])} was requested (after {prior})")
        for i, f in enumerate(followed):
            if f and not is_redirect_reply(att[i]):
                fail("non-redirect-followed", f"the Location of {otok(att[i])} was requested")
        # method / body of every attempt: the caller's; after a followed 303 a body-less GET
        exp = [(method, b"payload" if case.get("body") else None)]
        for i in range(n - 1):
            exp.append(("GET", None) if (followed[i] and att[i][1] == 303) else exp[-1])
        # wire: every attempt that got past connect puts exactly one request on the wire
        expect_wire = [i for i, o in enumerate(att) if o[0] not in NO_SOCKET_REUSE]
        if [i for i, _ in wire] != expect_wire:
            fail("wire-mismatch", f"requests on the wire for attempts {[i for i, _ in wire]}, expected {expect_wire}")
        else:
            for i, q in wire:
                em, eb = exp[i]
                if q.method != em or (q.body or b"") != (eb or b"") or self.target_id(q.target) != targets[i]:
                    fail("wire-mismatch" + (":303-rewrite" if exp[i] != exp[0] or q.method != method else ""),
                         f"attempt {i}: {q.method} {q.target} body={q.body!r} on the wire, expected {em} "
                         f"target#{targets[i]} body={eb!r}")
                    break
        # budgets (every entry into urlopen counts: retries and redirect hops alike)
        total = retry.total
        if total is not None and total is not False and n > 1 + max(total, 0):
            fail("total-budget-exceeded", f"{n} attempts with total={total}")
        # the redirect budget by the property text: the Retry's own, or - legacy forms - none / 0 for redirect=False
        rbudget = retries.redirect if isinstance(retries, Retry) else (None if pool_redirect else 0)
        for cat in ("connect", "read", "status", "other", "redirect"):
            b = rbudget if cat == "redirect" else getattr(retry, cat)
            if b is None:
                continue
            limit = 0 if b is False else max(b, 0)
            charged = [o for o in retried if category(o) == cat]
            if len(charged) > limit:
                relabelled = [o for o in charged if o[0] in ("rr", "re")]
                if cat == "read" and proxied and len(charged) - len(relabelled) <= limit:
                    fail(KNOWN_SIG + "/read-budget",
                         f"{mode}: {len(charged)} read errors retried with read={b}: a reset/EOF while reading the "
                         f"response is charged to 'other' behind a proxy")
                else:
                    fail(f"{cat}-budget-exceeded", f"{len(charged)} {cat} retries with {cat}={b}")
        # non-idempotent methods are never re-sent after they may have reached the server (a followed redirect is a
        # new request by design: 307/308 keep the method)
        am = retry.allowed_methods
        for i, o in enumerate(retried):
            m_i = exp[i][0]
            if not (am and m_i.upper() not in am):
                continue
            if o[0] in READ or o[0] in SEND or (o[0] in REPLY and not followed[i]):
                if proxied and o[0] in ("rr", "re"):
                    fail(KNOWN_SIG, f"{mode}: {m_i} (not in allowed_methods) re-sent after a connection "
                         f"{'reset' if o[0] == 'rr' else 'EOF'} while reading the response")
                else:
                    fail("nonidempotent-resent:" + category(o), f"{m_i} re-sent after {otok(o)}")
                break
        # retries=False re-raises the original error at once
        if total is False and att and att[0][0] not in REPLY:
            if n != 1 or rk != "err":
                fail("false-not-reraised", f"total=False: {n} attempts, result {rk}:{rv}")
        # the caller's Retry object is never mutated
        if dict(vars(retry)) != before:
            fail("retry-mutated", "the caller's Retry object changed: " +
                 ",".join(k for k in before if before[k] != vars(retry).get(k)))
        # sleeps
        for i, s in sleeps:
            o = att[i] if i < len(att) else None
            if 0 <= s <= retry.backoff_max:
                continue
            if (o is not None and o[0] in REPLY and o[2] is not None and s == o[2]
                    and (retry.respect_retry_after_header or (i < n - 1 and followed[i]))):
                continue
            fail("sleep-out-of-bounds", f"slept {s!r} after {otok(o) if o else '?'} with backoff_max={retry.backoff_max}")
        # a reply is followed by another attempt only as a followed redirect (redirect=True, a redirect status with a
        # Location), or when forcelisted, or 413/429/503 with Retry-After (and the header respected)
        for i, o in enumerate(retried):
            if o[0] in REPLY and not followed[i]:
                forced = o[1] in (retry.status_forcelist or ())
                gated = o[1] in RETRY_AFTER_CODES and o[2] is not None and retry.respect_retry_after_header
                if not (forced or gated):
                    fail("status-retried-outside-gate", f"{otok(o)} was retried")
        # exhaustion surface
        last = att[-1] if att else None
        if rk == "max":
            if last is None:
                fail("exhaustion-surface", "MaxRetryError without an attempt")
            elif last[0] in REPLY:
                as_redirect = is_redirect_reply(last)
                named = isinstance(robj, ResponseError) and (
                    str(last[1]) in str(robj) or (as_redirect and "too many redirects" in str(robj)))
                if not named:
                    fail("exhaustion-surface", f"MaxRetryError after {otok(last)} carries {rv}")
                if as_redirect and pool_redirect:
                    if not retry.raise_on_redirect:
                        fail("exhaustion-surface", "MaxRetryError although raise_on_redirect=False")
                elif not retry.raise_on_status:
                    fail("exhaustion-surface", "MaxRetryError although raise_on_status=False")
            else:
                cause = robj.original_error if isinstance(robj, ProxyError) else robj
                ok = not isinstance(robj, ResponseError)
                if last[0] in CONNECT:
                    ok = ok and isinstance(cause, ConnectTimeoutError)
                if last[0] == "rt":
                    ok = ok and isinstance(cause, ReadTimeoutError)
                if not ok:
                    fail("exhaustion-surface", f"MaxRetryError after {otok(last)} carries {rv}")
        elif rk == "resp":
            if last is None or last[0] not in REPLY or last[1] != rv:
                fail("exhaustion-surface", f"returned status {rv} but the last attempt was {otok(last) if last else None}")
            else:
                # ... "as the last response": the object handed back is the reply to the last attempt, and what the
                # caller reads from it is what the server sent for that attempt
                want = reply_body(n - 1, last)
                if returned["attempt"] != str(n - 1) or returned["data"] != want:
                    how = "preloaded" if case.get("preload", True) else "streamed"
                    fail("returned-response-not-last-reply:" + how,
                         f"the response returned after {otok(last)} (attempt {n - 1}, {how}) is reply "
                         f"#{returned['attempt']} and reads {returned['data']!r}; the server sent {want!r}")
        elif rk == "err":
            if last is None or last[0] in REPLY:
                fail("exhaustion-surface", f"raised {rv} after {otok(last) if last else None}")

    def flush(self, res, pending, tag=""):
        """The engine stops a shard after 20 disagreements and the runner only escalates the search
        when there is *no* failure at all — with known findings always present that would end the
        failing-input search early.  Keep at most 20 disagreements (the rest is counted) so that
        every case is still run through the oracle."""
        super().flush(res, pending, tag)
        if len(res.disagreements) > 20:
            res.bump("disagreements_not_recorded", len(res.disagreements) - 20)
            del res.disagreements[20:]

    def nontrivial(self, case, impl_out):
        for o in impl_out:
            if o.startswith("att="):
                return "," in o.split(" ")[0]
        return False


PROP = C04()
