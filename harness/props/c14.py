"""C14 — URL parsing is total, canonical, and agrees with RFC 3986 on what the host is.

Correspondence: every generated string goes through the real `urllib3.util.parse_url` and through
`U3.Url.parseUrlWith` (driver `url`); the 7-tuple, `.url`, `.request_uri`, `.netloc`, `.authority`
or the error class are compared.  Component-level lines (`_encode_invalid_chars`,
`_remove_path_dot_segments`, `_normalize_host`, `_HOST_PORT_RE`, `_encode_target`) pin the hand
matchers separately, and the Lean `refAuthority` is compared with the Python reference reading.

Oracle (implementation only): only `LocationParseError` escapes; normal form for http/https/None;
re-parse idempotence for http/https; agreement with an independent RFC 3986 reading written here in
Python; encoder / dot-segment / host idempotence; running time on pathological repetitions as a
measurement against a generous linear envelope.
"""
from __future__ import annotations

import itertools
import time

from ..core import Prop, Failure, enc, enc_pairs

ALPHA14 = ["a", "A", ":", "/", "?", "#", "@", "\\", "%", "[", "]", ".", "1", "\n"]
ALPHA10 = ["a", ":", "/", "?", "#", "@", "\\", "%", ".", "1"]
ALPHA10B = ["a", ":", "/", "@", "[", "]", "%", "2", "5", "\n"]
HOSTDELIMS = set("[]:/?#\\@.")

UNRESERVED = set("ABCDEFGHIJKLMNOPQRSTUVWXYZabcdefghijklmnopqrstuvwxyz0123456789._-~")
SUBDELIM = set("!$&'()*+,;=")
RFC = {
    "auth": UNRESERVED | SUBDELIM | {":"},
    "path": UNRESERVED | SUBDELIM | {":", "@", "/"},
    "query": UNRESERVED | SUBDELIM | {":", "@", "/", "?"},
    "fragment": UNRESERVED | SUBDELIM | {":", "@", "/", "?"},
}
HEXU = set("0123456789ABCDEF")
HEX = set("0123456789abcdefABCDEF")
SCHEME_CH = set("abcdefghijklmnopqrstuvwxyzABCDEFGHIJKLMNOPQRSTUVWXYZ0123456789+-.")
ALPHA_CH = set("abcdefghijklmnopqrstuvwxyzABCDEFGHIJKLMNOPQRSTUVWXYZ")


# ------------------------------------------------------------------ independent reference reading

def ref_scheme_rest(s):
    """RFC 3986 §3.1: ALPHA *( ALPHA / DIGIT / "+" / "-" / "." ) ":" -> (scheme, rest) or None"""
    if not s or s[0] not in ALPHA_CH:
        return None
    i = 1
    while i < len(s) and s[i] in SCHEME_CH:
        i += 1
    if i < len(s) and s[i] == ":":
        return s[:i], s[i + 1:]
    return None


def ref_auth_of_hier(rest):
    """authority of a hier-part starting with '//': (userinfo, host, port_text, wellformed)"""
    if not rest.startswith("//"):
        return None
    rest = rest[2:]
    end = len(rest)
    for i, ch in enumerate(rest):
        if ch in "/?#\\":
            end = i
            break
    a = rest[:end]
    ui = None
    if "@" in a:
        k = a.rindex("@")
        ui, a = a[:k], a[k + 1:]
    if a.startswith("["):
        j = a.find("]")
        if j < 0:
            return (ui, a, None, False)
        host, tail = a[: j + 1], a[j + 1:]
        if tail == "":
            return (ui, host, None, True)
        if tail[0] == ":":
            return (ui, host, tail[1:], True)
        return (ui, host, None, False)
    k = a.find(":")
    if k < 0:
        return (ui, a, None, True)
    return (ui, a[:k], a[k + 1:], True)


def ref_authority(s):
    sr = ref_scheme_rest(s)
    if sr is not None:
        return ref_auth_of_hier(sr[1])
    return ref_auth_of_hier(s)


def all_pct_valid(c):
    i = 0
    while i < len(c):
        if c[i] == "%":
            if i + 2 < len(c) and c[i + 1] in HEX and c[i + 2] in HEX:
                i += 3
                continue
            return False
        i += 1
    return True


def unquote_bytes(c):
    """percent-decode every %HH of an ASCII-or-not string to bytes (utf-8, surrogatepass)"""
    out = bytearray()
    i = 0
    while i < len(c):
        if c[i] == "%" and i + 2 < len(c) and c[i + 1] in HEX and c[i + 2] in HEX:
            out.append(int(c[i + 1:i + 3], 16))
            i += 3
        else:
            out += c[i].encode("utf-8", "surrogatepass")
            i += 1
    return bytes(out)


def upper_escapes(c):
    out, i = [], 0
    while i < len(c):
        if c[i] == "%" and i + 2 < len(c) and c[i + 1] in HEX and c[i + 2] in HEX:
            out.append(c[i:i + 3].upper())
            i += 3
        else:
            out.append(c[i])
            i += 1
    return "".join(out)


def expected_bytes(c):
    """what a normalised component must decode to: valid escapes are kept when *all* `%` are valid
    escapes, otherwise the text is taken literally (DESIGN §6 C14 Interpretation) — literally up to
    the case of the hex digits of the `%HH` it contains, which the code upper-cases first"""
    return unquote_bytes(c) if all_pct_valid(c) else upper_escapes(c).encode("utf-8", "surrogatepass")


def good_component(c, allowed):
    """every char in the allowed set or part of an upper-case valid escape"""
    i = 0
    while i < len(c):
        if c[i] == "%":
            if i + 2 < len(c) and c[i + 1] in HEXU and c[i + 2] in HEXU:
                i += 3
                continue
            return False
        if c[i] not in allowed:
            return False
        i += 1
    return True


def ascii_lower(s):
    return "".join(chr(ord(ch) + 32) if "A" <= ch <= "Z" else ch for ch in s)


def idna_answer(label):
    import idna
    try:
        return idna.encode(label.lower(), strict=True, std3_rules=True).decode("ascii")
    except Exception:
        return None


def idna_table(s):
    """answers for every non-ASCII piece a host label could be (pieces between delimiters)"""
    pieces, cur = [], []
    for ch in s:
        if ch in HOSTDELIMS:
            pieces.append("".join(cur))
            cur = []
        else:
            cur.append(ch)
    pieces.append("".join(cur))
    tbl = {}
    for p in pieces:
        if p and not p.isascii() and p not in tbl:
            tbl[p] = idna_answer(p)
    return tbl


def ref_norm_host(host, normalizable):
    """expected urllib3 host for the reference host text; ('exact', str) | ('zone', addr, zone_bytes) | ('reject',)"""
    if not normalizable or host == "":
        return ("exact", host)
    if host.startswith("["):
        body = host[1:-1]
        k = body.find("%")
        if k < 0:
            return ("exact", ascii_lower(host))
        addr, z = body[:k], body[k + 1:]
        if z.startswith("25") and z != "25":
            z = z[2:]
        return ("zone", "[" + ascii_lower(addr), expected_bytes(z))
    if host.isascii():
        return ("exact", ascii_lower(host))
    import re
    if re.fullmatch(r"(?:[0-9]{1,3}\.){3}[0-9]{1,3}", host):
        return ("exact", host)
    labels = []
    for lab in host.split("."):
        if lab.isascii():
            labels.append(ascii_lower(lab))
        else:
            a = idna_answer(lab)
            if a is None:
                return ("reject",)
            labels.append(a)
    return ("exact", ".".join(labels))


def tup(u):
    return (u.scheme, u.auth, u.host, u.port, u.path, u.query, u.fragment)


def show_url(u):
    return (f"ok {enc(u.scheme)} {enc(u.auth)} {enc(u.host)} {'~' if u.port is None else u.port} "
            f"{enc(u.path)} {enc(u.query)} {enc(u.fragment)} | url={enc(u.url)} "
            f"request_uri={enc(u.request_uri)} netloc={enc(u.netloc)} authority={enc(u.authority)}")


PATHO = {
    "a*n": lambda n: "a" * n,
    "/*n": lambda n: "/" * n,
    "@*n": lambda n: "http://" + "@" * n,
    "a@*n": lambda n: "http://" + "a@" * n + "h",
    "%*n": lambda n: "http://h/" + "%" * n,
    "%41*n": lambda n: "http://h/" + "%41" * n,
    "%4*n": lambda n: "http://h/" + "%4" * n,
    "../*n": lambda n: "http://h/" + "../" * n,
    "a/../*n": lambda n: "http://h/" + "a/../" * n,
    "a/*n+../*n": lambda n: "http://h/" + "a/" * n + "../" * n,
    ":*n": lambda n: "http://h" + ":" * n,
    "port0*n": lambda n: "http://h:" + "0" * n + "80",
    "port0*nx": lambda n: "http://h:" + "0" * n + "x",
    "1.*n": lambda n: "http://" + "1." * n,
    "1.*n:x": lambda n: "http://" + "1." * n + ":x",
    "%41host*n]": lambda n: "http://" + "%41" * n + "]",
    "[1:*n": lambda n: "http://[" + "1:" * n,
    "[::*n]": lambda n: "http://[" + "::" * n + "]",
    "[::1%25a*n]": lambda n: "http://[::1%25" + "a" * n + "]",
    "[*n": lambda n: "http://" + "[" * n,
    "?*n": lambda n: "http://h/?" + "?" * n,
    "#*n": lambda n: "http://h/#" + "#" * n,
    "\\n*n": lambda n: "http://h/" + "\n" * n,
    "e-acute*n": lambda n: "http://h/" + "\u00e9" * n,
    "label.*n": lambda n: "http://" + "ab." * n + "com",
    "scheme-run*n": lambda n: "a" * n + "!",
    "idn-label*n": lambda n: "http://" + "\u00fc" * n + ".de",
}
# repeated unit x tail x prefix: a long run that the parser must abandon at the very end (the shape of
# regex backtracking blow-ups: CVE-2021-33503 is "@"*n followed by something that is not a host)
_UNITS = ["@", "a@", "a:b@", ":", "a:", ".", "a.", "1.", "%", "%2", "%41", "[", "]", "1", "0", "/", "\\", "?", "a"]
_TAILS = ["[", ":x", "]", "@", "\n", "\\", "%zz", "host:x", " ", ":65536"]
# the same shape inside an IPv6 zone id (unreserved run / escapes, then something that invalidates the literal)
for _u in ("a", "a.", "%41", "a%41", "-", "~"):
    for _t in ("!]", " ]", "%4]", "%zz]", "", "]x", "^", "]:x"):
        PATHO[f"[::1%25({_u})*n{_t}"] = (lambda n, _u=_u, _t=_t: "http://[::1%25" + _u * n + _t)
        PATHO[f"[fe80::1%({_u})*n{_t}"] = (lambda n, _u=_u, _t=_t: "https://[fe80::1%" + _u * n + _t)
for _pre in ("http://", "https://", ""):
    for _u in _UNITS:
        for _t in _TAILS:
            PATHO[f"{_pre}({_u})*n{_t}"] = (lambda n, _pre=_pre, _u=_u, _t=_t: _pre + _u * n + _t)


class _TooSlow(BaseException):
    pass


class _watchdog:
    """wall-clock alarm around one parse_url call (shards are single-threaded processes; `re` checks for pending
    signals while matching): an exponential matcher must not hang the check, it must be reported"""
    def __init__(self, seconds):
        self.seconds = seconds

    def __enter__(self):
        import signal, threading
        self.armed = threading.current_thread() is threading.main_thread()
        if self.armed:
            def fire(signum, frame):
                raise _TooSlow()
            self.old = signal.signal(signal.SIGALRM, fire)
            signal.setitimer(signal.ITIMER_REAL, self.seconds)
        return self

    def __exit__(self, *exc):
        import signal
        if self.armed:
            signal.setitimer(signal.ITIMER_REAL, 0)
            signal.signal(signal.SIGALRM, self.old)
        return False


class C14(Prop):
    id = "C14"
    case_watchdog = None          # this property manages time itself (per-string alarms / schedule exploration)
    model = "url"
    rule = ("strings: exhaustive over {a,A,:,/,?,#,@,\\,%,[,],.,1,\\n} up to length 4 (quick; bare and behind "
            "'http://') / length 5 on that alphabet and length 6 on two 10-symbol alphabets (thorough); "
            "grammar-generated URLs with hostile components (nested '@', backslashes, '%' forms, IPv6/zone "
            "literals, IDN labels, ports with leading zeros/overflow, dot-segment mixes) plus single-character "
            "mutations of them; random unicode incl. lone surrogates; component-level inputs for "
            "_encode_invalid_chars, _remove_path_dot_segments, _normalize_host, _HOST_PORT_RE, _encode_target. "
            "Each string: parse_url vs the Lean model (7-tuple, url, request_uri, netloc, authority or error "
            "class), Lean refAuthority vs the Python reference reading, and the implementation-only oracle "
            "(only LocationParseError; normal form; re-parse; RFC agreement; idempotence). "
            "non-trivial = the parse succeeded with a host, or failed with LocationParseError on a string "
            "containing an authority")
    assumptions = [
        "idna.encode is an uninterpreted function: its answer for each non-ASCII label is computed by the "
        "harness (idna.encode(label.lower(), strict=True, std3_rules=True)) and handed to the model",
        "str.lower() is modelled for ASCII only (non-ASCII labels go through the idna answer)",
        "running time is measured (linear envelope on repetitions 10^3..10^5), not proved",
        "host lower-casing is read as: reg-name / address part lower-cased; an RFC 6874 zone id keeps its case",
    ]
    trusted = ["CPython `re` semantics (hand matchers validated by exhaustive short-string correspondence)",
               "idna package (answers taken as given)"]
    time_budget = {"quick": 140, "thorough": 1500}
    exhaustive = {"quick": True, "thorough": True}
    batch = 6000
    CHUNK = 48

    # ------------------------------------------------------------ generation
    def exhaustive_strings(self, alpha, maxlen, prefixes):
        for L in range(0, maxlen + 1):
            for t in itertools.product(alpha, repeat=L):
                s = "".join(t)
                for p in prefixes:
                    yield p + s

    SCHEMES = ["http", "https", "HTTP", "hTTps", "ftp", "ws", "a.b", "h2+x", "1http", "http\n", "", None]
    USERINFO = [None, "", "u", "u:p", "a@b", "a@b@c", "%41", "%4", "%zz", "%e9", "\u00fc", "U:P%2f", "a b",
                "@", "@@", ":", "u!$&'()*+,;=", "\ud800", "a%40b", "%%41"]
    REGNAMES = ["h", "Example.COM", "a..b", "h.", ".h", "%41b", "%4", "ex%2eample", "1.2.3.4", "1.2.3.4\n",
                "256.1.1.1", "1.2.3", "01.02.03.004", "b\u00fccher.de", "B\u00dcCHER.example", "xn--bcher-kva.de",
                "\u00e9x.\u00e9y", "a_b", "a b", "h\n", "\u2488", "a\u3002b", "\ud800", "-a-", "a" * 64,
                "\u00fc" * 3 + "-", "", "localhost", "EXAMPLE", "h\t", "\u00e9%41"]
    V6 = ["::", "::1", "1::", "1:2:3:4:5:6:7:8", "1:2:3:4:5:6:7", "1:2:3:4:5:6:7:8:9", "1::2:3:4:5:6:7",
          "1::2:3:4:5:6:7:8", "::1.2.3.4", "1:2:3:4:5:6:1.2.3.4", "1:2:3:4:5:6:7:1.2.3.4", "::ffff:1.2.3.4",
          "1::1.2.3.4", "1:2:3:4:5:6::1.2.3.4", "1:2:3:4:5::1.2.3.4", "::1.2.3", "::1.2.3.4.5", "::256.1.1.1",
          "FE80::AbCd", "12345::", "g::", ":::", "1:::2", "::1::", ":1", "1:", "", "1.2.3.4", "::1.2.3.4:5",
          "1:2:3:4:5:6:7::", "::2:3:4:5:6:7:8", "1::8", "fe80::1"]
    ZONES = ["", "%25eth0", "%eth0", "%25", "%2525", "%2525a", "%25%41", "%25%4", "%", "%25Eth0", "%25a%2fb",
             "%25a b", "%25a]", "%2", "%25\u00e9", "%a%zz", "%25~._-", "%%25", "%25%25", "%251", "%252"]
    PORTS = [None, "", "80", "080", "0", "00", "65535", "65536", "065535", "99999", "100000", "0000000080",
             "8a", "80\n", "\n", "-1", "\u0663", "8 0", "80\n\n", "+80", "443", "1" * 30, "0" * 30]
    SEGS = [".", "..", "a", "", "%2e", "%2E", "A%41", "\u00fc", "a b", "\\", "%", ";x", "...", ".a", "a.",
            "%2e%2e", "\n", "\ud800", "@", ":", "*"]
    QF = [None, "", "q", "a=b&c=d", "?", "#", "%41", "%4", "%zz", "a b", "\u00fc", "\n", "x\ny", "[]", "a%2Fb",
          "\udfff", "/../", "%%", "%a%41"]
    SEPS = ["://", "://", "://", ":", ":/", ":///", ":\\\\", "//", "/"]

    def grammar_url(self, rng):
        c = rng.choice
        sch = c(self.SCHEMES)
        if sch is None:
            s = c(["", "", "//", "/"])
        else:
            s = sch + c(self.SEPS)
        ui = c(self.USERINFO) if rng.random() < 0.5 else None
        if ui is not None:
            s += ui + "@"
        r = rng.random()
        if r < 0.5:
            s += c(self.REGNAMES)
        elif r < 0.95:
            s += c(["[", "[", "[", ""]) + c(self.V6) + c(self.ZONES) + c(["]", "]", "]", "", "]\n", "]x"])
        p = c(self.PORTS) if rng.random() < 0.6 else None
        if p is not None:
            s += ":" + p
        if rng.random() < 0.7:
            n = rng.randint(0, 5)
            s += c(["/", "/", "\\", ""]) + "/".join(c(self.SEGS) for _ in range(n))
        q = c(self.QF) if rng.random() < 0.4 else None
        if q is not None:
            s += "?" + q
        f = c(self.QF) if rng.random() < 0.3 else None
        if f is not None:
            s += "#" + f
        if rng.random() < 0.25 and s:
            k = rng.randrange(len(s) + 1)
            m = rng.random()
            ch = c(ALPHA14 + ["2", "5", "0", " ", "\u00e9"])
            if m < 0.4:
                s = s[:k] + ch + s[k:]
            elif m < 0.7:
                s = s[:k] + s[k + 1:]
            else:
                s = s[:k] + ch + s[k + 1:]
        return s

    def random_unicode(self, rng):
        n = rng.randint(1, 12)
        out = []
        for _ in range(n):
            r = rng.random()
            if r < 0.45:
                out.append(rng.choice(ALPHA14 + list("25hx.- ")))
            elif r < 0.55:
                out.append(chr(rng.randrange(0xD800, 0xE000)))
            elif r < 0.7:
                out.append(chr(rng.randrange(0x80, 0x800)))
            elif r < 0.8:
                out.append(chr(rng.choice([0xFF10, 0xFF21, 0x2488, 0x3002, 0xFF0E, 0x200D, 0x0130, 0x00DF, 0x212A,
                                           0xFF0F, 0xFF1A, 0xFE55, 0x2100, 0x0660])))
            elif r < 0.9:
                out.append(chr(rng.randrange(0x10000, 0x110000)))
            else:
                out.append(chr(rng.randrange(0, 0x80)))
        s = "".join(out)
        if rng.random() < 0.5:
            s = rng.choice(["http://", "https://", "//", "HTTP://u@"]) + s
        return s

    def comp_cases(self, rng, n):
        atoms = ["%41", "%4", "%", "%zz", "%e9", "a", "Z", "/", "?", "#", "@", ":", " ", "\u00fc", "\ud800",
                 "\U0001f600", "~", "!", "[", "\\", "\n", "%2f", "%25", "25", "\x7f", "\x00", "\u07ff", "\u0800",
                 "\uffff", "%aF"]
        for _ in range(n):
            k = rng.random()
            if k < 0.35:
                s = "".join(rng.choice(atoms) for _ in range(rng.randint(0, 6)))
                yield {"kind": "comp", "op": "enc", "set": rng.choice("uipqf"), "s": s}
            elif k < 0.6:
                segs = [rng.choice(self.SEGS + [".", "..", "..", "a", ""]) for _ in range(rng.randint(0, 7))]
                yield {"kind": "comp", "op": "dotseg", "s": rng.choice(["", "/", ""]) + "/".join(segs)}
            elif k < 0.8:
                if rng.random() < 0.5:
                    h = "[" + rng.choice(self.V6) + rng.choice(self.ZONES) + rng.choice(["]", "]", "]\n", ""])
                else:
                    h = rng.choice(self.REGNAMES + [None])
                yield {"kind": "comp", "op": "nhost", "s": h, "scheme": rng.choice(["http", "https", None, "ftp", "HTTP"])}
            elif k < 0.9:
                if rng.random() < 0.5:
                    h = "[" + rng.choice(self.V6) + rng.choice(self.ZONES) + "]"
                else:
                    h = rng.choice(self.REGNAMES)
                p = rng.choice(self.PORTS)
                yield {"kind": "comp", "op": "hostport", "s": h + ("" if p is None else ":" + p)}
            else:
                t = rng.choice(["/", "/", "", "a"]) + "/".join(rng.choice(self.SEGS) for _ in range(rng.randint(0, 3)))
                q = rng.choice(self.QF)
                f = rng.choice(self.QF)
                yield {"kind": "comp", "op": "target", "s": t + ("" if q is None else "?" + q) + ("" if f is None else "#" + f)}

    def chunked(self, kind, it):
        buf = []
        for s in it:
            buf.append(s)
            if len(buf) >= self.CHUNK:
                yield {"kind": kind, "ss": buf}
                buf = []
        if buf:
            yield {"kind": kind, "ss": buf}

    def regex_changed(self):
        try:
            from tools.facts import url as fu
            import importlib, hashlib
            m = importlib.import_module("urllib3.util.url")
            ch = []
            for n in fu.REGEXES:
                r = getattr(m, n)
                if hashlib.sha1((r.pattern + "|" + str(int(r.flags))).encode()).hexdigest() != fu.WRITTEN_FOR.get(n):
                    ch.append(n)
            return ch
        except Exception:
            return ["?"]

    def cases(self, rng, tier, escalate=False):
        deep = tier == "thorough" or escalate or bool(self.regex_changed())
        # hand-picked seeds (DESIGN §7 candidates — two of them repaired since — and the non-vacuity
        # examples of the Props file)
        seeds = ["http://h:80\n", "http://:", "http://a@b@c\\d/", "http://[fe80::1%25eth0]:080/a/../b?x#y",
                 "http://[::1%2525a]", "a.b://host/", "HTTP://User@EXAMPLE.com:0080/%7euser/./x/../y?q=%zz#f%41",
                 "google.com:80", "/foo?bar", "http://b\u00fccher.de/", "http://[::1]\n", "x://A%41/../b",
                 "http://@", "http://@:", "http://:/x", "http://:80", "http://u@", "http://h:\n/x", "http://h\n"]
        yield from self.chunked("seed", seeds)
        # running time first: cheap, and a deep (escalated) enumeration below may use up the time budget
        for pat in PATHO:
            yield {"kind": "timing", "pat": pat, "ns": [16, 24, 1000, 10000, 100000]}
        if deep:
            yield from self.chunked("exh", self.exhaustive_strings(ALPHA14, 4, ["", "http://"]))
            yield from self.chunked("exh", (s for s in self.exhaustive_strings(ALPHA14, 5, ["", "http://"]) if len(s.replace("http://", "", 1) if s.startswith("http://") else s) == 5))
            yield from self.chunked("exh", self.exhaustive_strings(ALPHA10, 6, ["http://"]))
            yield from self.chunked("exh", (s for s in self.exhaustive_strings(ALPHA10, 6, [""]) if len(s) == 6))
            yield from self.chunked("exh", (s for s in self.exhaustive_strings(ALPHA10B, 6, ["http://["]) if len(s) >= 13))
        else:
            yield from self.chunked("exh", self.exhaustive_strings(ALPHA14, 4, ["", "http://"]))
        ngram = 300000 if deep else 20000
        yield from self.chunked("gram", (self.grammar_url(rng) for _ in range(ngram)))
        nuni = 100000 if deep else 6000
        yield from self.chunked("uni", (self.random_unicode(rng) for _ in range(nuni)))
        yield from self.comp_cases(rng, 200000 if deep else 12000)

    # ------------------------------------------------------------ oracle on one string
    MAX_PER_SIG = 4

    def add_failure(self, res, sig, what, case):
        """every failure is counted in the histogram; only the first few per signature and shard are
        kept as Failure objects (the engine stops a shard after 200 failures, which would otherwise
        truncate the enumeration as soon as a frequent known finding shows up)"""
        key = "failure:" + sig
        res.bump(key)
        if res.hist[key] <= self.MAX_PER_SIG:
            res.failures.append(Failure(signature=sig, what=what, case=case))

    def check_string(self, s, case, res, lines, out):
        from urllib3.util import parse_url
        from urllib3.exceptions import LocationParseError

        def fail(sig, what):
            self.add_failure(res, sig, what, {"kind": "urls", "ss": [s]})

        tbl = idna_table(s)
        line = "parse " + enc(s)
        ok_tbl = [(k, v) for k, v in tbl.items() if v is not None]
        if ok_tbl:
            line += " " + enc_pairs(ok_tbl)
        lines.append(line)
        try:
            u = parse_url(s)
        except LocationParseError:
            out.append("err LocationParseError")
            u = None
            res.bump("result:LocationParseError")
        except Exception as e:  # the totality clause
            out.append("err " + type(e).__name__)
            fail("unexpected-exception:" + type(e).__name__,
                 f"parse_url({s!r}) raised {type(e).__name__} instead of LocationParseError")
            return None
        if u is not None:
            out.append(show_url(u))
            res.bump("result:ok" + (":host" if u.host else ""))
        # Lean refAuthority vs the Python reference reading (keeps the two "independent readings" equal)
        r = ref_authority(s)
        lines.append("ref " + enc(s))
        out.append("noauth" if r is None else f"ref {enc(r[0])} {enc(r[1])} {enc(r[2])} {int(r[3])}")
        if u is None:
            return None
        self.check_normal_form(s, u, fail)
        self.check_reparse(s, u, fail)
        self.check_rfc(s, u, r, fail)
        return u

    def check_normal_form(self, s, u, fail):
        if u.scheme not in ("http", "https", None):
            return
        if u.scheme is not None and u.scheme != ascii_lower(u.scheme):
            fail("normal-form:scheme-case", f"parse_url({s!r}).scheme = {u.scheme!r} is not lower-case")
        if u.host:
            h = u.host
            part = h.split("%", 1)[0] if h.startswith("[") else h
            if part != ascii_lower(part) or (not h.startswith("[") and not h.isascii()):
                fail("normal-form:host-case", f"parse_url({s!r}).host = {u.host!r} is not lower-case ASCII")
        if u.port is not None and not (0 <= u.port <= 65535):
            fail("normal-form:port-range", f"parse_url({s!r}).port = {u.port!r}")
        if u.path is not None and any(seg in (".", "..") for seg in u.path.split("/")):
            fail("normal-form:dot-segment", f"parse_url({s!r}).path = {u.path!r} keeps a dot segment")
        for name in ("auth", "path", "query", "fragment"):
            v = getattr(u, name)
            if v is not None and not good_component(v, RFC[name]):
                fail("normal-form:chars:" + name,
                     f"parse_url({s!r}).{name} = {v!r} has a character outside the RFC 3986 set / a non-upper-case escape")

    def classify_reparse(self, u, u2):
        # `reparse-mismatch:empty-host` is repaired in util/url.py (an authority made of delimiters
        # only is reported with host None); the branch stays so that a regression keeps its name
        t, t2 = tup(u), tup(u2)
        if u.host == "" and u2.host is None and t[:2] + t[3:] == t2[:2] + t2[3:] and u.port is None and u.auth is None:
            return "reparse-mismatch:empty-host"
        if u.host and u.host.startswith("[") and "%25" in u.host and t[:2] + t[3:] == t2[:2] + t2[3:]:
            z = u.host.split("%", 1)[1]
            if z.startswith("25") and z != "25]":
                return "reparse-mismatch:zone-25-prefix"
        return "reparse-mismatch:other"

    def check_reparse(self, s, u, fail):
        from urllib3.util import parse_url
        if u.scheme not in ("http", "https"):
            return
        try:
            u2 = parse_url(u.url)
        except Exception as e:
            fail("reparse-raises:" + type(e).__name__, f"parse_url({s!r}).url = {u.url!r} does not parse back ({type(e).__name__})")
            return
        if tup(u2) != tup(u):
            fail(self.classify_reparse(u, u2),
                 f"parse_url({s!r}) = {tup(u)!r}; its .url {u.url!r} re-parses to {tup(u2)!r}")

    def rfc_disagreement(self, s, u, r):
        """None when urllib3's (userinfo, host, port) equal the reference reading, else a description"""
        normalizable = u.scheme in ("http", "https", None)
        if r is None:
            return None
        ui, host, port, wf = r
        if not wf:
            return f"reference reading finds a malformed IP-literal in the authority, urllib3 accepts host {u.host!r}"
        exp = ref_norm_host(host, normalizable)
        got = u.host or ""
        if exp[0] == "reject":
            return f"reference host {host!r} has a label IDNA rejects, urllib3 returns {u.host!r}"
        if exp[0] == "exact":
            if got != exp[1]:
                return f"host {u.host!r}, reference reading {exp[1]!r}"
        else:
            k = got.find("%")
            if k < 0 or got[:k] != exp[1] or not got.endswith("]") or unquote_bytes(got[k + 1:-1]) != exp[2]:
                return f"host {u.host!r}, reference reading {host!r}"
        if port is None or port == "":
            if u.port is not None:
                return f"port {u.port!r} but the reference reading has no port"
        else:
            if not (port.isascii() and port.isdigit()):
                return f"port text {port!r} is not *DIGIT, urllib3 returns port {u.port!r}"
            if u.port != int(port):
                return f"port {u.port!r}, reference reading {int(port)}"
        if not ui:
            if u.auth is not None:
                return f"auth {u.auth!r} but the reference reading has no userinfo"
        else:
            if u.auth is None:
                return f"userinfo {ui!r} dropped"
            if normalizable:
                if unquote_bytes(u.auth) != expected_bytes(ui):
                    return f"auth {u.auth!r}, reference userinfo {ui!r}"
            elif u.auth != ui:
                return f"auth {u.auth!r}, reference userinfo {ui!r}"
        return None

    def check_rfc(self, s, u, r, fail):
        from urllib3.util import parse_url
        if r is None:
            # no authority in the RFC reading: urllib3 must not see a host, except for its documented
            # scheme-less shorthand ("google.com:80"), where it must agree with the reading of "//" + s
            if u.host is None and u.port is None and u.auth is None:
                return
            if s.startswith("/"):
                fail("rfc-mismatch:host-invented", f"parse_url({s!r}) has host {u.host!r} but the string is a path")
                return
            r2 = ref_authority("//" + s)
            d = self.rfc_disagreement(s, u, r2) if r2 is not None else "no authority"
            if d is None:
                return
            what = f"parse_url({s!r}) (scheme-less shorthand): {d}"
            r_use, s_use = r2, "//" + s
        else:
            d = self.rfc_disagreement(s, u, r)
            if d is None:
                return
            what = f"parse_url({s!r}): {d}"
            r_use, s_use = r, s
        # classify
        sig = "rfc-mismatch:other"
        sr = ref_scheme_rest(s)
        if r is not None and sr is not None and "." in sr[0]:
            sig = "rfc-mismatch:dotted-scheme"
        else:
            # one "\n" at the very end of the authority, swallowed by Python's `$` — repaired in
            # util/url.py (`_HOST_PORT_RE` / `_IPV6_ADDRZ_RE` end in `\Z`); the classifier stays so
            # that a regression is reported under its name (the finding is listed as fixed, which
            # suppresses nothing)
            sr2 = ref_scheme_rest(s_use)
            off = len(s_use) - len(sr2[1]) if (sr2 is not None and sr2[1].startswith("//")) else 0
            a_end = off + 2
            while a_end < len(s_use) and s_use[a_end] not in "/?#\\":
                a_end += 1
            if a_end > off + 2 and s_use[a_end - 1] == "\n":
                s2 = s_use[:a_end - 1] + s_use[a_end:]
                try:
                    u2 = parse_url(s2)
                    r3 = ref_authority(s2)
                    if r3 is not None and self.rfc_disagreement(s2, u2, r3) is None and \
                            (u2.host, u2.port, u2.auth) == (u.host, u.port, u.auth):
                        sig = "rfc-mismatch:dollar-newline"
                except Exception:
                    pass
        fail(sig, what)

    # ------------------------------------------------------------ execution
    def execute(self, case, res):
        kind = case["kind"]
        lines, out = [], []
        if kind == "timing":
            return self.exec_timing(case, res)
        if kind == "comp":
            try:
                with _watchdog(20.0 + 200e-6 * len(case.get("s") or "")):
                    return self.exec_comp(case, res)
            except _TooSlow:
                self.add_failure(res, "superlinear-time:component", f"{case['op']}({(case.get('s') or '')[:80]!r}…) did not answer "
                                 f"within 20 s + 200 µs/char ({len(case.get('s') or '')} chars)", case)
                return [], []
        res.bump("strings:" + kind, len(case["ss"]))
        for s in case["ss"]:
            # no single string may hang the check: a matcher that blows up is reported, not waited for
            nl, no = len(lines), len(out)
            try:
                with _watchdog(20.0 + 200e-6 * len(s)):
                    self.check_string(s, case, res, lines, out)
            except _TooSlow:
                del lines[nl:], out[no:]
                self.add_failure(res, "superlinear-time:string", f"parse_url({s[:80]!r}…) and its re-parse did not answer within "
                                 f"20 s + 200 µs/char ({len(s)} chars)", {"kind": "urls", "ss": [s]})
        return lines, out

    def exec_comp(self, case, res):
        from urllib3.util import url as U
        from urllib3.exceptions import LocationParseError
        op, s = case["op"], case["s"]
        res.bump("comp:" + op)
        lines, out = [], []

        def fail(sig, what):
            self.add_failure(res, sig, what, case)

        if op == "enc":
            sets = {"u": U._UNRESERVED_CHARS, "i": U._USERINFO_CHARS, "p": U._PATH_CHARS, "q": U._QUERY_CHARS,
                    "f": U._FRAGMENT_CHARS}
            mine = {"u": UNRESERVED, "i": RFC["auth"], "p": RFC["path"], "q": RFC["query"], "f": RFC["fragment"]}
            lines.append(f"enc {case['set']} {enc(s)}")
            try:
                e = U._encode_invalid_chars(s, sets[case["set"]])
            except Exception as ex:
                out.append("err " + type(ex).__name__)
                fail("unexpected-exception:" + type(ex).__name__, f"_encode_invalid_chars({s!r}) raised {type(ex).__name__}")
                return lines, out
            out.append("str " + enc(e))
            if not good_component(e, mine[case["set"]]):
                fail("encode:not-normal", f"_encode_invalid_chars({s!r}) = {e!r} is not in normal form")
            if unquote_bytes(e) != expected_bytes(s):
                fail("encode:double-or-lost", f"_encode_invalid_chars({s!r}) = {e!r} decodes to {unquote_bytes(e)!r}, expected {expected_bytes(s)!r}")
            e2 = U._encode_invalid_chars(e, sets[case["set"]])
            if e2 != e:
                fail("encode:not-idempotent", f"_encode_invalid_chars twice on {s!r}: {e!r} then {e2!r}")
        elif op == "dotseg":
            lines.append("dotseg " + enc(s))
            p = U._remove_path_dot_segments(s)
            out.append("str " + enc(p))
            if any(seg in (".", "..") for seg in p.split("/")):
                fail("dotseg:remains", f"_remove_path_dot_segments({s!r}) = {p!r} keeps a dot segment")
            if U._remove_path_dot_segments(p) != p:
                fail("dotseg:not-idempotent", f"_remove_path_dot_segments twice on {s!r}: {p!r} then {U._remove_path_dot_segments(p)!r}")
        elif op == "nhost":
            sc = case["scheme"]
            tbl = idna_table(s or "")
            ok_tbl = [(k, v) for k, v in tbl.items() if v is not None]
            lines.append(f"nhost {enc(s)} {enc(sc)}" + (" " + enc_pairs(ok_tbl) if ok_tbl else ""))
            try:
                h = U._normalize_host(s, sc)
                out.append("host " + enc(h))
            except LocationParseError:
                out.append("err LocationParseError")
                return lines, out
            except Exception as ex:
                out.append("err " + type(ex).__name__)
                fail("unexpected-exception:" + type(ex).__name__, f"_normalize_host({s!r}, {sc!r}) raised {type(ex).__name__}")
                return lines, out
            try:
                h2 = U._normalize_host(h, sc)
            except Exception as ex:
                h2 = ex
            if h2 != h:
                z = (h or "").split("%", 1)[1] if "%" in (h or "") else ""
                sig = "host:not-idempotent:zone-25-prefix" if (h or "").startswith("[") and z.startswith("25") and z.rstrip("\n") != "25]" else "host:not-idempotent"
                fail(sig, f"_normalize_host twice on {s!r} ({sc!r}): {h!r} then {h2!r}")
        elif op == "hostport":
            hp_re = getattr(U, "_HOST_PORT_RE", None)
            if hp_re is None:
                # the regex was refactored away: this component pin no longer applies (parse_url as a
                # whole is still compared with the model); the fact extractor reports the changed pin
                res.bump("skipped:hostport-regex-missing")
                return [], []
            lines.append("hostport " + enc(s))
            m = hp_re.match(s)
            if m is None:
                out.append("nomatch")
            else:
                out.append(f"hp {enc(m.group(1))} {enc(m.group(2))}")
        elif op == "target":
            lines.append("target " + enc(s))
            try:
                out.append("str " + enc(U._encode_target(s)))
            except LocationParseError:
                out.append("err LocationParseError")
            except Exception as ex:
                out.append("err " + type(ex).__name__)
                fail("unexpected-exception:" + type(ex).__name__, f"_encode_target({s!r}) raised {type(ex).__name__}")
        return lines, out

    def exec_timing(self, case, res):
        from urllib3.util import parse_url
        from urllib3.exceptions import LocationParseError
        pat = case["pat"]
        gen = PATHO[pat]
        ts = {}
        for n in case["ns"]:
            s = gen(n)
            best = None
            for _ in range(2):
                # CPU time of this thread: a loaded machine must not look like a slow parser
                t0 = time.thread_time()
                try:
                    with _watchdog(30.0 + 200e-6 * len(s)):
                        parse_url(s)
                except LocationParseError:
                    pass
                except _TooSlow:
                    pass            # the envelope test below reports it (the CPU time spent is far beyond it)
                except Exception as e:
                    res.failures.append(Failure(signature="unexpected-exception:" + type(e).__name__,
                                                what=f"parse_url(<{pat} n={n}>) raised {type(e).__name__}", case=case))
                dt = time.thread_time() - t0
                best = dt if best is None else min(best, dt)
                if dt > 4 * (1.0 + 50e-6 * len(s)):
                    break       # hopeless: do not measure twice
            ts[n] = best
            # measurement, reported in the histogram: microseconds per character, bucketed
            us = best * 1e6 / max(len(s), 1)
            bucket = "<0.1" if us < 0.1 else "<1" if us < 1 else "<10" if us < 10 else ">=10"
            res.bump(f"timing:n={n}:us/char{bucket}")
            # linear envelope with a generous constant: 50 µs per character + 1 s
            if best > 1.0 + 50e-6 * len(s):
                res.failures.append(Failure(signature="superlinear-time:" + pat,
                                            what=f"parse_url on {pat} with n={n} ({len(s)} chars) took {best:.2f}s "
                                                 f"(> 1 s + 50 µs/char)", case=case))
                break           # a larger n would only take longer
        res.bump("timing:patterns")
        return [], []

    def nontrivial(self, case, impl_out):
        if case["kind"] in ("timing",):
            return False
        if case["kind"] == "comp":
            return True
        return any(o.startswith("ok ") and o.split(" ")[3] not in ("~", "-") for o in impl_out) or \
            any(o.startswith("err") for o in impl_out)

    def shrink_candidates(self, case):
        if case.get("kind") == "comp":
            s = case.get("s") or ""
            for i in range(len(s)):
                c = dict(case)
                c["s"] = s[:i] + s[i + 1:]
                yield c
            return
        ss = case.get("ss")
        if not ss:
            return
        if len(ss) > 1:
            for s in ss:
                yield {"kind": case["kind"], "ss": [s]}
            return
        s = ss[0]
        for i in range(len(s)):
            yield {"kind": case["kind"], "ss": [s[:i] + s[i + 1:]]}


PROP = C14()
