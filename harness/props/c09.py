"""C09 — proxied traffic follows the documented routing and never leaks outside it.

A `ProxyManager` is run over the in-memory network (`harness/net.py`, fake TLS) against a recording
proxy that also plays the origins inside CONNECT tunnels.  Both parties log what they saw (TCP
connects, TLS handshakes with SNI / tls_in_tls, the CONNECT line and its headers, forwarded
requests, requests inside a tunnel).

Correspondence: the same configuration / environment script / request history is fed to
`U3.Proxy.managerRequest` (driver `proxy`) and the event list + outcome class of every request is
compared; `connection_requires_http_tunnel` is compared on its whole input table.
Oracle: the text of the property as predicates over the two parties' logs (no model involved).
"""
from __future__ import annotations

import gc
import os
import socket
import ssl
import threading
import warnings

from ..core import Prop, Failure, enc, enc_pairs

STATUSES = [200, 403, 407, 502, "g"]
HOSTS = ["o.example", "O.Example", "b.example", "[::1]", "[2001:db8::A]", "10.0.0.5", "o.example."]
PROXY_HOSTS = ["proxy.example", "px"]
PATHS = ["/x", "/", "/a/b?c=1"]
PROXY_HEADER_SETS = [
    [["Proxy-Authorization", "Basic abc"]],
    [],
    [["Proxy-Authorization", "Basic abc"], ["X-Proxy-Trace", "t1"]],
    [["proxy-authorization", "Bearer zzz"], ["Proxy-Connection", "keep-alive"]],
]
REQ_HEADER_SETS = [
    None,
    [],
    [["X-App", "1"]],
    [["Accept", "text/plain"], ["Cookie", "k=v"]],
    [["accept", "a/b"], ["user-agent", "me"], ["X-App", "2"]],
    [["Accept-Encoding", "gzip"], ["Authorization", "tok"]],
    [["host", "override.example"], ["X-App", "3"]],
]
MGR_HEADER_SETS = [None, [["X-Mgr", "m"]], [["User-Agent", "mgr-ua"], ["Accept", "m/m"]]]
PROXY_HEADER_NAMES = {"proxy-authorization", "x-proxy-trace", "proxy-connection"}


# ---------------------------------------------------------------- what the property text expects
# (computed from the case's own components, never through urllib3's parser)

def eff_proxy_port(cfg):
    return cfg["pport"] if cfg["pport"] is not None else (443 if cfg["ps"] == "https" else 80)


def exp_host(r):
    return r["h"].lower()


def exp_port(r):
    return r["p"] if r["p"] is not None else (443 if r["s"] == "https" else 80)


def exp_connect_target(r):
    return f"{exp_host(r)}:{exp_port(r)}"


def exp_name(r):
    h = exp_host(r).rstrip(".")
    return h[1:-1] if h.startswith("[") and h.endswith("]") else h


def exp_abs(r):
    return f"{r['s']}://{exp_host(r)}" + (f":{r['p']}" if r["p"] is not None else "") + r["path"]


def tunnel_expected(cfg, r):
    """an HTTPS destination is reached only through a CONNECT tunnel unless forwarding was
    explicitly opted into (which only an HTTPS proxy honours); HTTP destinations are forwarded"""
    return r["s"] == "https" and not (cfg["ps"] == "https" and cfg["fwd"])


def cls_name(e):
    from urllib3.exceptions import ProxyError
    n = type(e).__name__
    if isinstance(e, ProxyError):
        o = getattr(e, "original_error", None)
        on = type(o).__name__
        if isinstance(o, OSError) and not isinstance(o, ssl.SSLError):
            on = "OSError"
        return f"ProxyError({on})"
    return n

# ---------------------------------------------------------------- loopback recording proxy, real TLS

REAL_HOSTS = ["o.example", "O.Example", "b.example", "o.example.", "[::1]", "10.0.0.5"]
_PKI = {}


def pki():
    """one CA (trusted by the client), one foreign CA, certificates for the proxy and the origins"""
    if not _PKI:
        import trustme
        from ..core import WORK
        d = os.path.join(WORK, f"c09-pki-{os.getpid()}")
        os.makedirs(d, exist_ok=True)
        ca, other = trustme.CA(), trustme.CA()
        ca_pem = os.path.join(d, "ca.pem")
        ca.cert_pem.write_to_path(ca_pem)

        def ctx(cert):
            c = ssl.SSLContext(ssl.PROTOCOL_TLS_SERVER)
            cert.configure_cert(c)
            return c
        _PKI.update(ca_pem=ca_pem,
                    proxy_good=lambda: ctx(ca.issue_cert("localhost")),
                    proxy_bad=lambda: ctx(other.issue_cert("localhost")),
                    origin_good=lambda: ctx(ca.issue_cert("o.example", "b.example", "::1", "10.0.0.5")),
                    origin_bad=lambda: ctx(ca.issue_cert("wrong.example")))
        for k in ("proxy_good", "proxy_bad", "origin_good", "origin_bad"):
            _PKI[k] = _PKI[k]()
    return _PKI


class _NoLock:
    def __enter__(self):
        return self

    def __exit__(self, *a):
        return False


_NOLOCK = _NoLock()


class _Plain:
    def __init__(self, sock):
        self.sock = sock

    def recv(self, n):
        try:
            return self.sock.recv(n)
        except OSError:
            return b""

    def sendall(self, d):
        self.sock.sendall(d)

    def close(self):
        try:
            self.sock.close()
        except OSError:
            pass


class _Bio:
    """server side of a TLS session over any stream object (plain socket or another _Bio): what
    makes TLS-in-TLS possible on the proxy's side"""

    def __init__(self, lower, ctx):
        self.lower = lower
        self.inc, self.out = ssl.MemoryBIO(), ssl.MemoryBIO()
        self.obj = ctx.wrap_bio(self.inc, self.out, server_side=True)

    def _flush(self):
        d = self.out.read()
        if d:
            self.lower.sendall(d)

    def _call(self, fn, *a):
        while True:
            try:
                r = fn(*a)
            except ssl.SSLWantReadError:
                self._flush()
                d = self.lower.recv(65536)
                if not d:
                    self.inc.write_eof()
                else:
                    self.inc.write(d)
                continue
            except ssl.SSLError:
                self._flush()
                raise
            self._flush()
            return r

    def do_handshake(self):
        self._call(self.obj.do_handshake)

    def recv(self, n):
        try:
            return self._call(self.obj.read, n)
        except (ssl.SSLError, OSError):
            return b""

    def sendall(self, d):
        self._call(self.obj.write, d)

    def close(self):
        try:
            self.obj.unwrap()
        except (ssl.SSLError, OSError):
            pass
        try:
            self._flush()
        except OSError:
            pass
        self.lower.close()


class RealProxy:
    """threaded loopback proxy (plain or TLS) that also plays every origin inside CONNECT"""

    def __init__(self, https, script, reqs, cur, log, socks):
        self.https, self.script, self.reqs, self.cur, self.log, self.socks = https, script, reqs, cur, log, socks
        self.lock = threading.Lock()
        self.tl = threading.local()
        self.closed_evt = threading.Event()
        self.lsock = socket.socket(socket.AF_INET, socket.SOCK_STREAM)
        self.lsock.bind(("127.0.0.1", 0))
        self.lsock.listen(16)
        self.port = self.lsock.getsockname()[1]
        self.nacc = 0
        self.threads = []
        self.stop = False
        k = pki()
        self.ctxs = {}
        for name in ("proxy_good", "proxy_bad", "origin_good", "origin_bad"):
            c = k[name]
            c.sni_callback = self.sni_cb("proxy" if name.startswith("proxy") else "origin")
            self.ctxs[name] = c
        t = threading.Thread(target=self.accept_loop, daemon=True)
        t.start()
        self.threads.append(t)

    def sc(self, sid):
        return self.script[sid] if sid < len(self.script) else [True, 200, True]

    def fact(self, sid):
        return self.socks.setdefault(sid, {"connect": None, "connect_status": None, "proxy_tls": None,
                                           "origin_tls": None, "closed": False, "requests": 0})

    def emit(self, ev):
        with self.lock:
            self.log.append(ev)

    def accept_loop(self):
        while not self.stop:
            try:
                conn, _ = self.lsock.accept()
            except OSError:
                return
            sid = self.nacc
            self.nacc += 1
            conn.settimeout(10)
            self.fact(sid)
            self.emit(("tcp", sid, "localhost", self.port))
            t = threading.Thread(target=self.handle, args=(conn, sid), daemon=True)
            t.start()
            self.threads.append(t)

    def sni_cb(self, layer):
        def cb(sslobj, name, ctx):
            sid = self.tl.sid
            f = self.fact(sid)
            rec = {"sni": name, "ok": False, "real": True}
            if layer == "proxy":
                f["proxy_tls"] = rec
                self.emit(("tlsp", sid, name))
            else:
                f["origin_tls"] = rec
                self.emit(("tlso", sid, name, self.https))
        return cb

    def handle(self, conn, sid):
        self.tl.sid = sid
        sc = self.sc(sid)
        f = self.fact(sid)
        stream = _Plain(conn)
        try:
            if self.https:
                ctx = self.ctxs["proxy_good" if sc[0] else "proxy_bad"]
                stream = _Bio(stream, ctx)
                try:
                    stream.do_handshake()
                except (ssl.SSLError, OSError):
                    return
                if f["proxy_tls"] is None:           # no SNI extension (never for a DNS-named proxy)
                    f["proxy_tls"] = {"sni": None, "ok": False, "real": True}
                    self.emit(("tlsp", sid, None))
                f["proxy_tls"]["ok"] = True
            in_tunnel = False
            buf = b""
            from ..net import parse_request, http_response
            while True:
                req, buf = parse_request(buf)
                if req is None:
                    d = stream.recv(65536)
                    if not d:
                        return
                    buf += d
                    continue
                if req.method == "CONNECT" and not in_tunnel:
                    st = sc[1]
                    f["connect"], f["connect_status"] = req.target, st
                    self.emit(("connect", sid, req.target, list(req.headers)))
                    if st == "g":
                        stream.sendall(b"\x16\x03garbage\r\n\r\n")
                        continue
                    if st != 200:
                        stream.sendall(http_response(st, [], b"", reason="Refused"))
                        continue
                    stream.sendall(b"HTTP/1.1 200 Connection established\r\n\r\n")
                    ctx = self.ctxs["origin_good" if sc[2] else "origin_bad"]
                    inner = _Bio(stream, ctx)
                    before = f["origin_tls"]
                    try:
                        inner.do_handshake()
                    except (ssl.SSLError, OSError):
                        if f["origin_tls"] is before:
                            f["origin_tls"] = {"sni": None, "ok": False, "real": True}
                            self.emit(("tlso", sid, None, self.https))
                        return
                    if f["origin_tls"] is before:    # no SNI extension: IP-literal destination
                        f["origin_tls"] = {"sni": None, "ok": False, "real": True}
                        self.emit(("tlso", sid, None, self.https))
                    f["origin_tls"]["ok"] = True
                    stream = inner
                    in_tunnel = True
                    continue
                f["requests"] += 1
                self.emit(("req", sid, in_tunnel, req.method, req.target, list(req.headers)))
                close = self.reqs[self.cur["i"]]["close"]
                stream.sendall(http_response(200, [("Content-Type", "text/plain")], b"ok"))
                if close:
                    f["closed"] = True
                    self.emit(("close", sid))
                    stream.close()
                    self.closed_evt.set()
                    return
        except (OSError, ssl.SSLError):
            return
        finally:
            try:
                conn.close()
            except OSError:
                pass

    def shutdown(self):
        self.stop = True
        try:
            self.lsock.close()
        except OSError:
            pass
        for t in self.threads:
            t.join(timeout=2)


class C09(Prop):
    id = "C09"
    model = "proxy"
    rule = ("ProxyManager over the in-memory network with a recording proxy that also plays the origins inside "
            "CONNECT: proxy scheme http/https x destination scheme http/https x use_forwarding_for_https x proxy cert "
            "ok/bad x origin cert ok/bad x CONNECT status 200/403/407/502/garbage (scripted per socket opened) x "
            "proxy_headers (incl. Proxy-Authorization) x request / manager headers x destination host forms (DNS, mixed "
            "case, trailing dot, IPv4, IPv6 literals) x default/explicit ports x GET/POST x retries False/0/1/2, in "
            "histories of 1-3 requests (thorough: up to 6) with the server closing the connection in between; "
            "quick: full single-request table + random histories. Per request the event list [tcp, tls(proxy), CONNECT "
            "line+headers, tls(origin, SNI, tls_in_tls), request(form, headers), server close] and the outcome class "
            "are compared with U3.Proxy; connection_requires_http_tunnel is compared on its whole input table. "
            "The same histories also run against a threaded loopback proxy with real TLS and TLS-in-TLS (trustme CA, "
            "good / foreign-CA proxy certificate, good / wrong-name origin certificate, SNI recorded per layer): a slice "
            "in the quick tier, the full single-request table and random histories in the thorough tier. "
            "non-trivial = a history with a tunnelled request or more than one request")
    assumptions = [
        "in-memory cases: TLS is the harness's fake layer (a handshake succeeds iff the scripted verdict is ok; what is "
        "checked is which name / context urllib3 hands to ssl_wrap_socket); real-TLS cases: OpenSSL's verdict on a "
        "certificate that names exactly the destinations (resp. a foreign name / CA) is taken as the verification",
        "for an IP-literal destination no SNI exists on the wire; the name inside the tunnel is then observed through "
        "the verdict only (certificate with that IP as subjectAltName)",
        "http.client of CPython 3.12.1 (set_tunnel/_tunnel/putrequest) is modelled, not verified",
        "URLs carry no userinfo, fragment or characters needing percent-encoding (those belong to C14/C15)",
        "the Host header of a request is compared with the model but is not part of C09's oracle (C15)",
        "reading of 'the proxy refuses CONNECT': a well-formed status line with a code other than 200; for an unparsable "
        "(garbage) status line the oracle demands that no request is sent and that a urllib3 exception is raised "
        "(the code raises ProtocolError there, not ProxyError)",
    ]
    trusted = ["harness/net.py (in-memory sockets, fake TLS, request parser of the recording proxy)",
               "the threaded loopback proxy in harness/props/c09.py (ssl.MemoryBIO server side), trustme, OpenSSL",
               "CPython 3.12.1 http.client tunnel code as modelled in U3.Proxy"]
    time_budget = {"quick": 110, "thorough": 1100}

    # ------------------------------------------------------------ generation
    def mk_cfg(self, ps, fwd, ph=0, mh=0, phost="proxy.example", pport=3128):
        return {"ps": ps, "phost": phost, "pport": pport, "fwd": fwd,
                "ph": PROXY_HEADER_SETS[ph], "mh": MGR_HEADER_SETS[mh]}

    def mk_req(self, s, h="o.example", p=None, path="/x", hdrs=2, m="GET", body=None, retries=False, close=False):
        return {"m": m, "s": s, "h": h, "p": p, "path": path, "hdrs": REQ_HEADER_SETS[hdrs], "body": body,
                "retries": retries, "close": close}

    def cases(self, rng, tier, escalate=False):
        deep = tier == "thorough" or escalate
        yield {"kind": "table"}
        # the full single-request table
        for ps in ("http", "https"):
            for fwd in (False, True):
                for s in ("http", "https"):
                    for h in HOSTS:
                        for p in (None, 443 if s == "https" else 80, 8443):
                            for st in STATUSES:
                                for pc in (True, False):
                                    for oc in (True, False):
                                        if not deep and (not pc and not oc):
                                            continue
                                        yield {"kind": "single", "cfg": self.mk_cfg(ps, fwd),
                                               "script": [[pc, st, oc]],
                                               "reqs": [self.mk_req(s, h, p)]}
        # two-request histories on one destination: close / keep, every status on the re-tunnel
        for ps in ("http", "https"):
            for fwd in (False, True):
                for s in ("http", "https"):
                    for close in (False, True):
                        for st in STATUSES:
                            for retries in (False, 1):
                                yield {"kind": "pair", "cfg": self.mk_cfg(ps, fwd, ph=2),
                                       "script": [[True, 200, True], [True, st, True], [True, 200, True]],
                                       "reqs": [self.mk_req(s, close=close), self.mk_req(s, path="/y", retries=retries)]}
        # real TLS / TLS-in-TLS against the loopback recording proxy
        verdicts = [(True, 200, True), (False, 200, True), (True, 407, True), (True, 200, False), (True, "g", True)]
        for ps in ("http", "https"):
            for fwd in (False, True):
                for s in ("http", "https"):
                    for h in (REAL_HOSTS if deep else ["o.example", "[::1]"]):
                        for p in ((None, 8443) if deep else (None,)):
                            for pc, st, oc in ([(a, b, c) for a in (True, False) for b in STATUSES for c in (True, False)]
                                               if deep else verdicts):
                                yield {"kind": "real", "cfg": self.mk_cfg(ps, fwd, phost="localhost", pport=None),
                                       "script": [[pc, st, oc]], "reqs": [self.mk_req(s, h, p)]}
        for _ in range(3000 if deep else 40):
            yield self.rand_case(rng, deep, real=True)
        nrand = 40000 if deep else 5000
        for _ in range(nrand):
            yield self.rand_case(rng, deep)

    def rand_case(self, rng, deep, real=False):
        cfg = {"ps": rng.choice(["http", "https"]), "phost": rng.choice(PROXY_HOSTS),
               "pport": rng.choice([3128, None, 8080, 443, 80]), "fwd": rng.random() < 0.4,
               "ph": rng.choice(PROXY_HEADER_SETS), "mh": rng.choice(MGR_HEADER_SETS)}
        if real:
            cfg["phost"], cfg["pport"] = "localhost", None
        nreq = rng.randint(1, 6 if deep else 3)
        hosts = rng.sample(REAL_HOSTS if real else HOSTS, rng.choice([1, 1, 2, 3]))
        reqs = []
        for _ in range(nreq):
            s = rng.choice(["http", "https", "https"])
            m = rng.choice(["GET", "GET", "POST"])
            reqs.append({"m": m, "s": s, "h": rng.choice(hosts),
                         "p": rng.choice([None, None, 443 if s == "https" else 80, 8443, 8080]),
                         "path": rng.choice(PATHS), "hdrs": rng.choice(REQ_HEADER_SETS),
                         "body": (rng.choice([0, 4, 11]) if m == "POST" or rng.random() < 0.05 else None),
                         "retries": rng.choice([False, False, 0, 1, 2, 3]),
                         "close": rng.random() < 0.45})
        script = []
        for _ in range(rng.randint(0, 4 + 2 * nreq)):
            if rng.random() < 0.5:
                script.append([True, 200, True])
            else:
                script.append([rng.random() < 0.75, rng.choice(STATUSES + [200, 200]), rng.random() < 0.8])
        return {"kind": "real" if real else "rand", "cfg": cfg, "script": script, "reqs": reqs}

    def shrink_candidates(self, case):
        if case.get("kind") == "table":
            return
        reqs, script = case["reqs"], case["script"]
        for i in range(len(reqs)):
            if len(reqs) > 1:
                yield dict(case, reqs=reqs[:i] + reqs[i + 1:])
        for i in range(len(script)):
            if script[i] != [True, 200, True]:
                yield dict(case, script=script[:i] + [[True, 200, True]] + script[i + 1:])
        if script and script[-1] == [True, 200, True]:
            yield dict(case, script=script[:-1])
        for i, r in enumerate(reqs):
            for k, v in (("hdrs", []), ("close", False), ("retries", False), ("body", None), ("p", None), ("path", "/x")):
                if r[k] != v and not (k == "body" and r["m"] == "POST"):
                    yield dict(case, reqs=reqs[:i] + [dict(r, **{k: v})] + reqs[i + 1:])
        cfg = case["cfg"]
        for k, v in (("ph", [["Proxy-Authorization", "Basic abc"]]), ("mh", None), ("pport", 3128)):
            if cfg[k] != v and not (k == "pport" and case.get("kind") == "real"):
                yield dict(case, cfg=dict(cfg, **{k: v}))

    _ncases = 0

    def _maybe_gc(self):
        C09._ncases += 1
        if C09._ncases % 200 == 0:
            gc.collect()

    # ------------------------------------------------------------ the routing truth table
    def run_table(self, case, res):
        from urllib3.util.proxy import connection_requires_http_tunnel
        from urllib3.util.url import parse_url
        from urllib3.connection import ProxyConfig
        lines, out = [], []
        for p in (None, "http", "https"):
            for c in (None, False, True):
                for d in (None, "http", "https"):
                    purl = None if p is None else parse_url(f"{p}://proxy.example:3128")
                    pcfg = None if c is None else ProxyConfig(None, c, None, None)
                    got = bool(connection_requires_http_tunnel(purl, pcfg, d))
                    lines.append(f"tunnel {p or '~'} {int(bool(c))} {d or '~'}")
                    out.append("1" if got else "0")
                    res.bump("table")
                    # text: an HTTPS destination is tunnelled unless forwarding was opted into (HTTPS proxy);
                    # HTTP destinations are forwarded; without a proxy there is nothing to tunnel through
                    if d is not None and p is not None:
                        want = d == "https" and not (p == "https" and bool(c))
                        if got != want:
                            res.failures.append(Failure(
                                signature="routing:truth-table",
                                what=f"connection_requires_http_tunnel(proxy={p}, use_forwarding_for_https={c}, "
                                     f"destination={d}) = {got}, the documented routing says {want}", case=case))
                    if p is None and got:
                        res.failures.append(Failure(signature="routing:truth-table",
                                                    what="tunnel required without a proxy", case=case))
        return lines, out

    # ------------------------------------------------------------ execution
    def execute(self, case, res):
        if case.get("kind") == "table":
            return self.run_table(case, res)
        if case.get("kind") == "real":
            return self.execute_real(case, res)
        from ..net import Net, Server, http_response

        cfg, script, reqs = case["cfg"], case["script"], case["reqs"]
        pport = eff_proxy_port(cfg)
        net = Net()
        log = []                      # events of the current request, in order
        socks = {}                    # sid -> facts about that socket
        cur = {"i": -1}

        def fact(sid):
            return socks.setdefault(sid, {"connect": None, "connect_status": None, "proxy_tls": None,
                                          "origin_tls": None, "closed": False, "requests": 0, "req_index": cur["i"]})

        def sc(sid):
            return script[sid] if sid < len(script) else [True, 200, True]

        def on_connect(sock, host, port):
            fact(sock.sid)
            log.append(("tcp", sock.sid, host, port))

        def tls_hook(sock, info):
            f = fact(sock.sid)
            inner = sock.peer.tunnel_to is not None
            rec = {"sni": info["sni"], "tls_in_tls": bool(info["tls_in_tls"]),
                   "verify_mode": info["verify_mode"], "check_hostname": info["check_hostname"], "ok": True,
                   "pos": len(log)}
            if inner:
                log.append(("tlso", sock.sid, info["sni"], bool(info["tls_in_tls"])))
                f["origin_tls"] = rec
                if not sc(sock.sid)[2]:
                    rec["ok"] = False
                    raise ssl.SSLCertVerificationError(1, "certificate verify failed (scripted origin)")
            else:
                log.append(("tlsp", sock.sid, info["sni"]))
                f["proxy_tls"] = rec
                if not sc(sock.sid)[0]:
                    rec["ok"] = False
                    raise ssl.SSLCertVerificationError(1, "certificate verify failed (scripted proxy)")
            return {"cert": {"subjectAltName": (("DNS", info["sni"] or "x"),)}}

        def answer(peer, req_close):
            peer.reply(http_response(200, [("Content-Type", "text/plain")], b"ok"))
            if req_close:
                peer.close()
                socks[peer.sid]["closed"] = True
                log.append(("close", peer.sid))

        def proxy_handler(peer, req):
            f = fact(peer.sid)
            if req.method == "CONNECT":
                st = sc(peer.sid)[1]
                f["connect"] = req.target
                f["connect_status"] = st
                log.append(("connect", peer.sid, req.target, list(req.headers)))
                if st == "g":
                    peer.reply(b"\x16\x03garbage\r\n\r\n")
                elif st != 200:
                    peer.reply(http_response(st, [], b"", reason="Refused"))
                else:
                    peer.reply(b"HTTP/1.1 200 Connection established\r\n\r\n")
                    h, _, p = req.target.rpartition(":")
                    try:
                        peer.tunnel_to = (h.strip("[]").lower(), int(p))
                    except ValueError:
                        peer.tunnel_to = (req.target, 0)
                return
            f["requests"] += 1
            log.append(("req", peer.sid, False, req.method, req.target, list(req.headers)))
            answer(peer, reqs[cur["i"]]["close"])

        def origin_handler(peer, req):
            f = fact(peer.sid)
            f["requests"] += 1
            log.append(("req", peer.sid, peer.tunnel_to is not None, req.method, req.target, list(req.headers)))
            answer(peer, reqs[cur["i"]]["close"])

        net.servers[(cfg["phost"].lower(), pport)] = Server(proxy_handler)
        net.default_server = Server(origin_handler)       # a direct connection would succeed and be recorded
        net.connect_hook = on_connect
        net.tls_hook = tls_hook

        with warnings.catch_warnings():
            warnings.simplefilter("ignore")
            with net.installed(fake_tls=True):
                lines, out = self.run_requests(case, res, cfg, pport, log, socks, cur, "/nonexistent/ca.pem", None)
        self._maybe_gc()
        return lines, out

    def execute_real(self, case, res):
        """the same history against the threaded loopback proxy with real TLS / TLS-in-TLS"""
        cfg, script, reqs = dict(case["cfg"]), case["script"], case["reqs"]
        log, socks, cur = [], {}, {"i": -1}
        k = pki()
        px = RealProxy(cfg["ps"] == "https", script, reqs, cur, log, socks)
        cfg["phost"], cfg["pport"] = "localhost", px.port
        case_view = dict(case, cfg=cfg)
        try:
            with warnings.catch_warnings():
                warnings.simplefilter("ignore")
                lines, out = self.run_requests(case_view, res, cfg, px.port, log, socks, cur, k["ca_pem"], px)
        finally:
            px.shutdown()
        self._maybe_gc()
        res.bump("real-tls cases")
        return lines, out

    def run_requests(self, case, res, cfg, pport, log, socks, cur, ca_certs, px):
        from urllib3 import ProxyManager
        from urllib3.connection import _get_default_user_agent
        from urllib3.exceptions import MaxRetryError, HTTPError
        script, reqs = case["script"], case["reqs"]
        ua = _get_default_user_agent()
        lines = [f"cfg {cfg['ps']} {enc(cfg['phost'])} {pport} {int(cfg['fwd'])} {enc_pairs(cfg['ph'])} "
                 f"{enc_pairs(cfg['mh'] or [])} {enc(ua)}",
                 "script " + (",".join(f"{int(a)}:{b}:{int(c)}" for a, b, c in script) if script else "-")]
        out = ["ok", "ok"]
        res.bump(f"cfg:{cfg['ps']}-proxy fwd={int(cfg['fwd'])}")
        proxy_url = f"{cfg['ps']}://{cfg['phost']}" + (f":{cfg['pport']}" if cfg["pport"] is not None else "")
        kw = {}
        if cfg["mh"] is not None:
            kw["headers"] = dict(map(tuple, cfg["mh"]))
        pm = ProxyManager(proxy_url, proxy_headers=dict(map(tuple, cfg["ph"])),
                          use_forwarding_for_https=cfg["fwd"], ca_certs=ca_certs, **kw)
        try:
            for i, r in enumerate(reqs):
                cur["i"] = i
                del log[:]
                if px is not None:
                    px.closed_evt.clear()
                url = f"{r['s']}://{r['h']}" + (f":{r['p']}" if r["p"] is not None else "") + r["path"]
                ukw = {"retries": r["retries"]}
                if r["hdrs"] is not None:
                    ukw["headers"] = dict(map(tuple, r["hdrs"]))
                if r["body"] is not None:
                    ukw["body"] = b"d" * r["body"]
                if px is not None:
                    ukw["timeout"] = 10
                exc = None
                try:
                    resp = pm.urlopen(r["m"], url, **ukw)
                    outcome = "response" if resp.status == 200 and resp.data == b"ok" else f"response:{resp.status}"
                except MaxRetryError as e:
                    exc = e
                    outcome = "max:" + cls_name(e.reason)
                except HTTPError as e:
                    exc = e
                    outcome = "raise:" + cls_name(e)
                except Exception as e:       # a non-urllib3 exception: reported, never hidden
                    exc = e
                    outcome = "raise:!" + type(e).__name__
                if px is not None and r["close"] and outcome == "response":
                    px.closed_evt.wait(5)       # the FIN is on the client's socket once close() returned
                with (px.lock if px is not None else _NOLOCK):
                    evs = list(log)
                if px is not None:
                    # OpenSSL sends no SNI for an IP literal: the name is then only visible through the
                    # verdict (the origin's certificate carries exactly the destination's IP)
                    ip = exp_name(r) if (exp_host(r).startswith("[") or exp_host(r)[0].isdigit()) else None
                    evs = [(e[0], e[1], ip, e[3]) if e[0] == "tlso" and e[2] is None and ip else e for e in evs]
                lines.append(
                    f"req {r['m']} {r['s']} {enc(r['h'])} {'~' if r['p'] is None else r['p']} {enc(r['path'])} "
                    f"{'~' if r['hdrs'] is None else enc_pairs(r['hdrs'])} {'~' if r['body'] is None else r['body']} "
                    f"{'F' if r['retries'] is False else r['retries']} {int(r['close'])}")
                out.append(" ".join(self.show(ev) for ev in evs) + " => " + outcome)
                self.oracle(case, i, r, evs, socks, outcome, exc, res)
                res.bump("outcome:" + outcome)
                res.bump(f"dest:{r['s']} tunnel={int(tunnel_expected(cfg, r))}")
        finally:
            pm.clear()
        return lines, out

    @staticmethod
    def show(ev):
        k = ev[0]
        if k == "tcp":
            return f"tcp:{ev[1]}:{enc(ev[2])}:{ev[3]}"
        if k == "tlsp":
            return f"tlsp:{ev[1]}:{enc(ev[2])}"
        if k == "connect":
            return f"connect:{ev[1]}:{enc(ev[2])}:{enc_pairs(ev[3])}"
        if k == "tlso":
            return f"tlso:{ev[1]}:{enc(ev[2])}:{int(ev[3])}"
        if k == "req":
            return f"req:{ev[1]}:{int(ev[2])}:{enc(ev[3])}:{enc(ev[4])}:{enc_pairs(ev[5])}"
        return f"close:{ev[1]}"

    # ------------------------------------------------------------ the oracle (property text only)
    def oracle(self, case, i, r, log, socks, outcome, exc, res):
        cfg = case["cfg"]
        pport = eff_proxy_port(cfg)
        want_tunnel = tunnel_expected(cfg, r)
        target = exp_connect_target(r)

        def fail(sig, what):
            res.failures.append(Failure(signature=sig, what=f"request #{i} {r['m']} {r['s']}://{r['h']}"
                                        f"{'' if r['p'] is None else ':%d' % r['p']}{r['path']} via {cfg['ps']} proxy"
                                        f"{' (forwarding opted in)' if cfg['fwd'] else ''}: {what}",
                                        case=case, detail={"events": [self.show(e) for e in log], "outcome": outcome}))

        script = case["script"]

        def script_at(sid):
            return script[sid] if sid < len(script) else [True, 200, True]

        user_names = {k.lower() for k, _ in (r["hdrs"] if r["hdrs"] is not None else (cfg["mh"] or []))}
        proxy_names = {k.lower() for k, _ in cfg["ph"]} - user_names
        opened = []
        for pos, ev in enumerate(log):
            k, sid = ev[0], ev[1]
            f = socks.get(sid, {})
            if k == "tcp":
                opened.append(sid)
                # never leaks outside the route: every TCP connection goes to the proxy
                if (ev[2].lower(), ev[3]) != (cfg["phost"].lower(), pport):
                    fail("leak:direct-connection", f"TCP connection to {ev[2]}:{ev[3]} instead of the proxy")
            elif k == "connect":
                if not want_tunnel:
                    fail("routing:unexpected-connect", f"CONNECT {ev[2]} although the request is to be forwarded")
                # a CONNECT tunnel to exactly the URL's host:port (IPv6 bracketed)
                if ev[2].lower() != target:
                    fail("connect-target", f"CONNECT names {ev[2]!r}, the URL's host:port is {target!r}")
            elif k == "tlso":
                # inside the tunnel TLS is verified against the destination's name
                rec = f.get("origin_tls") or {}
                if (ev[2] or "").rstrip(".") != exp_name(r):
                    fail("inner-tls-name", f"TLS inside the tunnel uses the name {ev[2]!r}, destination is {exp_name(r)!r}")
                elif rec.get("real"):
                    # real TLS: verification against the destination's name shows in OpenSSL's verdict — the
                    # good certificate names exactly the destinations, the bad one a foreign name
                    if rec.get("ok") != bool(script_at(sid)[2]):
                        fail("inner-tls-verdict", f"handshake inside the tunnel {'succeeded' if rec.get('ok') else 'failed'} "
                             f"although the origin's certificate is {'valid for' if script_at(sid)[2] else 'not valid for'} "
                             f"{exp_name(r)!r}")
                elif rec.get("verify_mode") != ssl.CERT_REQUIRED or not (rec.get("check_hostname") is True):
                    fail("inner-tls-unverified", f"TLS inside the tunnel is not verified against the name "
                         f"(verify_mode={rec.get('verify_mode')}, check_hostname={rec.get('check_hostname')})")
            elif k == "tlsp":
                rec = f.get("proxy_tls") or {}
                if rec.get("real") and rec.get("ok") != bool(script_at(sid)[0]):
                    fail("proxy-tls-verdict", f"handshake with the proxy {'succeeded' if rec.get('ok') else 'failed'} although "
                         f"its certificate is {'trusted' if script_at(sid)[0] else 'from a foreign CA'}")
            elif k == "req":
                in_tunnel, tgt, hdrs = ev[2], ev[4], ev[5]
                names = {n.lower() for n, _ in hdrs}
                if f.get("closed_before_request"):
                    fail("retunnel:closed-socket-reused", f"request on socket {sid} after the server closed it")
                if want_tunnel:
                    if not in_tunnel:
                        fail("routing:https-not-tunnelled", f"request {ev[3]} {tgt} was sent outside a CONNECT tunnel")
                    else:
                        if (f.get("connect") or "").lower() != target or f.get("connect_status") != 200:
                            fail("connect-target", f"request carried by a tunnel to {f.get('connect')!r} "
                                 f"(status {f.get('connect_status')}), the URL's host:port is {target!r}")
                        rec = f.get("origin_tls")
                        if not rec or not rec.get("ok"):
                            fail("inner-tls-missing", "request inside the tunnel without a verified TLS handshake with the origin")
                        # the request uses origin-form
                        if tgt != r["path"] or not tgt.startswith("/"):
                            fail("form:not-origin-form", f"request target inside the tunnel is {tgt!r}, origin-form is {r['path']!r}")
                        # proxy headers never inside a tunnel
                        leaked = sorted(names & proxy_names)
                        if leaked:
                            fail("leak:proxy-header-in-tunnel", f"proxy headers {leaked} sent to the origin inside the tunnel")
                else:
                    if in_tunnel:
                        fail("routing:forward-expected", f"request {tgt} sent inside a tunnel although it is to be forwarded")
                    # absolute-form to the proxy
                    elif tgt.lower() != exp_abs(r).lower():
                        fail("form:not-absolute-form", f"request target sent to the proxy is {tgt!r}, absolute-form is {exp_abs(r)!r}")
                # refused CONNECT / failed proxy verification: the request is never sent
                if f.get("connect_status") not in (None, 200):
                    fail("refused:request-sent", f"request sent on socket {sid} whose CONNECT was answered {f.get('connect_status')}")
                if f.get("proxy_tls") and not f["proxy_tls"]["ok"]:
                    fail("refused:request-sent", f"request sent on socket {sid} although the proxy failed verification")
                if f.get("origin_tls") and not f["origin_tls"]["ok"]:
                    fail("inner-tls:request-after-failed-verification",
                         f"request sent on socket {sid} although the origin failed verification")
            elif k == "close":
                f["closed_before_request"] = True

        # outcome: decided by the fate of the last socket opened for this request
        is_exc = not outcome.startswith("response")
        if outcome.startswith("raise:!"):
            fail("error-class:not-urllib3", f"non-urllib3 exception {outcome[7:]} ({exc!r})")
        if opened:
            f = socks.get(opened[-1], {})
            fate = None
            if f.get("proxy_tls") and not f["proxy_tls"]["ok"]:
                fate = "proxy-verification"
            elif f.get("connect_status") == "g":
                fate = "garbage"
            elif f.get("connect_status") not in (None, 200):
                fate = "refused"
            elif f.get("origin_tls") and not f["origin_tls"]["ok"]:
                fate = "origin-verification"
            if fate:
                res.bump("fate:" + fate)
            if fate in ("proxy-verification", "refused"):
                # ProxyError/SSLError is raised (possibly as the reason of MaxRetryError)
                okc = any(outcome.startswith(p + c) for p in ("raise:", "max:") for c in ("ProxyError", "SSLError"))
                if not okc:
                    fail("refused:wrong-outcome", f"proxy {fate} on the last attempt but the outcome is {outcome}")
            elif fate == "garbage":
                if not is_exc or outcome.startswith("raise:!"):
                    fail("refused:garbage-accepted", f"unparsable CONNECT reply but the outcome is {outcome}")
            elif fate == "origin-verification":
                if not any(outcome.startswith(p + "SSLError") for p in ("raise:", "max:")):
                    fail("inner-tls:wrong-outcome", f"origin failed verification but the outcome is {outcome}")
            elif is_exc:
                fail("outcome:unexplained-error", f"nothing was refused on the last attempt but the outcome is {outcome}")
        elif is_exc:
            fail("outcome:unexplained-error", f"no connection was opened and the outcome is {outcome}")
        if not is_exc:
            nreq = sum(1 for ev in log if ev[0] == "req")
            if nreq != 1:
                fail("outcome:response-without-single-request", f"a response was returned but {nreq} requests were seen")
        elif any(ev[0] == "req" for ev in log):
            fail("refused:request-sent", f"the outcome is {outcome} but a request was sent")

    def nontrivial(self, case, impl_out):
        if case.get("kind") == "table":
            return True
        return len(case["reqs"]) > 1 or any("connect:" in o for o in impl_out)


PROP = C09()
