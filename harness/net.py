"""In-memory network for the correspondence / oracle runs (DESIGN.md §4.1).

Client sockets are real `socket.socket` subclasses living on one end of a `socketpair()`, so that
`poll()`/`select()` (urllib3.util.wait), `fileno()`, `makefile()` reference counting, EOF and
"readable at checkout" are the kernel's / CPython's own.  The peer end is driven synchronously by a
scripted server (no threads: fully deterministic).  Faults are injected in `connect`, `sendall`,
`recv_into`.  Nothing ever blocks: a read with nothing to deliver raises `TimeoutError` at once.

Installed by replacing, *inside the harness process only*, the `socket` module reference seen by
`urllib3.util.connection` with a shim (so urllib3's own `create_connection` still runs) and,
for fake TLS, `urllib3.connection.ssl_wrap_socket`.
"""
from __future__ import annotations

import contextlib
import errno
import socket as _socket
import ssl as _ssl
import types


class WouldBlockForever(TimeoutError):
    """a blocking read with timeout=None and nothing to deliver (reported as a timeout)"""


class Request:
    __slots__ = ("method", "target", "version", "headers", "body", "raw", "chunked", "index")

    def __init__(self, method, target, version, headers, body, raw, chunked):
        self.method, self.target, self.version = method, target, version
        self.headers, self.body, self.raw, self.chunked = headers, body, raw, chunked
        self.index = -1

    def header(self, name, default=None):
        name = name.lower()
        for k, v in self.headers:
            if k.lower() == name:
                return v
        return default

    def header_all(self, name):
        name = name.lower()
        return [v for k, v in self.headers if k.lower() == name]


def parse_request(buf: bytes):
    """Try to cut one complete HTTP/1.1 request off the front of buf.
    Returns (Request, rest) or (None, buf) when incomplete."""
    i = buf.find(b"\r\n\r\n")
    if i < 0:
        return None, buf
    head = buf[:i].decode("latin-1")
    lines = head.split("\r\n")
    parts = lines[0].split(" ")
    method = parts[0]
    target = " ".join(parts[1:-1]) if len(parts) >= 3 else (parts[1] if len(parts) > 1 else "")
    version = parts[-1] if len(parts) >= 3 else ""
    headers = []
    for ln in lines[1:]:
        if ":" in ln:
            k, v = ln.split(":", 1)
            headers.append((k, v.strip(" \t")))
        else:
            headers.append((ln, ""))
    rest = buf[i + 4:]
    te = [v for k, v in headers if k.lower() == "transfer-encoding"]
    cl = [v for k, v in headers if k.lower() == "content-length"]
    if method == "CONNECT":
        return Request(method, target, version, headers, b"", buf[:i + 4], False), rest
    if te and "chunked" in te[-1].lower():
        body = b""
        pos = 0
        while True:
            j = rest.find(b"\r\n", pos)
            if j < 0:
                return None, buf
            size_tok = rest[pos:j].split(b";")[0].strip()
            try:
                size = int(size_tok, 16)
            except ValueError:
                size = 0
            if size == 0:
                k = rest.find(b"\r\n\r\n", j)
                if k < 0:
                    # "0\r\n\r\n": the CRLF ending the size line doubles as the start of the blank line
                    if rest[j:j + 4] == b"\r\n\r\n":
                        k = j
                    else:
                        return None, buf
                end = k + 4
                raw = buf[:i + 4 + end]
                return Request(method, target, version, headers, body, raw, True), rest[end:]
            if len(rest) < j + 2 + size + 2:
                return None, buf
            body += rest[j + 2:j + 2 + size]
            pos = j + 2 + size + 2
    n = 0
    if cl:
        try:
            n = int(cl[0])
        except ValueError:
            n = 0
    if len(rest) < n:
        return None, buf
    return Request(method, target, version, headers, rest[:n], buf[:i + 4 + n], False), rest[n:]


class Peer:
    """server side of one TCP connection"""

    def __init__(self, net, sid, addr, ssock):
        self.net, self.sid, self.addr = net, sid, addr
        self.ssock = ssock                 # our end of the socketpair (non-blocking)
        self.inbuf = b""                   # bytes from the client not yet parsed
        self.received = b""                # everything the client ever sent
        self.outq = bytearray()            # bytes not yet pushed into the kernel
        self.recv_fault = None             # exception for the client's next read once drained
        self.held = b""                    # tail of a reply the handler holds back (delayed delivery): the handler
                                           # of the next request on this connection sends it first
        self.server_closed = False
        self.client_closed = False
        self.requests = []
        self.tls = None                    # dict(sni=..., ...) once wrapped
        self.tunnel_to = None              # (host, port) after a successful CONNECT
        self.raw_mode = False              # handler gets raw bytes instead of parsed requests

    # -- used by handlers
    def reply(self, data: bytes):
        self.outq += data
        self.pump()

    def close(self):
        """FIN after everything queued has been delivered"""
        self.server_closed = True
        self.pump()

    def fault_on_read(self, exc):
        self.recv_fault = exc

    # -- plumbing
    def pump(self):
        while self.outq and self.ssock is not None:
            try:
                n = self.ssock.send(bytes(self.outq[:65536]))
            except (BlockingIOError, InterruptedError):
                return
            except OSError:
                self.outq.clear()
                return
            del self.outq[:n]
        if self.server_closed and not self.outq and self.ssock is not None:
            try:
                self.ssock.close()
            finally:
                self.ssock = None

    def feed(self, data: bytes):
        self.received += data
        self.inbuf += data
        server = self.net.server_for(self)
        if self.raw_mode:
            chunk, self.inbuf = self.inbuf, b""
            server.on_raw(self, chunk)
            return
        while True:
            req, rest = parse_request(self.inbuf)
            if req is None:
                return
            self.inbuf = rest
            req.index = len(self.net.requests)
            self.requests.append(req)
            self.net.requests.append((self, req))
            self.net.log("request", self.sid, req.method, req.target)
            server.on_request(self, req)
            if self.raw_mode:
                if self.inbuf:
                    chunk, self.inbuf = self.inbuf, b""
                    server.on_raw(self, chunk)
                return


class FakeSocket(_socket.socket):
    """client end; a genuine socket object (fd from socketpair) with scripted behaviour"""

    _net = None

    def __init__(self, family=-1, type=-1, proto=-1, fileno=None):
        net = FakeSocket._net
        a, b = _socket.socketpair()
        fd = a.detach()
        super().__init__(_socket.AF_UNIX, _socket.SOCK_STREAM, 0, fileno=fd)
        super().setblocking(False)
        b.setblocking(False)
        self.net = net
        self.sid = len(net.socks)
        net.socks.append(self)
        self.u_timeout = None
        self.peer = Peer(net, self.sid, None, b)
        self.connected = False
        self.really_closed = False
        self.opts = []
        self.segment = None             # max bytes per recv (network segmentation), None = unlimited
        self.tls = None
        self.bound = None

    # -- recorded configuration
    def settimeout(self, t):
        self.u_timeout = t
        self.net.log("settimeout", self.sid, t)

    def gettimeout(self):
        return self.u_timeout

    def setblocking(self, flag):
        self.settimeout(None if flag else 0.0)

    def setsockopt(self, *a):
        self.opts.append(a)

    def bind(self, addr):
        self.bound = addr

    def getpeername(self):
        return self.peer.addr

    # -- connect
    def connect(self, addr):
        host, port = addr[0], addr[1]
        self.peer.addr = (host, port)
        self.net.log("connect", self.sid, host, port)
        self.net.connects.append((self.sid, host, port))
        self.net.on_connect(self, host, port)      # may raise the scripted fault
        self.connected = True

    # -- data
    def sendall(self, data, *a):
        data = bytes(data)
        if self.really_closed:
            raise OSError(errno.EBADF, "Bad file descriptor")
        self.net.on_send(self, data)               # may raise the scripted fault
        self.net.log("send", self.sid, len(data))
        self.net.sent.setdefault(self.sid, bytearray()).extend(data)
        if self.peer.ssock is None and self.peer.server_closed:
            raise BrokenPipeError(errno.EPIPE, "Broken pipe")
        self.peer.feed(data)

    def send(self, data, *a):
        self.sendall(data)
        return len(data)

    def recv_into(self, buffer, nbytes=0, *a):
        if self.really_closed:
            raise OSError(errno.EBADF, "Bad file descriptor")
        self.net.on_recv(self)                      # may raise the scripted fault
        self.peer.pump()
        n = nbytes or len(buffer)
        if self.segment:
            n = min(n, self.segment)
        try:
            got = super().recv_into(buffer, n)
        except (BlockingIOError, InterruptedError):
            got = None
        if got is None:
            if self.peer.recv_fault is not None:
                exc, self.peer.recv_fault = self.peer.recv_fault, None
                self.net.log("recv-fault", self.sid, type(exc).__name__)
                raise exc
            self.net.log("recv-timeout", self.sid)
            if self.u_timeout is None:
                raise WouldBlockForever("timed out (would block forever)")
            raise TimeoutError("timed out")
        self.net.log("recv", self.sid, got)
        self.peer.pump()
        return got

    def recv(self, bufsize, *a):
        b = bytearray(bufsize)
        n = self.recv_into(b, bufsize)
        return bytes(b[:n])

    def shutdown(self, how):
        self.net.log("shutdown", self.sid)

    def _real_close(self, *a):
        if not self.really_closed:
            self.really_closed = True
            self.net.log("close", self.sid)
            self.peer.client_closed = True
            if self.peer.ssock is not None:
                try:
                    self.peer.ssock.close()
                finally:
                    self.peer.ssock = None
        super()._real_close()

    # -- fake TLS surface (after ssl_wrap_socket)
    def getpeercert(self, binary_form=False):
        cert = (self.tls or {}).get("cert")
        if binary_form:
            return (self.tls or {}).get("der", b"")
        return cert

    def version(self):
        return "TLSv1.3"

    def selected_alpn_protocol(self):
        return None


class Server:
    """default server: answers every request through `handler(peer, req)`"""

    def __init__(self, handler=None):
        self.handler = handler

    def on_request(self, peer, req):
        if self.handler:
            self.handler(peer, req)

    def on_raw(self, peer, data):
        pass


class Net:
    def __init__(self):
        self.socks = []
        self.servers = {}            # (host, port) -> Server ; host lower-cased
        self.default_server = None
        self.events = []
        self.connects = []
        self.requests = []           # (peer, Request) in arrival order
        self.sent = {}
        self.connect_hook = None     # (sock, host, port) -> may raise
        self.send_hook = None        # (sock, data) -> may raise
        self.recv_hook = None        # (sock) -> may raise
        self.tls_hook = None         # (sock, kwargs) -> may raise; returns dict for sock.tls
        self.resolve = None          # host -> list of addresses (default: echo)

    def log(self, *ev):
        self.events.append(ev)

    def server_for(self, peer):
        if peer.tunnel_to is not None:
            key = peer.tunnel_to
        else:
            key = peer.addr
        key = (key[0].lower(), key[1])
        return self.servers.get(key) or self.default_server or Server()

    def on_connect(self, sock, host, port):
        if self.connect_hook:
            self.connect_hook(sock, host, port)
        key = (host.lower(), port)
        if key not in self.servers and self.default_server is None:
            raise ConnectionRefusedError(errno.ECONNREFUSED, "Connection refused")

    def on_send(self, sock, data):
        if self.send_hook:
            self.send_hook(sock, data)

    def on_recv(self, sock):
        if self.recv_hook:
            self.recv_hook(sock)

    def open_sockets(self):
        return [s.sid for s in self.socks if not s.really_closed]

    # ------------------------------------------------------------------ installation
    @contextlib.contextmanager
    def installed(self, fake_tls=True):
        import urllib3.connection as ucn
        import urllib3.util.connection as uconn

        net = self
        real_socket_mod = _socket

        class Shim(types.ModuleType):
            def __getattr__(self, name):
                return getattr(real_socket_mod, name)

        shim = Shim("socket")

        def getaddrinfo(host, port, family=0, type=0, proto=0, flags=0):
            net.log("resolve", host, port)
            if net.resolve is not None:
                addrs = net.resolve(host)
            else:
                addrs = [host]
            return [(_socket.AF_INET, _socket.SOCK_STREAM, 6, "", (a, port)) for a in addrs]

        def mksock(af=-1, socktype=-1, proto=-1, fileno=None):
            FakeSocket._net = net
            return FakeSocket()

        shim.getaddrinfo = getaddrinfo
        shim.socket = mksock
        saved = (uconn.socket, ucn.ssl_wrap_socket)
        uconn.socket = shim

        def fake_ssl_wrap_socket(sock, keyfile=None, certfile=None, cert_reqs=None, ca_certs=None,
                                 server_hostname=None, ssl_version=None, ciphers=None, ssl_context=None,
                                 ca_cert_dir=None, key_password=None, ca_cert_data=None, tls_in_tls=False):
            info = {"sni": server_hostname, "tls_in_tls": tls_in_tls, "context": ssl_context,
                    "verify_mode": getattr(ssl_context, "verify_mode", None),
                    "check_hostname": getattr(ssl_context, "check_hostname", None)}
            net.log("tls", sock.sid, server_hostname, bool(tls_in_tls))
            extra = net.tls_hook(sock, info) if net.tls_hook else None      # may raise SSLError etc.
            if extra:
                info.update(extra)
            if sock.tls is not None:
                info["outer"] = sock.tls
            sock.tls = info
            sock.peer.tls = info
            return sock

        if fake_tls:
            ucn.ssl_wrap_socket = fake_ssl_wrap_socket
        try:
            yield self
        finally:
            uconn.socket, ucn.ssl_wrap_socket = saved
            for s in self.socks:
                try:
                    if not s.really_closed:
                        _socket.socket.close(s)
                    if s.peer.ssock is not None:
                        s.peer.ssock.close()
                        s.peer.ssock = None
                except Exception:
                    pass


def http_response(status=200, headers=(), body=b"", reason="OK", version="HTTP/1.1", auto_length=True):
    hs = list(headers)
    if auto_length and not any(k.lower() in ("content-length", "transfer-encoding") for k, _ in hs):
        hs.append(("Content-Length", str(len(body))))
    head = f"{version} {status} {reason}\r\n" + "".join(f"{k}: {v}\r\n" for k, v in hs) + "\r\n"
    return head.encode("latin-1") + body
