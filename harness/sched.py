"""Deterministic scheduler driving REAL threads (DESIGN.md §6 C02, §7a).

Exactly one managed thread runs at a time.  A managed thread hands control back to the controller
(the thread that called `Scheduler.run`) at *yield points*:

* every LINE event (PEP 669 `sys.monitoring`, CPython 3.12) inside the code objects registered
  with `watch_code` (for C02: `_get_conn`, `_put_conn`, `close`, `_close_pool_connections`,
  `release_conn`) — i.e. before every statement of the pool code that touches shared state;
* every entry into a method of the scheduler-aware queue `SchedLifoQueue` (`get`, `put`, `qsize`,
  `full`, `empty`) — the queue is a genuine `queue.LifoQueue` (all real operations are delegated to
  the base class, non-blocking), only *blocking* is handed to the scheduler: a thread whose
  `get(block=True)` finds the queue empty is parked and becomes runnable again only when the
  controller sees the queue non-empty (`timeout=None`), or at any time (a `timeout` is pending: when
  it is resumed and the queue is still empty the timeout has fired and `queue.Empty` is raised);
* explicit `yield_point(label)` calls of the harness (e.g. between sending a request and reading
  its response).

At every decision the controller computes the enabled threads and asks a *chooser* which one runs
next; the list of choices is the schedule, and replaying the same list reproduces the same run.
`explore_pb` enumerates all schedules with at most `bound` pre-emptions (a pre-emption = switching
away from a thread that could have continued), `RandomChooser` draws deep random schedules.

Deadlock = some thread unfinished and none enabled.  The run then ends: the parked threads are
resumed one at a time with `Abort` (a `BaseException`) raised at their parking place; while
unwinding nothing yields any more.
"""
from __future__ import annotations

import queue
import sys
import threading

_ACTIVE = None                    # the Scheduler currently running (at most one per process)
_TOOL = None
_WATCHED = set()                  # code objects with LINE events switched on
_STUCK_S = 20.0                   # a managed thread silent for this long = harness trouble


class Abort(BaseException):
    """raised inside a parked thread when the run is being torn down after a deadlock"""


class SchedError(RuntimeError):
    """infrastructure trouble (never a property verdict)"""


# ------------------------------------------------------------------------------ sys.monitoring

def _on_line(code, line):
    s = _ACTIVE
    if s is not None:
        s.yield_point(("L", code.co_name, line - code.co_firstlineno))
    return None


def watch_code(*codes):
    """switch LINE events on for these code objects (idempotent)"""
    global _TOOL
    mon = sys.monitoring
    if _TOOL is None:
        for tid in (3, 4, 5, 2, 1, 0):
            if mon.get_tool(tid) is None:
                mon.use_tool_id(tid, "u3sched")
                _TOOL = tid
                break
        else:
            raise SchedError("no free sys.monitoring tool id")
        mon.register_callback(_TOOL, mon.events.LINE, _on_line)
    for c in codes:
        if c not in _WATCHED:
            mon.set_local_events(_TOOL, c, mon.events.LINE)
            _WATCHED.add(c)


def unwatch_all():
    global _TOOL
    if _TOOL is None:
        return
    mon = sys.monitoring
    for c in list(_WATCHED):
        mon.set_local_events(_TOOL, c, 0)
    _WATCHED.clear()
    mon.register_callback(_TOOL, mon.events.LINE, None)
    mon.free_tool_id(_TOOL)
    _TOOL = None


# ------------------------------------------------------------------------------ the queue

class SchedLifoQueue(queue.LifoQueue):
    """`queue.LifoQueue` with identical semantics whose blocking is done by the scheduler.
    Outside a managed thread (pool construction, finalizers, the controller) it is the plain class."""

    def _sched(self):
        s = _ACTIVE
        if s is None or s.tearing_down:
            return None
        return s if s.current_worker() is not None else None

    def get(self, block=True, timeout=None):
        s = self._sched()
        if s is None:
            return super().get(block, timeout)
        s.yield_point(("Q", "get"))
        first = True
        while True:
            try:
                return super().get(block=False)
            except queue.Empty:
                if not block:
                    raise
                if timeout is not None:
                    if timeout < 0:
                        raise ValueError("'timeout' must be a non-negative number")
                    if not first:
                        raise              # resumed with the queue still empty: the timeout fired
                    first = False
                    s.yield_point(("Q", "wait-timeout"), waiting=self, timeout=True)
                else:
                    s.yield_point(("Q", "wait"), waiting=self, timeout=False)

    def put(self, item, block=True, timeout=None):
        s = self._sched()
        if s is None:
            return super().put(item, block, timeout)
        s.yield_point(("Q", "put"))
        if block:
            if self.maxsize > 0 and self._qsize() >= self.maxsize:
                raise SchedError("blocking put on a full queue is outside the harness")
        return super().put(item, block=False)

    def qsize(self):
        s = self._sched()
        if s is not None:
            s.yield_point(("Q", "qsize"))
        return super().qsize()

    def full(self):
        s = self._sched()
        if s is not None:
            s.yield_point(("Q", "full"))
        return super().full()

    def empty(self):
        s = self._sched()
        if s is not None:
            s.yield_point(("Q", "empty"))
        return super().empty()

    def nonempty_now(self):
        """controller-side peek (no managed thread is running)"""
        return self._qsize() > 0


# ------------------------------------------------------------------------------ choosers

class PrefixChooser:
    """follow `prefix`, then run non-pre-emptively (keep the current thread while it is enabled,
    else the lowest enabled index)"""

    def __init__(self, prefix=()):
        self.prefix = list(prefix)
        self.diverged = False

    def choose(self, i, enabled, cur):
        if i < len(self.prefix):
            c = self.prefix[i]
            if c in enabled:
                return c
            self.diverged = True
        if cur is not None and cur in enabled:
            return cur
        return enabled[0]


class RandomChooser:
    """random deep schedules: at every decision switch with probability `p`"""

    def __init__(self, rng, p=0.3):
        self.rng, self.p = rng, p
        self.diverged = False

    def choose(self, i, enabled, cur):
        if cur is not None and cur in enabled and self.rng.random() >= self.p:
            return cur
        return enabled[self.rng.randrange(len(enabled))]


# ------------------------------------------------------------------------------ the scheduler

def _signal():
    """binary hand-off signal: `acquire()` waits for one `release()` (a raw lock, created taken —
    strictly alternating use, so a lock is enough and much faster than `threading.Semaphore`)"""
    l = threading.Lock()
    l.acquire()
    return l


class Worker:
    __slots__ = ("idx", "fn", "thread", "baton", "done", "label", "waiting", "timeout", "error",
                 "aborted", "steps")

    def __init__(self, idx, fn):
        self.idx, self.fn = idx, fn
        self.thread = None
        self.baton = _signal()
        self.done = False
        self.label = ("start",)
        self.waiting = None           # the queue this thread is parked on
        self.timeout = False          # parked with a timeout pending
        self.error = None
        self.aborted = False
        self.steps = 0


class Scheduler:
    def __init__(self, chooser, max_decisions=20000):
        self.chooser = chooser
        self.workers = []
        self.by_ident = {}
        self.ctl = _signal()
        self.tearing_down = False
        self.decisions = []           # (enabled tuple, current-or-None, chosen)
        self.deadlock = None          # list of (idx, label) of the threads blocked for ever
        self.max_decisions = max_decisions
        self.trace = []               # (worker idx, label) per resumed segment (debugging)
        self.keep_trace = False

    # -- managed-thread side
    def current_worker(self):
        return self.by_ident.get(threading.get_ident())

    def spawn(self, fn):
        w = Worker(len(self.workers), fn)
        self.workers.append(w)
        return w

    def _body(self, w):
        self.by_ident[threading.get_ident()] = w
        w.baton.acquire()
        try:
            if not self.tearing_down:
                w.fn()
        except Abort:
            w.aborted = True
        except BaseException as e:           # the worker function is expected to catch its own
            w.error = e
        finally:
            w.done = True
            w.waiting = None
            self.ctl.release()

    def yield_point(self, label, waiting=None, timeout=False):
        w = self.by_ident.get(threading.get_ident())
        if w is None or self.tearing_down or w.done:
            return
        w.label, w.waiting, w.timeout = label, waiting, timeout
        self.ctl.release()
        w.baton.acquire()
        w.waiting, w.timeout = None, False
        if self.tearing_down:
            raise Abort()

    # -- controller side
    def _enabled(self, w):
        if w.done:
            return False
        if w.waiting is None or w.timeout:
            return True
        return w.waiting.nonempty_now()

    def _resume(self, w):
        w.steps += 1
        if self.keep_trace:
            self.trace.append((w.idx, w.label))
        w.baton.release()
        if not self.ctl.acquire(timeout=_STUCK_S):
            raise SchedError(f"managed thread {w.idx} did not come back (last point {w.label})")

    def run(self):
        """run all spawned workers to completion / deadlock; returns the list of choices"""
        global _ACTIVE
        if _ACTIVE is not None:
            raise SchedError("nested Scheduler.run")
        _ACTIVE = self
        try:
            for w in self.workers:
                w.thread = threading.Thread(target=self._body, args=(w,), daemon=True)
                w.thread.start()
            cur = None
            while True:
                live = [w for w in self.workers if not w.done]
                if not live:
                    break
                enabled = [w.idx for w in live if self._enabled(w)]
                if not enabled:
                    self.deadlock = [(w.idx, w.label) for w in live]
                    break
                if len(self.decisions) >= self.max_decisions:
                    raise SchedError("schedule longer than max_decisions")
                c = self.chooser.choose(len(self.decisions), enabled, cur)
                self.decisions.append((tuple(enabled), cur if cur in enabled else None, c))
                cur = c
                self._resume(self.workers[c])
            # teardown: unwind whatever is still parked, one thread at a time, nothing yields
            self.tearing_down = True
            for w in self.workers:
                if not w.done:
                    w.baton.release()
                    if not self.ctl.acquire(timeout=_STUCK_S):
                        raise SchedError(f"managed thread {w.idx} did not unwind")
            for w in self.workers:
                w.thread.join(_STUCK_S)
        finally:
            self.tearing_down = True
            _ACTIVE = None
        return [d[2] for d in self.decisions]

    def preemptions(self):
        return sum(1 for en, cur, c in self.decisions if cur is not None and c != cur)


# ------------------------------------------------------------------------------ exploration

def explore_pb(run_once, bound, limit=None):
    """Stateless DFS over all schedules with at most `bound` pre-emptions.

    `run_once(chooser)` must build a fresh system, run it under `Scheduler(chooser)` and return
    that scheduler's `decisions`.  Yields nothing; `run_once` is called once per schedule (it does
    its own recording).  Returns the number of schedules run and whether `limit` cut it short."""
    stack = [[]]
    n = 0
    while stack:
        if limit is not None and n >= limit:
            return n, True
        prefix = stack.pop()
        decisions = run_once(PrefixChooser(prefix))
        n += 1
        pre = 0
        for i, (enabled, cur, chosen) in enumerate(decisions):
            if i >= len(prefix):
                for alt in enabled:
                    if alt == chosen:
                        continue
                    cost = 1 if (cur is not None and alt != cur) else 0
                    if pre + cost <= bound:
                        stack.append([d[2] for d in decisions[:i]] + [alt])
            if cur is not None and chosen != cur:
                pre += 1
    return n, False
