"""./check entry point: facts -> proofs -> audit -> corpus -> correspondence + oracle -> verdict."""
from __future__ import annotations

import argparse
import glob
import importlib
import json
import os
import subprocess
import sys
import time

from . import core
from .core import VERIF, LEAN, OUT

ALL = [f"C{i:02d}" for i in range(1, 21)]


def setup():
    """MANIFEST.setup_cmd: regenerate facts, build every proof file and the driver from scratch."""
    from tools import extract_facts
    extract_facts.main()
    from tools import gen_root
    rc = subprocess.run(["lake", "build"], cwd=LEAN).returncode
    # one executable per driver; a driver that does not build must not stop the others
    for name, _ in gen_root.drivers():
        r = subprocess.run(["lake", "build", f"u3-{name}"], cwd=LEAN).returncode
        rc = rc or r
    if rc:
        # build every property file on its own so that one broken file leaves the others usable
        for pid in ALL:
            if os.path.exists(core.prop_file(pid)):
                subprocess.run(["lake", "build", f"U3.Props.{pid}"], cwd=LEAN, stdout=subprocess.DEVNULL, stderr=subprocess.DEVNULL)
    return 0 if rc == 0 else 1


def write_json(path, obj):
    os.makedirs(os.path.dirname(path), exist_ok=True)
    tmp = path + ".tmp"
    with open(tmp, "w") as f:
        json.dump(obj, f, indent=1, sort_keys=True, default=repr)
    os.replace(tmp, path)


def replay_path(pid, tier, seed, n):
    return os.path.join(OUT, "replay", f"{pid}-{tier}-{seed}-{n}.json")


def run_check(pid: str, tier: str, seed: int, replay: str | None = None) -> int:
    t0 = time.time()
    modname = f"harness.props.{pid.lower()}"
    prop = importlib.import_module(modname).PROP
    violations = []        # (replay file, suffix)
    notes = []
    if not replay:
        for old in glob.glob(os.path.join(OUT, "replay", f"{pid}-{tier}-{seed}-*.json")):
            os.unlink(old)

    # 1. facts
    from tools import extract_facts
    facts = extract_facts.main(quiet=True)

    # 2. proofs
    models = list(getattr(prop, "models", None) or ([prop.model] if prop.model else []))
    build = core.lean_build(pid, models)
    names = build["obligations"]
    discharged = [n for n in names if n not in build["failed"]]
    model_usable = all(os.path.exists(core.model_bin(m)) for m in models)
    if not model_usable:
        print(f"ERROR: model driver not built:\n{build['log'][-2000:]}")
    # 3. audit
    audit = {"ok": False, "axioms": {}, "bad_axioms": {}, "bad_tokens": [], "missing": []}
    if build["ok"]:
        audit = core.lean_audit(pid, names)
        if not audit["ok"]:
            bad = set(audit["bad_axioms"]) | set(audit["missing"])
            discharged = [n for n in discharged if n not in bad and not audit["bad_tokens"]]
    checker = None
    if tier == "thorough" and build["ok"] and os.environ.get("U3_SKIP_LEANCHECKER") != "1":
        checker = core.leanchecker(pid)
        if not checker["ok"]:
            discharged = []
    # a fact plugin that no longer understands the source leaves a stale Gen module: the theorems are
    # then about old tables, i.e. the tie to the current source is broken for this property
    facts_broken = core.broken_facts(pid, models, facts)
    if facts_broken:
        discharged = []
        notes.append(f"fact extraction failed: {facts_broken}")
    proofs_ok = build["ok"] and audit["ok"] and (checker is None or checker["ok"]) and not facts_broken

    # 4./5./6. corpus, correspondence, oracle
    total = core.ShardResult()
    if replay:
        data = json.load(open(replay))
        cases = [data["case"]] if "case" in data else []
        for c in cases:
            total.merge(prop.replay_case(c))
    else:
        for path in sorted(glob.glob(os.path.join(VERIF, "corpus", pid, "*.json"))):
            try:
                c = json.load(open(path))["case"]
            except Exception:
                continue
            total.merge(prop.replay_case(c))
            total.bump("corpus_cases")
        total.merge(core.run_sharded(modname, seed, tier))
        # failing-input search on an enlarged budget when a proof or the correspondence broke
        known_now = core.known_signatures(pid)
        from tools import pins
        src_changed = pins.changed_for(pid) if tier == "quick" else []
        if src_changed:
            notes.append(f"anchored source files differ from their pins: {src_changed}")
        if (not proofs_ok or total.disagreements or src_changed) and not [f for f in total.failures if f.get("signature", "") not in known_now]:
            notes.append("escalated failing-input search (proof or correspondence broken)" if (not proofs_ok or total.disagreements)
                         else "escalated failing-input search (the code the property is anchored in was edited)")
            esc = core.run_sharded(modname, seed, tier, escalate=True,
                                   budget=None if (not proofs_ok or total.disagreements) else min(prop.time_budget["thorough"], 420))
            if src_changed:
                total.disagreements += esc.disagreements
                total.lines += esc.lines
            total.failures += esc.failures
            total.evaluations += esc.evaluations
            total.nontrivial |= esc.nontrivial
            total.errors += esc.errors
            total.bump("escalated_cases", esc.evaluations)

    # 7. verdict
    known = core.known_signatures(pid)
    seen_known = {}
    new_failures = []
    for f in total.failures:
        sig = f.get("signature", "")
        if sig in known:
            seen_known.setdefault(sig, f)
        else:
            new_failures.append(f)
    for sig, f in seen_known.items():
        print(f"KNOWN-FINDING: property={pid} {known[sig]['what']}")
    n = 0
    if new_failures:
        by_sig = {}
        for f in new_failures:
            sig = f.get("signature", "")
            if sig not in by_sig or len(json.dumps(f.get("case"), default=repr)) < len(json.dumps(by_sig[sig].get("case"), default=repr)):
                by_sig[sig] = f
        for sig, f in list(by_sig.items())[:8]:
            def still_fails(c, sig=sig):
                return any(x.get("signature") == sig for x in prop.replay_case(c).failures)
            try:
                small = core.shrink(prop, f.get("case"), still_fails, max_steps=120)
                rr = [x for x in prop.replay_case(small).failures if x.get("signature") == sig]
                if rr:
                    f = rr[0]
            except Exception:
                pass
            path = replay_path(pid, tier, seed, n); n += 1
            write_json(path, {"property": pid, "kind": "failing-input", "signature": sig,
                              "what": f.get("what"), "case": f.get("case"), "detail": f.get("detail")})
            violations.append((path, ""))
    elif not proofs_ok:
        path = replay_path(pid, tier, seed, n); n += 1
        write_json(path, {"property": pid, "kind": "proof-broken" if not facts_broken else "facts-broken",
                          "fact_extraction_failed": facts_broken,
                          "theorems_not_checking": build["failed"] or sorted(set(audit.get("bad_axioms", {})) | set(audit.get("missing", []))) or names,
                          "broken_files": build["broken_files"], "bad_tokens": audit.get("bad_tokens"),
                          "leanchecker": checker, "log": build["log"][-3000:] + audit.get("log", "")})
        violations.append((path, " no-failing-input-found"))
    elif total.disagreements:
        d = total.disagreements[0]
        # shrink the disagreement
        def still_bad(c):
            r = prop.replay_case(c)
            return bool(r.disagreements)
        small = core.shrink(prop, d["case"], still_bad)
        r = prop.replay_case(small)
        dd = r.disagreements[0] if r.disagreements else d
        path = replay_path(pid, tier, seed, n); n += 1
        write_json(path, {"property": pid, "kind": "correspondence-broken",
                          "correspondence": f"model `{prop.model}` vs implementation", "case": dd["case"],
                          "line": dd["line"], "impl": dd["impl"], "model": dd["model"],
                          "n_disagreements": len(total.disagreements)})
        violations.append((path, " no-failing-input-found"))

    infra_error = bool(total.errors) or not model_usable and prop.model is not None and proofs_ok
    # evidence
    wall = round(time.time() - t0, 2)
    cov = {
        "obligations": max(len(names), 1),
        "discharged": len(discharged),
        "checker_cmd": f"cd lean && lake build U3.Props.{pid} && lake env lean <#print axioms for each theorem>"
                       + (f" && lake env leanchecker U3.Props.{pid}" if tier == "thorough" else ""),
        "trusted_base": ["Lean 4.33.0 kernel; axioms propext, Classical.choice, Quot.sound only",
                         "Lean compiler/runtime executing the model in the u3-<driver> executables",
                         "harness generators, canonicalisation and tools/extract_facts.py"] + list(prop.trusted),
        "theorems": names,
        "undischarged": [x for x in names if x not in discharged],
        "axioms": audit.get("axioms", {}),
        "evaluations": total.evaluations,
        "distinct_nontrivial": len(total.nontrivial),
        "rule": prop.rule,
        "samples": total.samples[:4] or [{"theorems": names}],
        "protocol_lines_compared": total.lines,
        "disagreements_checked": len(total.disagreements),
        "input_distribution": dict(sorted(total.hist.items())),
        "generated_facts": facts,
        "known_findings_seen": sorted(seen_known),
        "notes": notes,
        "harness_errors": total.errors[:3],
        "exhaustive": bool(getattr(prop, "exhaustive", {}).get(tier, False)) if isinstance(getattr(prop, "exhaustive", None), dict) else False,
    }
    ev = {"property_id": pid, "tier": tier, "seed": seed, "level": "proof", "coverage": cov,
          "assumptions": list(prop.assumptions), "wall_s": wall, "violations": len(violations)}
    if not replay:
        write_json(os.path.join(VERIF, "evidence", f"{pid}.json"), ev)

    for path, suffix in violations:
        print(f"VIOLATION property={pid} replay={os.path.relpath(path, VERIF)}{suffix}")
    print(f"[{pid}] tier={tier} seed={seed} theorems={len(discharged)}/{len(names)} cases={total.evaluations} "
          f"nontrivial={len(total.nontrivial)} lines={total.lines} disagreements={len(total.disagreements)} "
          f"failures={len(total.failures)} known={len(seen_known)} wall={wall}s")
    if violations:
        return 1
    if infra_error:
        for e in total.errors[:3]:
            print("HARNESS ERROR:", json.dumps(e, default=repr)[:3000])
        return 2
    return 0


def main(argv=None):
    ap = argparse.ArgumentParser()
    ap.add_argument("prop", nargs="?")
    ap.add_argument("--tier", default=os.environ.get("VERIF_TIER", "quick"), choices=["quick", "thorough"])
    ap.add_argument("--replay")
    ap.add_argument("--setup", action="store_true")
    a = ap.parse_args(argv)
    os.chdir(VERIF)
    sys.path.insert(0, VERIF)
    if a.setup:
        return setup()
    seed = int(os.environ.get("VERIF_SEED", "0") or 0)
    if a.prop == "all":
        rc = 0
        for pid in ALL:
            if os.path.exists(os.path.join(VERIF, "harness", "props", pid.lower() + ".py")):
                rc = max(rc, run_check(pid, a.tier, seed))
        return rc
    try:
        return run_check(a.prop, a.tier, seed, a.replay)
    except subprocess.TimeoutExpired as e:
        print("TIMEOUT:", e)
        return 2


if __name__ == "__main__":
    sys.exit(main())
