"""Facts for C17 from poolmanager.py: is the get-or-create of `connection_from_pool_key` one section under
`with self.pools.lock:`; is `self.pools` created without a dispose callback (evicted pools are reclaimed by the
pool's own weakref finalizer); does the pool register such a finalizer."""
import ast
from tools.extract_facts import parse, find_class, find_func, write_if_changed


def _is_pools_lock(item):
    e = item.context_expr
    return (isinstance(e, ast.Attribute) and e.attr == "lock" and isinstance(e.value, ast.Attribute)
            and e.value.attr == "pools")


def generate(facts):
    tree = parse("poolmanager.py")
    pm = find_class(tree, "PoolManager")
    fn = find_func(pm, "connection_from_pool_key")
    # every use of self.pools (get / __setitem__) and the call of self._new_pool lexically inside `with self.pools.lock:`
    state = {"uses": 0, "unlocked": 0, "new_pool_locked": False, "get_locked": False, "set_locked": False}

    def walk(node, locked):
        if isinstance(node, ast.With) and any(_is_pools_lock(i) for i in node.items):
            for b in node.body:
                walk(b, True)
            return
        if isinstance(node, ast.Attribute) and node.attr == "pools" and not (
                isinstance(getattr(node, "_parent", None), ast.Attribute) and node._parent.attr == "lock"):
            state["uses"] += 1
            if not locked:
                state["unlocked"] += 1
        if isinstance(node, ast.Call) and isinstance(node.func, ast.Attribute):
            if node.func.attr == "_new_pool" and locked:
                state["new_pool_locked"] = True
            if node.func.attr == "get" and isinstance(node.func.value, ast.Attribute) and node.func.value.attr == "pools" and locked:
                state["get_locked"] = True
        if isinstance(node, ast.Assign) and any(
                isinstance(t, ast.Subscript) and isinstance(t.value, ast.Attribute) and t.value.attr == "pools"
                for t in node.targets) and locked:
            state["set_locked"] = True
        for c in ast.iter_child_nodes(node):
            c._parent = node
            walk(c, locked)
    walk(fn, False)
    locked = (state["unlocked"] == 0 and state["get_locked"] and state["set_locked"] and state["new_pool_locked"])
    # self.pools = RecentlyUsedContainer(num_pools): no dispose_func argument
    init = find_func(pm, "__init__")
    no_dispose = False
    for n in ast.walk(init):
        if isinstance(n, ast.Call) and getattr(n.func, "id", "") == "RecentlyUsedContainer":
            no_dispose = len(n.args) <= 1 and not any(k.arg == "dispose_func" for k in n.keywords)
    # HTTPConnectionPool.__init__ registers weakref.finalize(self, _close_pool_connections, pool)
    cp = parse("connectionpool.py")
    hinit = find_func(find_class(cp, "HTTPConnectionPool"), "__init__")
    finalizer = False
    for n in ast.walk(hinit):
        if (isinstance(n, ast.Call) and isinstance(n.func, ast.Attribute) and n.func.attr == "finalize"
                and len(n.args) >= 2 and getattr(n.args[1], "id", "") == "_close_pool_connections"
                and getattr(n.args[0], "id", "") == "self"):
            finalizer = True
    b = lambda x: "true" if x else "false"
    lines = [
        "/-- `connection_from_pool_key`: `self.pools.get`, `self._new_pool` and `self.pools[key] = pool` are all lexically",
        "inside one `with self.pools.lock:` and `self.pools` is not used outside it -/",
        f"def pmGetOrCreateLocked : Bool := {b(locked)}",
        "/-- `PoolManager.__init__` creates `self.pools` without a dispose callback -/",
        f"def pmPoolsNoDispose : Bool := {b(no_dispose)}",
        "/-- `HTTPConnectionPool.__init__` registers `weakref.finalize(self, _close_pool_connections, pool)` -/",
        f"def poolHasFinalizer : Bool := {b(finalizer)}",
    ]
    facts["pmGetOrCreateLocked"] = locked
    facts["pmPoolsNoDispose"] = no_dispose
    facts["poolHasFinalizer"] = finalizer
    return write_if_changed("Lru", "\n".join(lines) + "\n")
