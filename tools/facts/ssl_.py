"""Facts from util/ssl_.py: HASHFUNC_MAP (pin length -> digest algorithm) for C08 (and C07).

The table is read twice and both readings must agree:
  * AST: the literal `((32, "md5"), (40, "sha1"), (64, "sha256"))` inside the dict comprehension
    that builds HASHFUNC_MAP;
  * import: `urllib3.util.ssl_.HASHFUNC_MAP` of the tree under test — the keys, and for every value
    the algorithm it really is (`func(b"").name`) and whether it is available (`None` = not).
Emitted as code-point lists (no `String` reduction needed in proofs by `decide`).
"""
import ast
import importlib

from tools.extract_facts import parse, write_if_changed


def _codes(s: str) -> str:
    return "[" + ", ".join(str(ord(c)) for c in s) + "]"


def _ast_table():
    tree = parse("util/ssl_.py")
    for n in ast.walk(tree):
        if isinstance(n, ast.Assign) and any(getattr(t, "id", "") == "HASHFUNC_MAP" for t in n.targets):
            v = n.value
            if isinstance(v, ast.DictComp):
                it = v.generators[0].iter
                return [(e.elts[0].value, e.elts[1].value) for e in it.elts]
            if isinstance(v, ast.Dict):          # a plain literal {32: md5, ...}
                out = []
                for k, x in zip(v.keys, v.values):
                    name = x.attr if isinstance(x, ast.Attribute) else getattr(x, "id", "?")
                    out.append((k.value, name))
                return out
    raise KeyError("HASHFUNC_MAP")


def generate(facts):
    table = _ast_table()
    mod = importlib.import_module("urllib3.util.ssl_")
    live = getattr(mod, "HASHFUNC_MAP")
    rows = []
    for length, func in live.items():
        if func is None:
            name = dict(table).get(length, "?")
            rows.append((int(length), name, False))
        else:
            try:
                name = func(b"").name
            except Exception:
                name = getattr(func, "__name__", "?")
            rows.append((int(length), name, True))
    agree = sorted((l, n) for l, n, _ in rows) == sorted((int(l), str(n)) for l, n in table)
    facts["hashfuncMap"] = [[l, n, a] for l, n, a in rows]
    facts["hashfuncMap_ast_agrees"] = agree
    lines = ["/-- `urllib3.util.ssl_.HASHFUNC_MAP`: (length of the hex pin, hashlib algorithm name as code points,",
             "    implementation available).  Names: " + ", ".join(f"{l} -> {n}" for l, n, _ in rows) + " -/",
             "def hashfuncMap : List (Nat × List Nat × Bool) := [" + ", ".join(
                 f"({l}, {_codes(n)}, {str(a).lower()})" for l, n, a in rows) + "]",
             "/-- the AST literal and the imported table list the same (length, algorithm) pairs -/",
             f"def hashfuncMapAstAgrees : Bool := {str(agree).lower()}"]
    return write_if_changed("Ssl", "\n".join(lines) + "\n")
