"""Facts from fields.py for C20: the escape table of format_multipart_header_param (the dict literal
passed to str.translate) and render_headers' sort_keys list.  Emitted as numeric code-point lists
so that `decide`/`simp` can evaluate them."""
import ast
from tools.extract_facts import parse, find_class, find_func, llist, write_if_changed


def nstr(s: str) -> str:
    return "[" + ", ".join(str(ord(c)) for c in s) + "]"


def generate(facts):
    tree = parse("fields.py")
    fn = find_func(tree, "format_multipart_header_param")
    table = None
    for n in ast.walk(fn):
        if (isinstance(n, ast.Call) and isinstance(n.func, ast.Attribute) and n.func.attr == "translate"
                and n.args and isinstance(n.args[0], ast.Dict)):
            table = []
            for k, v in zip(n.args[0].keys, n.args[0].values):
                k = ast.literal_eval(k)
                v = ast.literal_eval(v)
                if isinstance(k, str):
                    k = ord(k)
                if v is None:
                    v = ""
                if isinstance(v, int):
                    v = chr(v)
                table.append((int(k), str(v)))
    if table is None:
        raise ValueError("format_multipart_header_param: no value.translate({...}) literal found")
    rf = find_class(tree, "RequestField")
    rh = find_func(rf, "render_headers")
    sort_keys = None
    for n in ast.walk(rh):
        if isinstance(n, ast.Assign) and getattr(n.targets[0], "id", "") == "sort_keys":
            sort_keys = [ast.literal_eval(e) for e in n.value.elts]
    if sort_keys is None:
        raise ValueError("render_headers: no sort_keys list found")
    lines = [
        "/-- the table of `value.translate({...})` in `format_multipart_header_param` (code point ↦ replacement) -/",
        "def escapeTable : List (Nat × Str) := " + llist(f"({k}, {nstr(v)})" for k, v in table),
        "/-- `sort_keys` of `RequestField.render_headers` -/",
        "def sortKeys : List Str := " + llist(nstr(k) for k in sort_keys),
    ]
    facts["multipartEscapeTable"] = {str(k): v for k, v in table}
    facts["multipartSortKeys"] = sort_keys
    return write_if_changed("Multipart", "\n".join(lines) + "\n")
