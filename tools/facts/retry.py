"""Facts from util/retry.py (C04, reused by C05/C06): the constant tables of `Retry`, the default
values of `Retry.__init__`'s parameters and `Retry.DEFAULT`.

Every value is read twice — by importing `urllib3.util.retry` from the tree under check and from the
AST of the same file — and the two readings must agree (otherwise the extractor raises and the run
records `retry_error`, leaving no fresh Gen file to build against).

Encodings (documented again in the generated file):
  * strings are code-point lists (written out numerically so that `decide` can evaluate the table
    theorems in the kernel without unfolding `String`), sets are emitted sorted;
  * a counter default is `Option (Option Int)`: `none` = Python `None`, `some none` = `False`,
    `some (some n)` = the int `n`;
  * seconds are integers in units of 2^-10 s (`120` -> `122880`); a default that is not a multiple
    of 2^-10 s is a hard error.
"""
from __future__ import annotations

import ast
import inspect

from tools.extract_facts import parse, find_class, find_func, llist, write_if_changed

UNIT = 1024


def codepoints(s: str) -> str:
    return "[" + ", ".join(str(ord(c)) for c in s) + "]"


def _lit(node, env):
    """evaluate the tiny expression language the tables are written in"""
    if isinstance(node, ast.Constant):
        return node.value
    if isinstance(node, (ast.List, ast.Tuple, ast.Set)):
        return [_lit(e, env) for e in node.elts]
    if isinstance(node, ast.Call) and getattr(node.func, "id", "") in ("frozenset", "set"):
        return sorted(_lit(node.args[0], env)) if node.args else []
    if isinstance(node, ast.Name) and node.id in env:
        return env[node.id]
    if isinstance(node, ast.UnaryOp) and isinstance(node.op, ast.USub):
        return -_lit(node.operand, env)
    raise ValueError("unsupported literal: " + ast.dump(node)[:80])


def ticks(x) -> int:
    v = x * UNIT
    if isinstance(x, bool) or v != int(v):
        raise ValueError(f"{x!r} is not a multiple of 2^-10 s")
    return int(v)


def count(x) -> str:
    if x is None:
        return "none"
    if x is False:
        return "(some none)"
    if isinstance(x, int) and not isinstance(x, bool):
        return f"(some (some ({x})))" if x < 0 else f"(some (some {x}))"
    raise ValueError(f"counter default {x!r} is not None/False/int")


def lbool(x) -> str:
    if x is True:
        return "true"
    if x is False:
        return "false"
    raise ValueError(f"{x!r} is not a bool")


def generate(facts):
    from urllib3.util.retry import Retry

    tree = parse("util/retry.py")
    cls = find_class(tree, "Retry")
    env = {}
    for st in cls.body:          # class-level assignments, in order
        if isinstance(st, ast.Assign) and len(st.targets) == 1 and isinstance(st.targets[0], ast.Name):
            try:
                env[st.targets[0].id] = _lit(st.value, env)
            except ValueError:
                pass
    # ---- constant tables: AST vs import
    tables = {}
    for name in ("DEFAULT_ALLOWED_METHODS", "RETRY_AFTER_STATUS_CODES", "DEFAULT_REMOVE_HEADERS_ON_REDIRECT"):
        by_ast = sorted(env[name])
        by_imp = sorted(getattr(Retry, name))
        if by_ast != by_imp:
            raise ValueError(f"{name}: AST {by_ast} != import {by_imp}")
        tables[name] = by_imp
    if env["DEFAULT_BACKOFF_MAX"] != Retry.DEFAULT_BACKOFF_MAX:
        raise ValueError("DEFAULT_BACKOFF_MAX: AST != import")
    # ---- __init__ defaults: AST vs inspect.signature
    init = find_func(cls, "__init__")
    args = init.args.args[1:]
    ast_defaults = {a.arg: _lit(d, env) for a, d in zip(args[len(args) - len(init.args.defaults):], init.args.defaults)}
    sig = inspect.signature(Retry.__init__)
    imp_defaults = {}
    for p in list(sig.parameters.values())[1:]:
        v = p.default
        imp_defaults[p.name] = sorted(v) if isinstance(v, (set, frozenset)) else v
    if set(ast_defaults) != set(imp_defaults) or any(ast_defaults[k] != imp_defaults[k] or type(ast_defaults[k]) is not type(imp_defaults[k]) for k in ast_defaults):
        raise ValueError(f"__init__ defaults: AST {ast_defaults} != import {imp_defaults}")
    d = imp_defaults
    # ---- Retry.DEFAULT = Retry(<total>)  (module level, assigned outside the class)
    ast_default_total = None
    for st in tree.body:
        if (isinstance(st, ast.Assign) and isinstance(st.targets[0], ast.Attribute) and st.targets[0].attr == "DEFAULT"
                and isinstance(st.value, ast.Call) and getattr(st.value.func, "id", "") == "Retry"):
            if len(st.value.args) != 1 or st.value.keywords:
                raise ValueError("Retry.DEFAULT is no longer Retry(<total>)")
            ast_default_total = _lit(st.value.args[0], {})
    if ast_default_total != Retry.DEFAULT.total or type(ast_default_total) is not type(Retry.DEFAULT.total):
        raise ValueError("Retry.DEFAULT.total: AST != import")
    fresh = Retry(ast_default_total)
    if {k: v for k, v in vars(fresh).items()} != {k: v for k, v in vars(Retry.DEFAULT).items()}:
        raise ValueError("Retry.DEFAULT differs from Retry(total) in more than `total`")

    L = []
    L.append("/-! Tables of `urllib3.util.retry.Retry` (read by import *and* from the AST; both agree).")
    L.append("Strings are code-point lists; sets are sorted; counter defaults are `Option (Option Int)`")
    L.append("(`none` = None, `some none` = False, `some (some n)` = n); seconds are in units of 2^-10 s. -/")
    am = tables["DEFAULT_ALLOWED_METHODS"]
    L.append(f"/-- `Retry.DEFAULT_ALLOWED_METHODS` = {am!r} -/")
    L.append("def defaultAllowedMethods : List Str := " + llist(codepoints(x) for x in am))
    L.append("/-- `Retry.RETRY_AFTER_STATUS_CODES` -/")
    L.append("def retryAfterStatusCodes : List Nat := " + llist(str(x) for x in tables["RETRY_AFTER_STATUS_CODES"]))
    rh = tables["DEFAULT_REMOVE_HEADERS_ON_REDIRECT"]
    L.append(f"/-- `Retry.DEFAULT_REMOVE_HEADERS_ON_REDIRECT` = {rh!r} -/")
    L.append("def defaultRemoveHeadersOnRedirect : List Str := " + llist(codepoints(x) for x in rh))
    L.append("/-- `Retry.DEFAULT_BACKOFF_MAX` (2^-10 s) -/")
    L.append(f"def defaultBackoffMax : Int := {ticks(Retry.DEFAULT_BACKOFF_MAX)}")
    L.append("/-- defaults of `Retry.__init__` -/")
    for py, lean in (("total", "initTotal"), ("connect", "initConnect"), ("read", "initRead"),
                     ("redirect", "initRedirect"), ("status", "initStatus"), ("other", "initOther")):
        L.append(f"def {lean} : Option (Option Int) := {count(d[py])}")
    am_d = d["allowed_methods"]
    L.append("def initAllowedMethods : Option (List Str) := " +
             ("none" if am_d is None else "some " + llist(codepoints(x) for x in sorted(am_d))))
    sf = d["status_forcelist"]
    L.append("def initStatusForcelist : List Nat := " + llist(str(x) for x in sorted(sf or [])))
    L.append(f"def initBackoffFactor : Int := {ticks(d['backoff_factor'])}")
    L.append(f"def initBackoffMax : Int := {ticks(d['backoff_max'])}")
    L.append(f"def initBackoffJitter : Int := {ticks(d['backoff_jitter'])}")
    L.append(f"def initRaiseOnRedirect : Bool := {lbool(d['raise_on_redirect'])}")
    L.append(f"def initRaiseOnStatus : Bool := {lbool(d['raise_on_status'])}")
    L.append(f"def initRespectRetryAfterHeader : Bool := {lbool(d['respect_retry_after_header'])}")
    L.append("def initRemoveHeadersOnRedirect : List Str := " + llist(codepoints(x) for x in sorted(d["remove_headers_on_redirect"])))
    L.append(f"def initHistoryEmpty : Bool := {lbool(not d['history'])}")
    L.append("/-- `Retry.DEFAULT = Retry(<this>)` -/")
    L.append(f"def retryDEFAULTTotal : Option (Option Int) := {count(Retry.DEFAULT.total)}")
    facts["retry"] = {"DEFAULT_ALLOWED_METHODS": am, "RETRY_AFTER_STATUS_CODES": tables["RETRY_AFTER_STATUS_CODES"],
                      "DEFAULT_REMOVE_HEADERS_ON_REDIRECT": rh, "DEFAULT_BACKOFF_MAX": Retry.DEFAULT_BACKOFF_MAX,
                      "init_defaults": {k: (v if not isinstance(v, (set, frozenset)) else sorted(v)) for k, v in d.items()},
                      "DEFAULT.total": Retry.DEFAULT.total}
    return write_if_changed("Retry", "\n".join(L) + "\n")
