"""Facts from _collections.py: lock discipline of RecentlyUsedContainer (C17), content_specific_headers (C05/C16)."""
import ast
from tools.extract_facts import parse, find_class, find_func, lstr, llist, write_if_changed


def generate(facts):
    """Lock discipline of RecentlyUsedContainer (C17) and content_specific_headers (C05)."""
    tree = parse("_collections.py")
    ruc = find_class(tree, "RecentlyUsedContainer")
    lines = []
    disc = {}
    for fn in ruc.body:
        if not isinstance(fn, ast.FunctionDef):
            continue
        # every access to self._container lexically inside `with self.lock:`;
        # every call self.dispose_func(...) lexically outside
        inside_ok, dispose_outside = True, True
        def walk(node, locked):
            nonlocal inside_ok, dispose_outside
            if isinstance(node, ast.With) and any(
                isinstance(i.context_expr, ast.Attribute) and i.context_expr.attr == "lock" for i in node.items):
                for b in node.body:
                    walk(b, True)
                return
            if isinstance(node, ast.Attribute) and node.attr == "_container" and not locked and fn.name != "__init__":
                inside_ok = False
            if isinstance(node, ast.Call) and isinstance(node.func, ast.Attribute) and node.func.attr == "dispose_func" and locked:
                dispose_outside = False
            for c in ast.iter_child_nodes(node):
                walk(c, locked)
        walk(fn, False)
        disc[fn.name] = (inside_ok, dispose_outside)
    names = sorted(disc)
    lines.append("/-- (method, every `_container` access is under `with self.lock`, every `dispose_func` call is outside it) -/")
    lines.append("def rucLockDiscipline : List (String × Bool × Bool) := " + llist(
        f'("{n}", {str(disc[n][0]).lower()}, {str(disc[n][1]).lower()})' for n in names))
    facts["rucLockDiscipline"] = {n: list(disc[n]) for n in names}
    hd = find_class(tree, "HTTPHeaderDict")
    pm = find_func(hd, "_prepare_for_method_change")
    csh = None
    for n in ast.walk(pm):
        if isinstance(n, ast.Assign) and getattr(n.targets[0], "id", "") == "content_specific_headers":
            csh = [e.value for e in n.value.elts]
    lines.append("def contentSpecificHeaders : List Str := " + llist(lstr(x) for x in (csh or [])))
    facts["contentSpecificHeaders"] = csh
    return write_if_changed("Collections", "\n".join(lines) + "\n")


