"""Facts for the request serializer model (C10, C11, C15): tables the model *uses* (SKIPPABLE_HEADERS,
SKIP_HEADER, _METHODS_NOT_EXPECTING_BODY, URL character sets, default User-Agent, default blocksize)
and the regex sources the hand matchers of `U3.Wire` were written for (pins: a changed pattern
escalates that matcher's own correspondence in harness/props/c10.py, it is not a proof obligation)."""
import ast
import importlib
import inspect

from tools.extract_facts import parse, lstr, llist, write_if_changed


def _lean_string(s: str) -> str:
    out = []
    for ch in s:
        o = ord(ch)
        if ch == "\\":
            out.append("\\\\")
        elif ch == '"':
            out.append('\\"')
        elif 32 <= o < 127:
            out.append(ch)
        else:
            out.append("\\u%04x" % o if o < 0x10000 else "?")
    return '"' + "".join(out) + '"'


def _ast_set(tree, name):
    """literal set / frozenset([...]) / tuple assigned to `name` at module level (None if not literal)"""
    for n in tree.body:
        if isinstance(n, ast.Assign) and any(getattr(t, "id", None) == name for t in n.targets):
            v = n.value
            if isinstance(v, ast.Call) and v.args:
                v = v.args[0]
            if isinstance(v, (ast.Set, ast.List, ast.Tuple)):
                try:
                    return sorted(ast.literal_eval(ast.Expression(ast.List(elts=v.elts, ctx=ast.Load()))))
                except Exception:
                    return None
            if isinstance(v, ast.Constant):
                return v.value
    return None


def generate(facts):
    import http.client
    ureq = importlib.import_module("urllib3.util.request")
    ucon = importlib.import_module("urllib3.connection")
    uurl = importlib.import_module("urllib3.util.url")
    treq = parse("util/request.py")

    skippable = sorted(ureq.SKIPPABLE_HEADERS)
    skip = ureq.SKIP_HEADER
    bodyless = sorted(ureq._METHODS_NOT_EXPECTING_BODY)
    agree = {
        "SKIPPABLE_HEADERS": _ast_set(treq, "SKIPPABLE_HEADERS") == skippable,
        "SKIP_HEADER": _ast_set(treq, "SKIP_HEADER") == skip,
        "_METHODS_NOT_EXPECTING_BODY": _ast_set(treq, "_METHODS_NOT_EXPECTING_BODY") == bodyless,
    }
    ua = ucon._get_default_user_agent()
    blocksize = inspect.signature(ucon.HTTPConnection.__init__).parameters["blocksize"].default
    path_chars = sorted(ord(c) for c in uurl._PATH_CHARS)
    query_chars = sorted(ord(c) for c in uurl._QUERY_CHARS)
    def pat(obj, *path):
        """source text of a regex; a renamed / removed regex is recorded as "<missing>" (the pins are
        documentation: harness/props/c10.py escalates the matcher correspondence when one changed)"""
        try:
            for a in path:
                obj = getattr(obj, a)
            p = obj.pattern
            return p.decode("latin-1") if isinstance(p, bytes) else p
        except Exception:
            return "<missing>"

    pins = {
        "pinTokenRe": pat(ucon, "_CONTAINS_CONTROL_CHAR_RE"),
        "pinTargetRe": pat(uurl, "_TARGET_RE"),
        "pinPercentRe": pat(uurl, "_PERCENT_RE"),
        "pinHcMethodRe": pat(http.client, "_contains_disallowed_method_pchar_re"),
        "pinHcUrlRe": pat(http.client, "_contains_disallowed_url_pchar_re"),
        "pinHcLegalNameRe": pat(http.client, "_is_legal_header_name", "__self__"),
        "pinHcIllegalValueRe": pat(http.client, "_is_illegal_header_value", "__self__"),
    }
    try:
        h2c = importlib.import_module("urllib3.http2.connection")
        pins["pinH2NameRe"] = pat(h2c, "RE_IS_LEGAL_HEADER_NAME")
        pins["pinH2ValueRe"] = pat(h2c, "RE_IS_ILLEGAL_HEADER_VALUE")
    except Exception as e:  # h2 missing: no HTTP/2 pins
        facts["wire_h2_error"] = repr(e)

    lines = []
    lines.append("/-- `urllib3.util.request.SKIPPABLE_HEADERS` (sorted) -/")
    lines.append("def skippableHeaders : List Str := " + llist(lstr(x) for x in skippable))
    lines.append("/-- `urllib3.util.request.SKIP_HEADER` -/")
    lines.append("def skipHeader : Str := " + lstr(skip))
    lines.append("/-- `urllib3.util.request._METHODS_NOT_EXPECTING_BODY` (sorted) -/")
    lines.append("def methodsNotExpectingBody : List Str := " + llist(lstr(x) for x in bodyless))
    lines.append("/-- `urllib3.connection._get_default_user_agent()` -/")
    lines.append("def defaultUserAgent : Str := " + lstr(ua))
    lines.append("/-- default of `HTTPConnection(blocksize=…)` -/")
    lines.append(f"def wireDefaultBlocksize : Nat := {int(blocksize)}")
    lines.append("/-- `urllib3.util.url._PATH_CHARS` / `_QUERY_CHARS` as sorted code points -/")
    lines.append("def wirePathChars : List Nat := " + llist(str(c) for c in path_chars))
    lines.append("def wireQueryChars : List Nat := " + llist(str(c) for c in query_chars))
    lines.append("/-! regex sources the hand matchers were written for (pins) -/")
    for k in sorted(pins):
        lines.append(f"def {k} : String := {_lean_string(pins[k])}")
    facts["wire"] = {"skippableHeaders": skippable, "skipHeader": skip, "methodsNotExpectingBody": bodyless,
                     "defaultUserAgent": ua, "defaultBlocksize": blocksize, "ast_agrees": agree, "pins": pins}
    return write_if_changed("Wire", "\n".join(lines) + "\n")
