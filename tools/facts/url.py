"""Facts from util/url.py (C14, reused by C10/C15): the RFC 3986 character sets the encoder uses,
_NORMALIZABLE_SCHEMES, and the source text of every regex the hand matchers of Model/Url re-implement
(documentation + pins: a changed pattern escalates the matcher's exhaustive correspondence)."""
import hashlib
import importlib

from tools.extract_facts import lstr, llist, write_if_changed

REGEXES = ["_PERCENT_RE", "_SCHEME_RE", "_URI_RE", "_TARGET_RE", "_IPV4_RE", "_IPV6_RE", "_IPV6_ADDRZ_RE",
           "_BRACELESS_IPV6_ADDRZ_RE", "_ZONE_ID_RE", "_HOST_PORT_RE"]
# sha1(pattern + "|" + flags) of the text each hand matcher in lean/U3/Model/Url.lean was written for
# (urllib3 2.3.0 + the `\Z` anchoring of _HOST_PORT_RE / _IPV6_ADDRZ_RE).  A difference is not a violation: harness/props/c14.py escalates the exhaustive
# short-string correspondence when `facts["urlRegexChanged"]` is non-empty.
WRITTEN_FOR = {
    "_PERCENT_RE": "1c31f87a06212891364dc7d11c01740ecf122ba8",
    "_SCHEME_RE": "34a3a025d7354c5153863cf9681836d17d342030",
    "_URI_RE": "f16465e5ddcc0f93a4481422a187d6757b4243f9",
    "_TARGET_RE": "790cc07c73c6abd70cf8259e6188ffc0afbfa18f",
    "_IPV4_RE": "4d2d27dca7d2781001119daed2f4522d601c297c",
    "_IPV6_RE": "9d65efe6e6d078ed74fda6e18eec1762f302b622",
    "_IPV6_ADDRZ_RE": "7d5bfbad6a47cb6bd2e3431f968a9abf8f4010c1",
    "_BRACELESS_IPV6_ADDRZ_RE": "aa27d278e63054a67503d3c052c4d4c2f48db435",
    "_ZONE_ID_RE": "5799bd86bf009cf1b258e47b0acb0314839252f8",
    "_HOST_PORT_RE": "67272a847a1d1f339829774451d07963d388e2b3",
}


def lean_string(s: str) -> str:
    out = []
    for c in s:
        if c == "\\":
            out.append("\\\\")
        elif c == '"':
            out.append('\\"')
        elif c == "\n":
            out.append("\\n")
        else:
            out.append(c)
    return '"' + "".join(out) + '"'


def charset(xs) -> str:
    return llist(str(ord(c)) for c in sorted(xs))


def generate(facts):
    m = importlib.import_module("urllib3.util.url")
    lines = []
    sets = {}
    for py, lean in [("_UNRESERVED_CHARS", "unreservedChars"), ("_SUB_DELIM_CHARS", "subDelimChars"),
                     ("_USERINFO_CHARS", "userinfoChars"), ("_PATH_CHARS", "pathChars"),
                     ("_QUERY_CHARS", "queryChars"), ("_FRAGMENT_CHARS", "fragmentChars")]:
        v = getattr(m, py)
        if not all(isinstance(c, str) and len(c) == 1 for c in v):
            raise ValueError(f"{py}: not a set of single characters")
        sets[py] = "".join(sorted(v))
        lines.append(f"/-- `{py}` (code points, sorted) -/")
        lines.append(f"def {lean} : List Nat := {charset(v)}")
    schemes = list(m._NORMALIZABLE_SCHEMES)
    lines.append("/-- `_NORMALIZABLE_SCHEMES` (`none` = Python `None`) -/")
    lines.append("def normalizableSchemes : List (Option Str) := " + llist(
        "none" if s is None else "some " + llist(str(ord(c)) for c in s) for s in schemes))
    pats = {}
    shas = {}
    flags = {}
    for name in REGEXES:
        # a renamed / removed regex is a *changed pin* (escalates the matcher correspondence), not an
        # extraction failure: the hand matchers do not depend on the regex objects
        r = getattr(m, name, None)
        pats[name] = getattr(r, "pattern", "<missing>")
        flags[name] = int(getattr(r, "flags", 0))
        shas[name] = hashlib.sha1((pats[name] + "|" + str(flags[name])).encode()).hexdigest()
    lines.append("/-- regex sources re-implemented by the hand matchers of `U3.Url` (documentation / pins) -/")
    lines.append("def urlRegexSources : List (String × String × Nat) := " + llist(
        f'({lean_string(n)}, {lean_string(pats[n])}, {flags[n]})' for n in REGEXES))
    facts["urlCharSets"] = sets
    facts["normalizableSchemes"] = schemes
    facts["urlRegexSha1"] = shas
    facts["urlRegexChanged"] = sorted(n for n in REGEXES if shas[n] != WRITTEN_FOR.get(n))
    return write_if_changed("Url", "\n".join(lines) + "\n")
