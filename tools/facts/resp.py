"""Facts for Model/Resp: the content-decoder table of BaseHTTPResponse (as imported from the tree
under test: depends on which optional codecs are installed) -> lean/U3/Gen/Resp.lean."""
from tools.extract_facts import write_if_changed, lstr, llist


def generate(facts) -> bool:
    import importlib
    import urllib3.response as r
    decs = list(r.BaseHTTPResponse.CONTENT_DECODERS)
    facts["content_decoders"] = decs
    facts["has_zstd"] = bool(r.HAS_ZSTD)
    facts["has_brotli"] = r.brotli is not None
    body = ("/-- `BaseHTTPResponse.CONTENT_DECODERS` -/\n"
            f"def contentDecoders : List Str := {llist([lstr(d) for d in decs])}\n"
            f"def hasZstd : Bool := {'true' if r.HAS_ZSTD else 'false'}\n"
            f"def hasBrotli : Bool := {'true' if r.brotli is not None else 'false'}\n")
    return write_if_changed("Resp", body)
