"""Facts for the redirect model (C05/C06): `REDIRECT_STATUSES` and the status test of
`get_redirect_location` (response.py), `Retry.DEFAULT_REMOVE_HEADERS_ON_REDIRECT` (util/retry.py),
`port_by_scheme` (connection.py), `RequestMethods._encode_url_methods` (_request_methods.py), the
fall-back port of `PoolManager.connection_from_host` (poolmanager.py) and the status that triggers
the method rewrite in both redirect branches.

Every table is read twice — by importing the module from the tree under check and from the AST of
the same file — and the two readings must agree (otherwise the extractor raises, the run records
`redirect_error` and no fresh Gen file is written).  Strings are code-point lists, sets are sorted.
"""
from __future__ import annotations

import ast

from tools.extract_facts import parse, find_class, find_func, llist, write_if_changed


def codepoints(s: str) -> str:
    return "[" + ", ".join(str(ord(c)) for c in s) + "]"


def _const_list(node):
    if isinstance(node, ast.Call) and getattr(node.func, "id", "") in ("frozenset", "set") and node.args:
        node = node.args[0]
    if isinstance(node, (ast.List, ast.Tuple, ast.Set)):
        return [e.value for e in node.elts]
    raise ValueError("unsupported table literal: " + ast.dump(node)[:80])


def _class_assign(cls, name):
    for st in cls.body:
        if isinstance(st, ast.Assign) and getattr(st.targets[0], "id", "") == name:
            return st.value
        if isinstance(st, ast.AnnAssign) and getattr(st.target, "id", "") == name and st.value is not None:
            return st.value
    raise KeyError(name)


def _rewrite_statuses(fn):
    """the constants `response.status` is compared with (`==`) inside an `if` of `fn`"""
    out = []
    for n in ast.walk(fn):
        if isinstance(n, ast.Compare) and isinstance(n.left, ast.Attribute) and n.left.attr == "status" \
                and len(n.ops) == 1 and isinstance(n.ops[0], ast.Eq) and isinstance(n.comparators[0], ast.Constant):
            out.append(n.comparators[0].value)
    return out


def generate(facts):
    from urllib3.response import BaseHTTPResponse, HTTPResponse
    from urllib3.util.retry import Retry
    from urllib3.connection import port_by_scheme
    from urllib3._request_methods import RequestMethods

    # ---- REDIRECT_STATUSES
    rtree = parse("response.py")
    base = find_class(rtree, "BaseHTTPResponse")
    rs_ast = _const_list(_class_assign(base, "REDIRECT_STATUSES"))
    if sorted(rs_ast) != sorted(BaseHTTPResponse.REDIRECT_STATUSES) or sorted(rs_ast) != sorted(HTTPResponse.REDIRECT_STATUSES):
        raise ValueError("REDIRECT_STATUSES: AST != import")
    # get_redirect_location must still be `if self.status in self.REDIRECT_STATUSES: return headers.get("location")`
    grl = find_func(base, "get_redirect_location")
    uses_table = any(isinstance(n, ast.Compare) and isinstance(n.ops[0], ast.In)
                     and isinstance(n.comparators[0], ast.Attribute) and n.comparators[0].attr == "REDIRECT_STATUSES"
                     for n in ast.walk(grl))
    loc_keys = [n.args[0].value for n in ast.walk(grl)
                if isinstance(n, ast.Call) and isinstance(n.func, ast.Attribute) and n.func.attr == "get"
                and n.args and isinstance(n.args[0], ast.Constant)]
    if not uses_table or [k.lower() for k in loc_keys] != ["location"]:
        raise ValueError("get_redirect_location no longer has the shape the model transcribes")

    # ---- DEFAULT_REMOVE_HEADERS_ON_REDIRECT
    retry_cls = find_class(parse("util/retry.py"), "Retry")
    rh_ast = sorted(_const_list(_class_assign(retry_cls, "DEFAULT_REMOVE_HEADERS_ON_REDIRECT")))
    rh = sorted(Retry.DEFAULT_REMOVE_HEADERS_ON_REDIRECT)
    if rh_ast != rh:
        raise ValueError("DEFAULT_REMOVE_HEADERS_ON_REDIRECT: AST != import")

    # ---- port_by_scheme
    ctree = parse("connection.py")
    pbs_ast = None
    for st in ctree.body:
        if isinstance(st, ast.Assign) and getattr(st.targets[0], "id", "") == "port_by_scheme":
            pbs_ast = {k.value: v.value for k, v in zip(st.value.keys, st.value.values)}
    if pbs_ast != dict(port_by_scheme):
        raise ValueError("port_by_scheme: AST != import")
    pbs = sorted(pbs_ast.items())

    # ---- _encode_url_methods
    rm = find_class(parse("_request_methods.py"), "RequestMethods")
    eum_ast = sorted(_const_list(_class_assign(rm, "_encode_url_methods")))
    if eum_ast != sorted(RequestMethods._encode_url_methods):
        raise ValueError("_encode_url_methods: AST != import")

    # ---- fall-back port of PoolManager.connection_from_host: port_by_scheme.get(scheme.lower(), <this>)
    pm = find_class(parse("poolmanager.py"), "PoolManager")
    cfh = find_func(pm, "connection_from_host")
    fallback = [n.args[1].value for n in ast.walk(cfh)
                if isinstance(n, ast.Call) and isinstance(n.func, ast.Attribute) and n.func.attr == "get"
                and isinstance(n.func.value, ast.Name) and n.func.value.id == "port_by_scheme" and len(n.args) == 2]
    if len(fallback) != 1:
        raise ValueError("connection_from_host: fall-back port not found")

    # ---- the status that rewrites the method (both redirect branches must agree)
    mgr_rw = _rewrite_statuses(find_func(pm, "urlopen"))
    pool_cls = find_class(parse("connectionpool.py"), "HTTPConnectionPool")
    pool_rw = _rewrite_statuses(find_func(pool_cls, "urlopen"))
    if not mgr_rw or sorted(set(mgr_rw)) != sorted(set(pool_rw)):
        raise ValueError(f"method-rewrite statuses differ: manager {mgr_rw}, pool {pool_rw}")

    L = []
    L.append("namespace Redirect      -- own namespace: `port_by_scheme` is also extracted for C18")
    L.append("/-! Tables of the redirect model (C05/C06); strings are code-point lists, sets sorted. -/")
    L.append("/-- `BaseHTTPResponse.REDIRECT_STATUSES` (the test of `get_redirect_location`) -/")
    L.append("def redirectStatuses : List Nat := " + llist(str(x) for x in rs_ast))
    L.append(f"/-- `Retry.DEFAULT_REMOVE_HEADERS_ON_REDIRECT` = {rh!r} -/")
    L.append("def removeHeadersOnRedirectDefault : List Str := " + llist(codepoints(x) for x in rh))
    L.append(f"/-- `connection.port_by_scheme` = {dict(pbs)!r} -/")
    L.append("def portByScheme : List (Str × Nat) := " + llist(f"({codepoints(k)}, {v})" for k, v in pbs))
    L.append("/-- `port_by_scheme.get(scheme.lower(), <this>)` in `PoolManager.connection_from_host` -/")
    L.append(f"def fallbackPort : Nat := {int(fallback[0])}")
    L.append(f"/-- `RequestMethods._encode_url_methods` = {eum_ast!r} -/")
    L.append("def encodeUrlMethods : List Str := " + llist(codepoints(x) for x in eum_ast))
    L.append("/-- the statuses compared with `response.status ==` before the method rewrite (manager and pool branch agree) -/")
    L.append("def methodRewriteStatuses : List Nat := " + llist(str(x) for x in sorted(set(mgr_rw))))
    L.append("end Redirect")
    facts["redirect"] = {"REDIRECT_STATUSES": rs_ast, "DEFAULT_REMOVE_HEADERS_ON_REDIRECT": rh,
                         "port_by_scheme": dict(pbs), "fallback_port": fallback[0],
                         "_encode_url_methods": eum_ast, "method_rewrite_statuses": sorted(set(mgr_rw))}
    return write_if_changed("Redirect", "\n".join(L) + "\n")
