"""Facts for the pool / connection / response lifecycle model (C01, C03) -> lean/U3/Gen/Pool.lean.

* the exception classes the fault scripts can raise, the http.client / ssl classes on the path and
  the whole urllib3.exceptions hierarchy, numbered; `issubclass` over that finite universe;
* the classes listed in the `except (...)` clauses (and the `isinstance(e, (...))` tests inside
  the handlers) of `HTTPConnectionPool.urlopen`, `_make_request`, `HTTPConnection._new_conn`,
  `HTTPResponse._error_catcher` and `HTTPResponse.drain_conn`, in source order, resolved in the
  namespace of the module that contains them.
Regenerated on every run; the model (`U3.Pool`) *uses* these tables to decide which handler an
exception reaches, so an edit of a tuple in the source changes the model the theorems are about.
"""
import ast
import builtins
import errno
import http.client
import importlib
import socket
import ssl

from tools.extract_facts import parse, find_class, find_func, llist, write_if_changed


def _universe():
    import urllib3.exceptions as ue
    classes = []          # (lean name, class)

    def add(name, cls):
        if all(c is not cls for _, c in classes):
            classes.append((name, cls))

    for n in ["BaseException", "Exception", "KeyboardInterrupt", "SystemExit", "OSError", "ConnectionError",
              "ConnectionRefusedError", "ConnectionResetError", "ConnectionAbortedError", "BrokenPipeError",
              "TimeoutError", "ValueError", "AssertionError", "AttributeError", "RuntimeError"]:
        add(n, getattr(builtins, n))
    add("Gaierror", socket.gaierror)
    add("SslSSLError", ssl.SSLError)
    add("SslCertVerificationError", ssl.SSLCertVerificationError)
    for n in ["HTTPException", "NotConnected", "ImproperConnectionState", "CannotSendRequest", "CannotSendHeader",
              "ResponseNotReady", "BadStatusLine", "RemoteDisconnected", "LineTooLong"]:
        add(n, getattr(http.client, n))
    add("HttpIncompleteRead", http.client.IncompleteRead)
    for n in sorted(dir(ue)):
        c = getattr(ue, n)
        if isinstance(c, type) and issubclass(c, BaseException) and c.__module__ == "urllib3.exceptions" \
                and not issubclass(c, Warning):
            add("U3" + c.__name__, c)
    from urllib3.util.ssl_match_hostname import CertificateError
    add("CertificateError", CertificateError)
    return classes


def _tuples(fn, modname, classes):
    """(handlers, isinstances): class-id lists of every `except` clause / isinstance tuple, source order"""
    mod = importlib.import_module(modname)

    def resolve(node):
        elts = node.elts if isinstance(node, ast.Tuple) else [node]
        out = []
        for e in elts:
            cls = eval(compile(ast.Expression(e), "<facts>", "eval"), vars(mod))
            hit = [i for i, (_, c) in enumerate(classes) if c is cls]
            if not hit:
                raise KeyError(f"class {ast.unparse(e)} of {modname}.{fn.name} is outside the universe")
            out.append(hit[0])
        return out

    handlers, isinst = [], []
    for n in sorted((n for n in ast.walk(fn) if isinstance(n, (ast.ExceptHandler, ast.Call))),
                    key=lambda n: (n.lineno, n.col_offset)):
        if isinstance(n, ast.ExceptHandler):
            handlers.append(resolve(n.type) if n.type is not None else [0])
        elif isinstance(n.func, ast.Name) and n.func.id == "isinstance" and len(n.args) == 2:
            try:
                isinst.append(resolve(n.args[1]))
            except KeyError:
                pass                      # not a test on exception classes (e.g. isinstance(retries, Retry))
    return handlers, isinst


def generate(facts):
    classes = _universe()
    names = [n for n, _ in classes]
    lines = []
    lines.append("/-- exception classes (index = class id): builtins / socket / ssl / http.client classes on the\n"
                 "path of the pool code and every class of `urllib3.exceptions` (prefix `U3`) -/")
    lines.append("def excNames : List String := " + llist(f'"{n}"' for n in names))
    for i, n in enumerate(names):
        lines.append(f"def c{n} : Nat := {i}")
    lines.append("/-- `ancestors[i]` = ids `j` with `issubclass(class i, class j)` -/")
    anc = [[j for j, (_, d) in enumerate(classes) if issubclass(c, d)] for _, c in classes]
    lines.append("def ancestors : List (List Nat) := " + llist(llist(str(j) for j in a) for a in anc))
    facts["pool_exc_classes"] = names

    cp = parse("connectionpool.py")
    pool = find_class(cp, "HTTPConnectionPool")
    rp = parse("response.py")
    resp = find_class(rp, "HTTPResponse")
    cn = parse("connection.py")
    conn = find_class(cn, "HTTPConnection")
    table = [
        ("urlopen", find_func(pool, "urlopen"), "urllib3.connectionpool"),
        ("makeRequest", find_func(pool, "_make_request"), "urllib3.connectionpool"),
        ("newConn", find_func(conn, "_new_conn"), "urllib3.connection"),
        ("errorCatcher", find_func(resp, "_error_catcher"), "urllib3.response"),
        ("drainConn", find_func(resp, "drain_conn"), "urllib3.response"),
    ]
    for lname, fn, modname in table:
        hs, iss = _tuples(fn, modname, classes)
        lines.append(f"/-- `except` clauses of `{fn.name}` in source order -/")
        lines.append(f"def {lname}Handlers : List (List Nat) := " + llist(llist(str(j) for j in h) for h in hs))
        lines.append(f"/-- `isinstance(_, (...))` tuples of `{fn.name}` in source order -/")
        lines.append(f"def {lname}Isinstance : List (List Nat) := " + llist(llist(str(j) for j in h) for h in iss))
        facts[f"pool_{lname}_handlers"] = [[names[j] for j in h] for h in hs]
        facts[f"pool_{lname}_isinstance"] = [[names[j] for j in h] for h in iss]
    lines.append("/-- errno values `_make_request` swallows after `conn.request` -/")
    lines.append(f"def errnoEPROTOTYPE : Nat := {errno.EPROTOTYPE}")
    lines.append(f"def errnoECONNRESET : Nat := {errno.ECONNRESET}")
    return write_if_changed("Pool", "\n".join(lines) + "\n")
