"""Facts for C18 (and the PoolKey model): PoolKey._fields, SSL_KEYWORDS, _DEFAULT_BLOCKSIZE,
port_by_scheme, key_fn_by_scheme / pool_classes_by_scheme keys, and the keyword names of the
constructors of HTTPConnection / HTTPSConnection / HTTPConnectionPool / HTTPSConnectionPool /
PoolManager / ProxyManager.

Every table is read twice -- by importing the module from $U3_REPO/src (inspect / attribute
access) and from the AST of the source file -- and the two readings must agree; a disagreement is
an extractor error (recorded in the facts, the Gen file is then not rewritten and the stale model
no longer matches, which the correspondence run reports).

Strings are emitted as explicit code-point lists (kernel `decide` evaluates them cheaply), with the
readable names in a comment.
"""
from __future__ import annotations

import ast
import importlib
import inspect

from tools.extract_facts import parse, find_class, find_func, write_if_changed


def cp(s: str) -> str:
    return "[" + ", ".join(str(ord(c)) for c in s) + "]"


def strlist(xs) -> str:
    return "[" + ", ".join(cp(x) for x in xs) + "]"


def _ast_sig(cls_node):
    """(parameter names without self, has **kwargs, name of **kwargs) of cls.__init__ by AST"""
    fn = None
    for n in cls_node.body:
        if isinstance(n, ast.FunctionDef) and n.name == "__init__":
            fn = n
    if fn is None:
        raise KeyError(cls_node.name + ".__init__")
    a = fn.args
    names = [x.arg for x in a.posonlyargs + a.args][1:] + [x.arg for x in a.kwonlyargs]
    if a.vararg is not None:
        raise ValueError("*args in " + cls_node.name)
    return names, a.kwarg is not None


def _insp_sig(cls):
    sig = inspect.signature(cls.__init__)
    names, var = [], False
    for i, (n, p) in enumerate(sig.parameters.items()):
        if i == 0:
            continue
        if p.kind is inspect.Parameter.VAR_KEYWORD:
            var = True
        elif p.kind is inspect.Parameter.VAR_POSITIONAL:
            raise ValueError("*args in " + cls.__name__)
        else:
            names.append(n)
    return names, var


def _ast_tuple_of_str(tree, name):
    for n in tree.body:
        if isinstance(n, ast.Assign) and getattr(n.targets[0], "id", None) == name:
            return [e.value for e in n.value.elts]
    raise KeyError(name)


def _ast_dict(tree, name):
    for n in tree.body:
        if isinstance(n, ast.Assign) and getattr(n.targets[0], "id", None) == name:
            return n.value
    raise KeyError(name)


def read_facts():
    """the tables as a dict (no file is written)"""
    pm_tree = parse("poolmanager.py")
    cp_tree = parse("connectionpool.py")
    co_tree = parse("connection.py")
    pm = importlib.import_module("urllib3.poolmanager")
    cpm = importlib.import_module("urllib3.connectionpool")
    com = importlib.import_module("urllib3.connection")

    def both(what, a, b):
        if a != b:
            raise ValueError(f"{what}: import says {a!r}, AST says {b!r}")
        return a

    # PoolKey._fields (annotated assignments of the NamedTuple class, in order)
    pk = find_class(pm_tree, "PoolKey")
    ast_fields = [n.target.id for n in pk.body if isinstance(n, ast.AnnAssign)]
    fields = both("PoolKey._fields", list(pm.PoolKey._fields), ast_fields)
    ssl_kw = both("SSL_KEYWORDS", list(pm.SSL_KEYWORDS), _ast_tuple_of_str(pm_tree, "SSL_KEYWORDS"))
    blk_node = _ast_dict(pm_tree, "_DEFAULT_BLOCKSIZE")
    blocksize = both("_DEFAULT_BLOCKSIZE", pm._DEFAULT_BLOCKSIZE, blk_node.value)
    pbs_node = _ast_dict(co_tree, "port_by_scheme")          # defined in connection.py, re-exported
    pbs = both("port_by_scheme", dict(cpm.port_by_scheme),
               {k.value: v.value for k, v in zip(pbs_node.keys, pbs_node.values)})
    kf_node = _ast_dict(pm_tree, "key_fn_by_scheme")
    key_schemes = both("key_fn_by_scheme", list(pm.key_fn_by_scheme), [k.value for k in kf_node.keys])
    pc_node = _ast_dict(pm_tree, "pool_classes_by_scheme")
    pool_schemes = both("pool_classes_by_scheme", list(pm.pool_classes_by_scheme), [k.value for k in pc_node.keys])

    sigs = {}
    for label, mod, tree, cls in [
        ("httpConn", com, co_tree, "HTTPConnection"),
        ("httpsConn", com, co_tree, "HTTPSConnection"),
        ("httpPool", cpm, cp_tree, "HTTPConnectionPool"),
        ("httpsPool", cpm, cp_tree, "HTTPSConnectionPool"),
        ("poolManager", pm, pm_tree, "PoolManager"),
        ("proxyManager", pm, pm_tree, "ProxyManager"),
    ]:
        sigs[label] = both(cls + ".__init__", _insp_sig(getattr(mod, cls)), _ast_sig(find_class(tree, cls)))

    return {"fields": fields, "ssl_keywords": ssl_kw, "blocksize": blocksize, "port_by_scheme": pbs,
            "key_schemes": key_schemes, "pool_schemes": pool_schemes,
            "signatures": {k: {"names": v[0], "var_kw": v[1]} for k, v in sigs.items()}}


def generate(facts):
    pk = read_facts()
    fields, ssl_kw, blocksize, pbs = pk["fields"], pk["ssl_keywords"], pk["blocksize"], pk["port_by_scheme"]
    key_schemes, pool_schemes = pk["key_schemes"], pk["pool_schemes"]
    sigs = {k: (v["names"], v["var_kw"]) for k, v in pk["signatures"].items()}
    L = []
    L.append("/-- `PoolKey._fields` in declaration order: " + " ".join(fields) + " -/")
    L.append("def poolKeyFields : List Str := " + strlist(fields))
    L.append("/-- `SSL_KEYWORDS`: " + " ".join(ssl_kw) + " -/")
    L.append("def sslKeywords : List Str := " + strlist(ssl_kw))
    L.append(f"def defaultBlocksize : Nat := {int(blocksize)}")
    L.append("/-- `port_by_scheme`: " + " ".join(f"{k}={v}" for k, v in pbs.items()) + " -/")
    L.append("def portByScheme : List (Str × Nat) := [" + ", ".join(f"({cp(k)}, {int(v)})" for k, v in pbs.items()) + "]")
    L.append("/-- keys of `key_fn_by_scheme`: " + " ".join(key_schemes) + " -/")
    L.append("def keyFnSchemes : List Str := " + strlist(key_schemes))
    L.append("/-- keys of `pool_classes_by_scheme`: " + " ".join(pool_schemes) + " -/")
    L.append("def poolClassSchemes : List Str := " + strlist(pool_schemes))
    for label, (names, var) in sigs.items():
        L.append(f"/-- named parameters of `{label}.__init__`: " + " ".join(names) + (" **kw" if var else "") + " -/")
        L.append(f"def {label}Keywords : List Str := " + strlist(names))
        L.append(f"def {label}VarKw : Bool := {'true' if var else 'false'}")
    L.append("/-- every keyword a connection constructor accepts -/")
    L.append("def connCtorKeywords : List Str := httpConnKeywords ++ httpsConnKeywords")
    L.append("/-- every keyword a pool constructor names (both also take `**conn_kw`, handed to the connection) -/")
    L.append("def poolCtorKeywords : List Str := httpPoolKeywords ++ httpsPoolKeywords")
    facts["poolkey"] = pk
    return write_if_changed("PoolKey", "\n".join(L) + "\n")
