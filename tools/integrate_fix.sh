#!/bin/bash
# tools/integrate_fix.sh <bundle-name> <Cxx> [Cyy ...]
# Integrates a fixer bundle /var/tmp/fix-<name>/ {repo.patch, message.txt, verif/}: one "fix:" commit in
# /repo, the bundle's files copied over /verif, findings marked fixed with the commit hash, then the quick
# checks of the listed properties are run (nothing is committed in /verif: review, then commit).
set -eu
B=/var/tmp/fix-$1; shift
git -C /repo apply --check $B/repo.patch
git -C /repo apply $B/repo.patch
git -C /repo add -A src
git -C /repo commit -q -F $B/message.txt
H=$(git -C /repo rev-parse --short HEAD)
echo "repo commit $H: $(head -1 $B/message.txt)"
cp -a $B/verif/. /verif/
cd /verif
for p in "$@"; do [ -f known_findings/$p.json ] && python3 tools/findings_fix.py $p $H || true; done
for p in "$@"; do ./check $p --tier quick 2>&1 | grep -E "^\[|VIOLATION|HARNESS|ERROR" ; done
/venv/bin/python -m tools.pins --update   # the repaired source is the new reference for the source pins
