#!/bin/bash
# tools/try_mutant.sh <mutant worktree with patch.diff/demo.py/meta.json> <Cxx> <seeded-id> [tier]
# Confirms the mutant (baseline passes, demo fails with / passes without), runs ./check against it,
# stores it under /verif/seeded/<seeded-id>/ with the results.
set -u
M="$1"; P="$2"; ID="$3"; TIER="${4:-quick}"
V=/verif
W=/var/tmp/wt/try-$ID
mkdir -p $V/seeded/$ID
cp "$M/patch.diff" "$M/demo.py" $V/seeded/$ID/ 2>/dev/null
cp "$M/meta.json" $V/seeded/$ID/agent_meta.json 2>/dev/null
$V/tools/wt add $W >/dev/null 2>&1
cd $W
PYTHONPATH=$W/src /venv/bin/python $V/seeded/$ID/demo.py >/dev/null 2>&1; clean_rc=$?
if ! git apply $V/seeded/$ID/patch.diff; then echo "patch does not apply"; $V/tools/wt rm $W; exit 3; fi
PYTHONPATH=$W/src /venv/bin/python $V/seeded/$ID/demo.py >/dev/null 2>&1; mut_rc=$?
if [ -n "${SKIP_BASELINE:-}" ]; then base_out="not re-run here (agent reported: $SKIP_BASELINE)"; else base_out=$($V/tools/baseline_check.py $W | head -1); fi
cd $V
full_out=$(tools/wt run $W ./check $P --tier $TIER 2>&1)
check_out=$(echo "$full_out" | grep -E "VIOLATION|^\[$P\]|HARNESS" | head -8)
detected=no; echo "$full_out" | grep -q "^VIOLATION" && detected=yes
$V/tools/wt rm $W >/dev/null 2>&1
# regenerate facts for the real repo again
/venv/bin/python -m tools.extract_facts >/dev/null 2>&1
python3 - "$ID" "$P" "$clean_rc" "$mut_rc" "$base_out" "$detected" "$TIER" <<PY
import json,sys,os
ID,P,c,m,b,d,t=sys.argv[1:8]
p=f"/verif/seeded/{ID}/meta.json"
am={}
try: am=json.load(open(f"/verif/seeded/{ID}/agent_meta.json"))
except Exception: pass
meta={"id":ID,"property":P,"summary":am.get("summary"),"needs":am.get("needs"),"files":am.get("files"),
 "confirmed":{"demo_rc_clean":int(c),"demo_rc_mutated":int(m),"baseline":b},
 "ran":[f"tools/wt run <worktree+patch> ./check {P} --tier {t}"],"detected_by_check":d=="yes","tier":t}
old={}
if os.path.exists(p):
    try: old=json.load(open(p))
    except Exception: pass
hist=old.get("history",[])
hist.append({"tier":t,"detected":d=="yes"})
meta["history"]=hist
json.dump(meta,open(p,"w"),indent=1)
print(json.dumps(meta["confirmed"]), "detected:",d)
PY
echo "$check_out"
