#!/usr/bin/env python3
"""tools/findings_fix.py <Cxx> <commit> [signature ...] — mark findings of known_findings/Cxx.json as fixed by
the given /repo commit (all entries still carrying the coordinator placeholder when no signature is given) and
add the record line `fixed: property=<id> <commit> <what failed>` the interface asks for."""
import json, sys, os
V = os.path.dirname(os.path.dirname(os.path.abspath(__file__)))
pid, commit, sigs = sys.argv[1], sys.argv[2], set(sys.argv[3:])
p = os.path.join(V, "known_findings", pid + ".json")
d = json.load(open(p))
for f in d["findings"]:
    hit = f["signature"] in sigs if sigs else (f.get("status") == "fixed" and "coordinator" in str(f.get("commit", "")))
    if hit or (f.get("status") == "fixed" and f.get("commit") == commit):
        f["status"] = "fixed"
        f["commit"] = commit
        f["record"] = f"fixed: property={pid} {commit} {f['what']}"
json.dump(d, open(p, "w"), indent=1, ensure_ascii=False)
print(sum(1 for f in d["findings"] if f.get("commit") == commit), "entries marked fixed by", commit)
