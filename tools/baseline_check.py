#!/venv/bin/python
"""tools/baseline_check.py [repo_dir]  — run the pinned baseline in repo_dir (default /repo) and
report every stable_pass test of /root/.vp/BASELINE.json that does not pass.  Exit 0 iff none."""
import json, os, subprocess, sys, tempfile, xml.etree.ElementTree as ET

def main():
    repo = os.path.abspath(sys.argv[1]) if len(sys.argv) > 1 else "/repo"
    base = json.load(open("/root/.vp/BASELINE.json"))
    with tempfile.TemporaryDirectory(dir="/var/tmp") as td:
        xml = os.path.join(td, "r.xml")
        env = dict(os.environ, PYTHONPATH=os.path.join(repo, "src"))
        p = subprocess.run(["/venv/bin/python", "-m", "pytest", "-ra", "-q", "-p", "no:cacheprovider", "--timeout=900",
                            "--continue-on-collection-errors", f"--junitxml={xml}"], cwd=repo, env=env,
                           stdout=subprocess.PIPE, stderr=subprocess.STDOUT)
        passed = set()
        for tc in ET.parse(xml).getroot().iter("testcase"):
            if not any(c.tag in ("failure", "error", "skipped") for c in tc):
                passed.add(f"{tc.get('classname')}::{tc.get('name')}")
    missing = [t for t in base["stable_pass"] if t not in passed and t != "::"]
    print(f"stable_pass={len(base['stable_pass'])} passed_now={len(passed)} missing={len(missing)}")
    for m in missing[:40]:
        print("  NOT PASSING:", m)
    return 1 if missing else 0

if __name__ == "__main__":
    sys.exit(main())
