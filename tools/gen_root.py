"""Regenerates lean/U3.lean (imports every module under lean/U3) and lean/Main.lean (dispatch to
every driver under lean/U3/Drive that carries a `-- driver: <name>` line).  Write-if-changed."""
import os, re
VERIF = os.path.dirname(os.path.dirname(os.path.abspath(__file__)))
LEAN = os.path.join(VERIF, "lean")

def _write(path, text):
    old = open(path).read() if os.path.exists(path) else None
    if old != text:
        open(path, "w").write(text)
        return True
    return False

def main():
    mods, drivers = [], []
    for root, _, fs in os.walk(os.path.join(LEAN, "U3")):
        for f in sorted(fs):
            if f.endswith(".lean"):
                rel = os.path.relpath(os.path.join(root, f), LEAN)[:-5].replace(os.sep, ".")
                mods.append(rel)
                if rel.startswith("U3.Drive."):
                    m = re.search(r"^-- driver: (\S+)", open(os.path.join(root, f)).read(), re.M)
                    if m:
                        drivers.append((m.group(1), rel))
    mods.sort(); drivers.sort()
    c1 = _write(os.path.join(LEAN, "U3.lean"), "".join(f"import {m}\n" for m in mods))
    main_src = "".join(f"import {rel}\n" for _, rel in drivers)
    main_src += "def main (args : List String) : IO UInt32 := do\n  match args with\n"
    for name, rel in drivers:
        main_src += f"  | [\"{name}\"] => {rel}.main; return 0\n"
    main_src += "  | _ => IO.eprintln \"usage: u3model <model>\"; return 2\n"
    c2 = _write(os.path.join(LEAN, "Main.lean"), main_src)
    return c1 or c2

if __name__ == "__main__":
    print(main())
