"""Regenerates, from the files present (write-if-changed):
  lean/U3.lean            imports every module under lean/U3
  lean/Mains/<drv>.lean   one tiny root per driver file under lean/U3/Drive carrying `-- driver: <drv>`
  lean/lakefile.toml      one `lean_exe` `u3-<drv>` per driver
One executable per driver, so that a property's check builds (and can be broken by) only the
models it uses."""
import os, re
VERIF = os.path.dirname(os.path.dirname(os.path.abspath(__file__)))
LEAN = os.path.join(VERIF, "lean")

def _write(path, text):
    old = open(path).read() if os.path.exists(path) else None
    if old != text:
        os.makedirs(os.path.dirname(path), exist_ok=True)
        open(path, "w").write(text)
        return True
    return False

def drivers():
    out = []
    d = os.path.join(LEAN, "U3", "Drive")
    for f in sorted(os.listdir(d)) if os.path.isdir(d) else []:
        if f.endswith(".lean"):
            m = re.search(r"^-- driver: (\S+)", open(os.path.join(d, f)).read(), re.M)
            if m:
                out.append((m.group(1), "U3.Drive." + f[:-5]))
    return sorted(out)

def main():
    mods = []
    for root, _, fs in os.walk(os.path.join(LEAN, "U3")):
        for f in sorted(fs):
            if f.endswith(".lean"):
                mods.append(os.path.relpath(os.path.join(root, f), LEAN)[:-5].replace(os.sep, "."))
    mods.sort()
    ch = _write(os.path.join(LEAN, "U3.lean"), "".join(f"import {m}\n" for m in mods))
    drv = drivers()
    lake = 'name = "U3"\nversion = "0.1.0"\ndefaultTargets = ["U3"]\n\n[[lean_lib]]\nname = "U3"\n'
    keep = set()
    for name, mod in drv:
        fn = "M_" + re.sub(r"\W", "_", name)
        keep.add(fn + ".lean")
        ch |= _write(os.path.join(LEAN, "Mains", fn + ".lean"),
                     f"import {mod}\ndef main : IO UInt32 := do\n  {mod}.main\n  return 0\n")
        lake += f'\n[[lean_exe]]\nname = "u3-{name}"\nroot = "Mains.{fn}"\n'
    md = os.path.join(LEAN, "Mains")
    if os.path.isdir(md):
        for f in os.listdir(md):
            if f.endswith(".lean") and f not in keep:
                os.unlink(os.path.join(md, f)); ch = True
    ch |= _write(os.path.join(LEAN, "lakefile.toml"), lake)
    old_main = os.path.join(LEAN, "Main.lean")
    if os.path.exists(old_main):
        os.unlink(old_main); ch = True
    return ch

if __name__ == "__main__":
    print(main())
