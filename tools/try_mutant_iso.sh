#!/bin/bash
# tools/try_mutant_iso.sh <mutant dir with patch.diff/demo.py/meta.json> <Cxx> <seeded-id> [tier]
# Like try_mutant.sh, but runs the check in a private copy of /verif (so that several mutants can be
# tried at once and /verif/lean/U3/Gen keeps the facts of the real /repo); only seeded/<id>/ is copied back.
set -u
M="$1"; P="$2"; ID="$3"; TIER="${4:-quick}"
C=/var/tmp/vm-$ID
rm -rf $C; cp -a /verif $C
sed -i "s#^V=/verif#V=$C#; s#/verif/seeded#$C/seeded#g" $C/tools/try_mutant.sh
( cd $C && bash tools/try_mutant.sh "$M" "$P" "$ID" "$TIER" ) 2>&1 | tee /var/tmp/runs/mut-$ID.log
mkdir -p /verif/seeded/$ID
cp $C/seeded/$ID/* /verif/seeded/$ID/
mkdir -p /var/tmp/mutreplay/$ID; cp $C/out/replay/$P-* /var/tmp/mutreplay/$ID/ 2>/dev/null
rm -rf $C
