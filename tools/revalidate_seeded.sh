#!/bin/bash
# tools/revalidate_seeded.sh <Cxx> [...] : re-run the check named in each seeded/<id>/meta.json (its own property's,
# or the one in "detected_by") against a worktree of /repo HEAD with seeded/<id>/patch.diff applied, from a private
# copy of the committed /verif.  Prints one line per seeded change; writes nothing into /verif.
set -u
C=/var/tmp/vm-reval-$$
rm -rf $C; cp -a /verif $C; cd $C
for P in "$@"; do
  for d in /verif/seeded/$P-m*/; do
    id=$(basename $d)
    chk=$(jq -r '(.detected_by // "") | capture("check (?<c>C[0-9]+)").c // empty' $d/meta.json 2>/dev/null)
    [ -z "$chk" ] && chk=$P
    W=/var/tmp/wt/reval-$id
    tools/wt add $W >/dev/null 2>&1
    if ! git -C $W apply $d/patch.diff 2>/dev/null; then echo "$id: PATCH DOES NOT APPLY"; tools/wt rm $W >/dev/null 2>&1; continue; fi
    out=$(tools/wt run $W ./check $chk --tier quick 2>&1)
    if echo "$out" | grep -q "^VIOLATION"; then r="caught"; else r="MISSED"; fi
    echo "$id: $r by ./check $chk ($(echo "$out" | grep "^\[$chk\]" | sed 's/.*wall=//'))"
    tools/wt rm $W >/dev/null 2>&1
  done
done
/venv/bin/python -m tools.extract_facts >/dev/null 2>&1
cd /; rm -rf $C
