#!/bin/bash
# tools/integrate_multi.sh <bundle-name> : one "fix:" commit in /repo per repo-<x>.patch / message-<x>.txt of
# /var/tmp/fix-<name>/, then the bundle's verif/ tree is copied over /verif.  Prints "<letter> <commit>" lines.
set -eu
B=/var/tmp/fix-$1
for p in $B/repo-?.patch; do
  x=$(basename $p .patch); x=${x#repo-}
  git -C /repo apply --recount $p || git -C /repo apply --3way $p
  git -C /repo add -A src
  git -C /repo commit -q -F $B/message-$x.txt
  echo "$x $(git -C /repo rev-parse --short HEAD) $(head -1 $B/message-$x.txt)"
done
cp -a $B/verif/. /verif/
/venv/bin/python -m tools.pins --update   # the repaired source is the new reference for the source pins
