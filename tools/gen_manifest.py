"""Writes MANIFEST.json from the property modules that exist (harness/props/cXX.py + lean/U3/Props/CXX.lean)."""
import importlib, json, os, sys
VERIF = os.path.dirname(os.path.dirname(os.path.abspath(__file__)))
sys.path.insert(0, VERIF)
BASE = json.load(open("/root/.vp/BASELINE.json"))["cmd"] if os.path.exists("/root/.vp/BASELINE.json") else "cd /repo && /venv/bin/python -m pytest -q"
PENDING = "check not built yet (planned at level proof, see DESIGN.md §6)"

def main():
    checks, na = [], []
    for i in range(1, 21):
        pid = f"C{i:02d}"
        mod = os.path.join(VERIF, "harness", "props", pid.lower() + ".py")
        lean = os.path.join(VERIF, "lean", "U3", "Props", pid + ".lean")
        if os.path.exists(mod) and os.path.exists(lean):
            p = importlib.import_module(f"harness.props.{pid.lower()}").PROP
            if getattr(p, "claimed", True):
                checks.append({
                    "property_id": pid,
                    "quick_cmd": f"./check {pid} --tier quick",
                    "thorough_cmd": f"./check {pid} --tier thorough",
                    "evidence_file": f"evidence/{pid}.json",
                    "replay_cmd_template": f"./check {pid} --replay {{path}}",
                    "engine": "lean4-model+correspondence",
                    "level_claimed": {"category": "proof", "text": getattr(p, "level_text", p.rule), "design_ref": f"DESIGN.md §6 {pid}"},
                    "level_note": getattr(p, "level_note", "; ".join(p.assumptions)),
                    "technique": getattr(p, "technique", "Lean 4 theorems about a hand-written executable model + differential correspondence with the implementation"),
                })
                continue
            na.append({"property_id": pid, "reason": getattr(p, "na_reason", PENDING)})
        else:
            na.append({"property_id": pid, "reason": PENDING})
    m = {
        "version": 1,
        "setup_cmd": "./check --setup",
        "hooks": {"guard": "URLLIB3_VERIF", "enable": "no source hooks are needed: the harness observes urllib3 through its public extension points (ConnectionCls, QueueCls, container.lock) and by patching module attributes inside the harness process only",
                  "baseline_off_cmd": BASE, "source_commits": [], "add_only": True},
        "engines": [{"name": "lean4-model+correspondence", "path": "lean/ + harness/", "serves_properties": [c["property_id"] for c in checks],
                     "kind_free_text": "Lean 4 theorems over hand-written executable models (lean/U3), tied to /repo by a line-protocol correspondence run (harness/) and by facts regenerated from the source (tools/extract_facts.py)"}],
        "checks": checks,
        "not_applicable": na,
        "notes": "See DESIGN.md. Every check: regenerate facts from /repo/src -> lake build the property's theorems -> #print axioms audit -> corpus -> correspondence model vs implementation -> implementation-side oracle -> verdict.",
    }
    json.dump(m, open(os.path.join(VERIF, "MANIFEST.json"), "w"), indent=1)
    print(f"MANIFEST.json: {len(checks)} checks, {len(na)} not claimed")

if __name__ == "__main__":
    main()
