#!/usr/bin/env python3
"""Source pins: a hash of the AST of every file a property is anchored in (properties.jsonl `anchors.files`).
`python -m tools.pins --update` records the hashes of the current /repo in pins.json (run after every commit to
/repo).  The runner asks `changed_for(pid)`: when an anchored file differs from its pin — somebody edited the
code the property is about — the check runs its failing-input search on the enlarged (thorough-tier) generator
in addition to the normal run.  A changed pin is never a violation by itself and never an alarm."""
import ast, hashlib, json, os, sys
V = os.path.dirname(os.path.dirname(os.path.abspath(__file__)))
REPO = os.environ.get("U3_REPO", "/repo")
PINS = os.path.join(V, "pins.json")


def anchors():
    out = {}
    for line in open(os.path.join(V, "properties.jsonl")):
        line = line.strip()
        if line:
            d = json.loads(line)
            out[d["id"]] = list(d.get("anchors", {}).get("files", []))
    return out


def file_hash(rel, repo=None):
    path = os.path.join(repo or REPO, rel)
    try:
        src = open(path, encoding="utf-8").read()
    except OSError:
        return "<missing>"
    try:
        return hashlib.sha1(ast.dump(ast.parse(src), annotate_fields=False).encode()).hexdigest()
    except SyntaxError:
        return "<syntax-error>"


def current(repo=None):
    files = sorted({f for fs in anchors().values() for f in fs})
    return {f: file_hash(f, repo) for f in files}


def changed_for(pid, repo=None):
    """anchored files of `pid` whose AST differs from the recorded pin (empty list when pins.json is absent)"""
    if not os.path.exists(PINS):
        return []
    pinned = json.load(open(PINS))
    return sorted(f for f in anchors().get(pid, []) if pinned.get(f) != file_hash(f, repo))


if __name__ == "__main__":
    if "--update" in sys.argv:
        json.dump(current(), open(PINS, "w"), indent=1, sort_keys=True)
        print("pins.json updated:", len(current()), "files")
    else:
        for pid in sorted(anchors()):
            ch = changed_for(pid)
            if ch:
                print(pid, ch)
