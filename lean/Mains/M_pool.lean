import U3.Drive.Pool
def main : IO UInt32 := do
  U3.Drive.Pool.main
  return 0
