import U3.Drive.Url
def main : IO UInt32 := do
  U3.Drive.Url.main
  return 0
