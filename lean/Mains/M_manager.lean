import U3.Drive.Manager
def main : IO UInt32 := do
  U3.Drive.Manager.main
  return 0
