import U3.Drive.Headers
def main : IO UInt32 := do
  U3.Drive.Headers.main
  return 0
