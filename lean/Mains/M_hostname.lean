import U3.Drive.Hostname
def main : IO UInt32 := do
  U3.Drive.Hostname.main
  return 0
