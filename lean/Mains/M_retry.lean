import U3.Drive.Retry
def main : IO UInt32 := do
  U3.Drive.Retry.main
  return 0
