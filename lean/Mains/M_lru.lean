import U3.Drive.Lru
def main : IO UInt32 := do
  U3.Drive.Lru.main
  return 0
