import U3.Drive.Route
def main : IO UInt32 := do
  U3.Drive.Route.main
  return 0
