import U3.Drive.Tls
def main : IO UInt32 := do
  U3.Drive.Tls.main
  return 0
