import U3.Drive.Resp
def main : IO UInt32 := do
  U3.Drive.Resp.main
  return 0
