import U3.Drive.PoolConc
def main : IO UInt32 := do
  U3.Drive.PoolConc.main
  return 0
