import U3.Drive.Multipart
def main : IO UInt32 := do
  U3.Drive.Multipart.main
  return 0
