import U3.Drive.Timeout
def main : IO UInt32 := do
  U3.Drive.Timeout.main
  return 0
