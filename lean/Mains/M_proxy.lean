import U3.Drive.Proxy
def main : IO UInt32 := do
  U3.Drive.Proxy.main
  return 0
