import U3.Drive.PoolKey
def main : IO UInt32 := do
  U3.Drive.PoolKey.main
  return 0
