import U3.Drive.Wire
def main : IO UInt32 := do
  U3.Drive.Wire.main
  return 0
