import U3.Drive.Headers
import U3.Drive.Hostname
import U3.Drive.Lru
import U3.Drive.Multipart
import U3.Drive.PoolKey
import U3.Drive.Retry
import U3.Drive.Timeout
import U3.Drive.Url
import U3.Drive.Wire
def main (args : List String) : IO UInt32 := do
  match args with
  | ["hd"] => U3.Drive.Headers.main; return 0
  | ["hostname"] => U3.Drive.Hostname.main; return 0
  | ["lru"] => U3.Drive.Lru.main; return 0
  | ["multipart"] => U3.Drive.Multipart.main; return 0
  | ["poolkey"] => U3.Drive.PoolKey.main; return 0
  | ["retry"] => U3.Drive.Retry.main; return 0
  | ["timeout"] => U3.Drive.Timeout.main; return 0
  | ["url"] => U3.Drive.Url.main; return 0
  | ["wire"] => U3.Drive.Wire.main; return 0
  | _ => IO.eprintln "usage: u3model <model>"; return 2
