import U3.Drive.Headers
import U3.Drive.Multipart
def main (args : List String) : IO UInt32 := do
  match args with
  | ["hd"] => U3.Drive.Headers.main; return 0
  | ["multipart"] => U3.Drive.Multipart.main; return 0
  | _ => IO.eprintln "usage: u3model <model>"; return 2
