import U3.Base.Proto
import U3.Base.Str
import U3.Drive.Headers
import U3.Gen.Collections
import U3.Model.Headers
import U3.Props.C16
