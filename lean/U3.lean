import U3.Base.Str
import U3.Base.Proto
import U3.Model.Headers
