import U3.Lemmas.ManagerOrigin
/-! Helper lemmas for C05 / C06: the header carriers through the redirect loop (`strip`, the 303
rewrite, the proxy merges). -/
set_option linter.unusedSimpArgs false
namespace U3.Manager
open U3 U3.Headers U3.Retry

/-! ## well-formed carriers -/

/-- an `HTTPHeaderDict` satisfies its representation invariant (C16: every operation preserves it);
a plain `dict` needs nothing -/
def Hdrs.WF : Hdrs → Prop
  | .dict _ => True
  | .hd h => Inv h

theorem Hdrs.copy_eq (h : Hdrs) (hw : h.WF) : h.copy = h := by
  cases h with
  | dict ps => rfl
  | hd x => simp only [Hdrs.copy]; rw [Headers.copy_eq x hw]

theorem Hdrs.items_names (h : Hdrs) : ∀ l ∈ h.items, l.1 ∈ h.keys := by
  cases h with
  | dict ps => intro l hl; exact List.mem_map_of_mem hl
  | hd x =>
    intro l hl
    simp only [Hdrs.items, iteritems, List.mem_flatMap, List.mem_map] at hl
    obtain ⟨e, he, v, _, hv⟩ := hl
    subst hv
    exact List.mem_map_of_mem he

theorem Hdrs.mappingPairs_names (h : Hdrs) : h.mappingPairs.map (·.1) = h.keys := by
  cases h with
  | dict ps => rfl
  | hd x => simp [Hdrs.mappingPairs, Hdrs.keys, itermerged, iterKeys]

/-! ## `discard` is a filter -/

theorem discard_eq_filter (h : HD) (k : Str) : Headers.discard h k = h.filter (fun e => !(e.key == lower k)) := by
  unfold Headers.discard delItem
  split
  · rfl
  · rename_i hk
    simp only [Option.getD_none]
    symm
    rw [List.filter_eq_self]
    intro e he
    simp only [hasKey, List.any_eq_true, not_exists, not_and, Bool.not_eq_true] at hk
    simpa using hk e he

theorem foldl_discard (ks : List Str) (h : HD) :
    ks.foldl Headers.discard h = h.filter (fun e => !(ks.any (fun k => e.key == lower k))) := by
  induction ks generalizing h with
  | nil => exact (List.filter_eq_self.2 (fun _ _ => by simp)).symm
  | cons k t ih =>
    simp only [List.foldl_cons, ih, discard_eq_filter, List.filter_filter, List.any_cons]
    apply List.filter_congr
    intro e _
    simp [Bool.and_comm]

/-! ## the strip loop -/

theorem strip_fold_dict (R : List Str) (ks : List Str) (acc : List (Str × Str)) :
    ks.foldl (fun (a : Hdrs) k => if R.contains (lower k) then a.popD k else a) (.dict acc)
      = .dict (acc.filter (fun p => !(ks.any (fun k => R.contains (lower k) && p.1 == k)))) := by
  induction ks generalizing acc with
  | nil =>
    simp only [List.foldl_nil, List.any_nil, Bool.not_false]
    congr 1
    exact (List.filter_eq_self.2 (fun _ _ => rfl)).symm
  | cons k t ih =>
    rw [List.foldl_cons]
    by_cases hk : R.contains (lower k) = true
    · rw [if_pos hk]
      have hpop : (Hdrs.dict acc).popD k = .dict (acc.filter (fun p => !(p.1 == k))) := rfl
      rw [hpop, ih, List.filter_filter]
      congr 1
      apply List.filter_congr
      intro p _
      have hk' : lower k ∈ R := by simpa using hk
      simp [hk', Bool.and_comm]
    · rw [if_neg hk, ih]
      congr 1
      apply List.filter_congr
      intro p _
      have hk' : lower k ∉ R := by simpa using hk
      simp [hk']

theorem strip_fold_hd (R : List Str) (ks : List Str) (acc : HD) :
    ks.foldl (fun (a : Hdrs) k => if R.contains (lower k) then a.popD k else a) (.hd acc)
      = .hd (acc.filter (fun e => !(ks.any (fun k => R.contains (lower k) && e.key == lower k)))) := by
  induction ks generalizing acc with
  | nil =>
    simp only [List.foldl_nil, List.any_nil, Bool.not_false]
    congr 1
    exact (List.filter_eq_self.2 (fun _ _ => rfl)).symm
  | cons k t ih =>
    rw [List.foldl_cons]
    by_cases hk : R.contains (lower k) = true
    · rw [if_pos hk]
      have hpop : (Hdrs.hd acc).popD k = .hd (acc.filter (fun e => !(e.key == lower k))) := by
        simp only [Hdrs.popD, discard_eq_filter]
      rw [hpop, ih, List.filter_filter]
      congr 1
      apply List.filter_congr
      intro e _
      have hk' : lower k ∈ R := by simpa using hk
      simp [hk', Bool.and_comm]
    · rw [if_neg hk, ih]
      congr 1
      apply List.filter_congr
      intro e _
      have hk' : lower k ∉ R := by simpa using hk
      simp [hk']

/-- the strip loop on a plain dict removes exactly the items whose lower-cased key is in the set -/
theorem strip_dict (R : List Str) (ps : List (Str × Str)) :
    strip R (.dict ps) = .dict (ps.filter (fun p => !R.contains (lower p.1))) := by
  unfold strip
  simp only [Hdrs.keys, Hdrs.copy]
  rw [strip_fold_dict]
  congr 1
  apply List.filter_congr
  intro p hp
  congr 1
  rw [Bool.eq_iff_iff]
  simp only [List.any_eq_true, List.mem_map, Bool.and_eq_true, beq_iff_eq]
  constructor
  · rintro ⟨k, _, hk, hpk⟩; rw [hpk]; exact hk
  · intro h; exact ⟨p.1, ⟨p, hp, rfl⟩, h, rfl⟩

/-- … and on an `HTTPHeaderDict` exactly the fields whose lower-cased name is in the set -/
theorem strip_hd (R : List Str) (h : HD) (hinv : Inv h) :
    strip R (.hd h) = .hd (h.filter (fun e => !R.contains (lower e.name))) := by
  unfold strip
  simp only [Hdrs.keys, Hdrs.copy, Headers.copy_eq h hinv]
  rw [strip_fold_hd]
  congr 1
  apply List.filter_congr
  intro e he
  congr 1
  rw [Bool.eq_iff_iff]
  have hkey := (hinv.2 e he).1
  simp only [List.any_eq_true, iterKeys, List.mem_map, Bool.and_eq_true, beq_iff_eq]
  constructor
  · rintro ⟨k, _, hk, hek⟩; rw [← hkey, hek]; exact hk
  · intro h'; exact ⟨e.name, ⟨e, he, rfl⟩, h', hkey⟩

theorem strip_wf (R : List Str) (h : Hdrs) (hw : h.WF) : (strip R h).WF := by
  cases h with
  | dict ps => rw [strip_dict]; trivial
  | hd x => rw [strip_hd R x hw]; exact filter_inv x _ hw

theorem strip_keys (R : List Str) (h : Hdrs) (hw : h.WF) :
    (strip R h).keys = h.keys.filter (fun k => !R.contains (lower k)) := by
  cases h with
  | dict ps => rw [strip_dict]; simp only [Hdrs.keys, List.filter_map]; rfl
  | hd x => rw [strip_hd R x hw]; simp only [Hdrs.keys, iterKeys, List.filter_map]; rfl

theorem iteritems_filter_name (h : HD) (q : Str → Bool) :
    iteritems (h.filter (fun e => q e.name)) = (iteritems h).filter (fun l => q l.1) := by
  induction h with
  | nil => simp
  | cons e t ih =>
    rw [iteritems_cons, List.filter_append, ← ih]
    by_cases hq : q e.name = true
    · have h1 : (e :: t).filter (fun e => q e.name) = e :: t.filter (fun e => q e.name) := by
        simp [List.filter_cons, hq]
      have h2 : (lines e).filter (fun l => q l.1) = lines e := by
        rw [List.filter_eq_self]; intro l hl
        simp only [lines, List.mem_map] at hl
        obtain ⟨v, _, hv⟩ := hl; subst hv; exact hq
      rw [h1, iteritems_cons, h2]
    · have h1 : (e :: t).filter (fun e => q e.name) = t.filter (fun e => q e.name) := by
        simp [List.filter_cons, hq]
      have h2 : (lines e).filter (fun l => q l.1) = [] := by
        rw [List.filter_eq_nil_iff]; intro l hl
        simp only [lines, List.mem_map] at hl
        obtain ⟨v, _, hv⟩ := hl; subst hv; exact hq
      rw [h1, h2, List.nil_append]

/-- the header lines after the strip loop: the lines before it minus those named in the set, in order -/
theorem strip_items (R : List Str) (h : Hdrs) (hw : h.WF) :
    (strip R h).items = h.items.filter (fun l => !R.contains (lower l.1)) := by
  cases h with
  | dict ps => rw [strip_dict]; rfl
  | hd x =>
    rw [strip_hd R x hw]
    exact iteritems_filter_name x (fun n => !R.contains (lower n))

end U3.Manager

namespace U3.Manager
open U3 U3.Headers U3.Retry

/-! ## the 303 rewrite: `HTTPHeaderDict(headers)._prepare_for_method_change()` -/

theorem extend_names (ps : List (Str × Str)) (h : HD) :
    ∀ e ∈ extend h ps, e.name ∈ h.map (·.name) ∨ e.name ∈ ps.map (·.1) := by
  unfold extend
  induction ps generalizing h with
  | nil => intro e he; exact Or.inl (List.mem_map_of_mem he)
  | cons p t ih =>
    intro e he
    simp only [List.foldl_cons] at he
    rcases ih _ e he with h1 | h1
    · simp only [List.mem_map] at h1
      obtain ⟨e1, he1, hn⟩ := h1
      rcases add_mem h p.1 p.2 false e1 he1 with h2 | h2 | ⟨e0, h0, _, hn0, _⟩
      · exact Or.inl (by rw [← hn]; exact List.mem_map_of_mem h2)
      · subst h2; right; rw [← hn]; simp
      · exact Or.inl (by rw [← hn, hn0]; exact List.mem_map_of_mem h0)
    · exact Or.inr (List.mem_cons_of_mem _ h1)

theorem Hdrs.toHD_inv (h : Hdrs) (hw : h.WF) : Inv h.toHD := by
  cases h with
  | dict ps => exact extend_inv ps [] inv_nil
  | hd x => simp only [Hdrs.toHD]; rw [Headers.copy_eq x hw]; exact hw

theorem Hdrs.toHD_names (h : Hdrs) (hw : h.WF) : ∀ e ∈ h.toHD, e.name ∈ h.keys := by
  cases h with
  | dict ps =>
    intro e he
    rcases extend_names ps [] e he with h1 | h1
    · simp at h1
    · exact h1
  | hd x =>
    intro e he
    simp only [Hdrs.toHD] at he
    rw [Headers.copy_eq x hw] at he
    exact List.mem_map_of_mem he

theorem methodChange_wf (h : Hdrs) (hw : h.WF) : (methodChange h).WF :=
  pmc_inv _ (h.toHD_inv hw)

/-- after the 303 rewrite every remaining field was there before and none is content-specific -/
theorem methodChange_keys (h : Hdrs) (hw : h.WF) :
    ∀ k ∈ (methodChange h).keys, k ∈ h.keys ∧ lower k ∉ contentSpecific.map lower := by
  intro k hk
  simp only [methodChange, Hdrs.keys, iterKeys, prepareForMethodChange, foldl_discard, List.mem_map,
    List.mem_filter] at hk
  obtain ⟨e, ⟨he, hf⟩, hn⟩ := hk
  subst hn
  refine ⟨h.toHD_names hw e he, ?_⟩
  have hkey := ((h.toHD_inv hw).2 e he).1
  intro hmem
  simp only [List.mem_map] at hmem
  obtain ⟨c, hc, hlc⟩ := hmem
  simp only [Bool.not_eq_true', List.any_eq_false, beq_iff_eq] at hf
  exact hf c hc (by rw [hkey, hlc])

/-! ## merges: `dict.update`, proxy headers -/

theorem dictSet_keys (d : List (Str × Str)) (k v : Str) :
    ∀ x ∈ (dictSet d k v).map (·.1), x ∈ d.map (·.1) ∨ x = k := by
  induction d with
  | nil => intro x hx; simp [dictSet] at hx; exact Or.inr hx
  | cons p t ih =>
    intro x hx
    unfold dictSet at hx
    split at hx
    · rename_i hp
      simp only [List.map_cons, List.mem_cons] at hx ⊢
      rcases hx with hx | hx
      · exact Or.inr hx
      · exact Or.inl (Or.inr hx)
    · simp only [List.map_cons, List.mem_cons] at hx ⊢
      rcases hx with hx | hx
      · exact Or.inl (Or.inl hx)
      · rcases ih x hx with h | h
        · exact Or.inl (Or.inr h)
        · exact Or.inr h

theorem foldl_dictSet_keys (src d : List (Str × Str)) :
    ∀ x ∈ (src.foldl (fun d p => dictSet d p.1 p.2) d).map (·.1), x ∈ d.map (·.1) ∨ x ∈ src.map (·.1) := by
  induction src generalizing d with
  | nil => intro x hx; exact Or.inl hx
  | cons p t ih =>
    intro x hx
    simp only [List.foldl_cons] at hx
    rcases ih _ x hx with h | h
    · rcases dictSet_keys d p.1 p.2 x h with h' | h'
      · exact Or.inl h'
      · right; rw [h']; simp
    · exact Or.inr (List.mem_cons_of_mem _ h)

theorem update_names (src : List (Str × Str)) (h : HD) :
    ∀ e ∈ Headers.update h src, e.name ∈ h.map (·.name) ∨ e.name ∈ src.map (·.1) := by
  unfold Headers.update
  induction src generalizing h with
  | nil => intro e he; exact Or.inl (List.mem_map_of_mem he)
  | cons p t ih =>
    intro e he
    simp only [List.foldl_cons] at he
    rcases ih _ e he with h1 | h1
    · simp only [List.mem_map] at h1
      obtain ⟨e1, he1, hn⟩ := h1
      rcases setItem_mem h p.1 p.2 e1 he1 with h2 | h2
      · exact Or.inl (by rw [← hn]; exact List.mem_map_of_mem h2)
      · subst h2; right; rw [← hn]; simp
    · exact Or.inr (List.mem_cons_of_mem _ h1)

theorem Hdrs.updateDict_keys (h : Hdrs) (src : List (Str × Str)) :
    ∀ k ∈ (h.updateDict src).keys, k ∈ h.keys ∨ k ∈ src.map (·.1) := by
  cases h with
  | dict ps => exact foldl_dictSet_keys src ps
  | hd x =>
    intro k hk
    simp only [Hdrs.updateDict, Hdrs.keys, iterKeys, List.mem_map] at hk
    obtain ⟨e, he, hn⟩ := hk
    rw [← hn]
    exact update_names src x e he

theorem Hdrs.updateDict_wf (h : Hdrs) (src : List (Str × Str)) (hw : h.WF) : (h.updateDict src).WF := by
  cases h with
  | dict ps => trivial
  | hd x => exact update_inv src x hw

theorem Hdrs.updateDict_nil (h : Hdrs) : h.updateDict [] = h := by
  cases h <;> rfl

theorem poolMerge_noproxy (p : Pool) (sch : Option Str) (h : Hdrs) (hp : p.proxy = none) (hw : h.WF) :
    poolMerge p sch h = h := by
  unfold poolMerge
  simp only [hp, requiresTunnel, Bool.false_eq_true, if_false]
  rw [Hdrs.updateDict_nil, h.copy_eq hw]

theorem poolMerge_wf (p : Pool) (sch : Option Str) (h : Hdrs) (hw : h.WF) : (poolMerge p sch h).WF := by
  unfold poolMerge
  split
  · exact hw
  · rw [h.copy_eq hw]; exact h.updateDict_wf _ hw

theorem poolMerge_keys (p : Pool) (sch : Option Str) (h : Hdrs) (hw : h.WF) :
    ∀ k ∈ (poolMerge p sch h).keys, k ∈ h.keys ∨ ∃ px, p.proxy = some px ∧ k ∈ px.headers.map (·.1) := by
  unfold poolMerge
  split
  · intro k hk; exact Or.inl hk
  · intro k hk
    rw [h.copy_eq hw] at hk
    rcases h.updateDict_keys _ k hk with h1 | h1
    · exact Or.inl h1
    · cases hp : p.proxy with
      | none => rw [hp] at h1; simp at h1
      | some px => rw [hp] at h1; exact Or.inr ⟨px, rfl, h1⟩

theorem setProxyHeaders_keys (nl : Option Str) (H : Hdrs) :
    ∀ k ∈ (setProxyHeaders nl (some H)).map (·.1), k = sAccept ∨ k = sHost ∨ k ∈ H.keys := by
  intro k hk
  have hbase : ∀ x ∈ (if truthyStr nl = true then dictSet [(sAccept, sStarStar)] sHost (nl.getD [])
      else [(sAccept, sStarStar)]).map (·.1), x = sAccept ∨ x = sHost := by
    intro x hx
    split at hx
    · rcases dictSet_keys _ _ _ x hx with h | h
      · simp at h; exact Or.inl h
      · exact Or.inr h
    · simp at hx; exact Or.inl hx
  unfold setProxyHeaders at hk
  dsimp only at hk
  split at hk
  · rcases foldl_dictSet_keys _ _ k hk with h | h
    · rcases hbase k h with h | h
      · exact Or.inl h
      · exact Or.inr (Or.inl h)
    · rw [Hdrs.mappingPairs_names] at h
      exact Or.inr (Or.inr h)
  · rcases hbase k hk with h | h
    · exact Or.inl h
    · exact Or.inr (Or.inl h)

/-- the names the proxy machinery itself adds to a request -/
def injected (m : Mgr) : List Str :=
  match m.proxy with
  | none => []
  | some px => [sAccept, sHost] ++ px.headers.map (·.1)

theorem mgrHeaders_noproxy (m : Mgr) (u : PUrl) (kw : Kw) (hp : m.proxy = none) :
    mgrHeaders m u kw = kw.headers.getD m.headers := by
  unfold mgrHeaders
  rw [proxyKw_noproxy m u kw hp]

theorem mgrHeaders_wf (m : Mgr) (u : PUrl) (kw : Kw) (hw : (kw.headers.getD m.headers).WF) :
    (mgrHeaders m u kw).WF := by
  unfold mgrHeaders proxyKw
  split
  · split
    · trivial
    · exact hw
  · exact hw

theorem mgrHeaders_keys (m : Mgr) (u : PUrl) (kw : Kw) :
    ∀ k ∈ (mgrHeaders m u kw).keys, k ∈ (kw.headers.getD m.headers).keys ∨ k ∈ injected m := by
  intro k hk
  unfold mgrHeaders proxyKw at hk
  split at hk
  · rename_i px hpx
    split at hk
    · simp only [Option.getD_some, Hdrs.keys] at hk
      rcases setProxyHeaders_keys _ _ k hk with h | h | h
      · right; simp [injected, hpx, h]
      · right; simp [injected, hpx, h]
      · exact Or.inl h
    · exact Or.inl hk
  · exact Or.inl hk

theorem pmConnectionFromHost_proxy {m : Mgr} {host : Option Str} {port : Option Nat} {scheme : Option Str}
    {conn : Pool} (h : pmConnectionFromHost m host port scheme = .ok conn) : conn.proxy = m.proxy := by
  unfold pmConnectionFromHost at h
  split at h
  · cases h
  · dsimp only at h
    repeat' split at h
    all_goals first | (injection h with h; rw [← h]; rfl) | cases h

theorem connectionFromHost_proxy {m : Mgr} {host : Option Str} {port : Option Nat} {scheme : Option Str}
    {conn : Pool} (h : connectionFromHost m host port scheme = .ok conn) : conn.proxy = m.proxy := by
  unfold connectionFromHost at h
  split at h
  · exact pmConnectionFromHost_proxy h
  · split at h <;> exact pmConnectionFromHost_proxy h

/-- the header lines of a manager pass: the caller's mapping (as threaded through the recursion) plus
what the proxy machinery injects -/
theorem MgrPass.headers {W : World} {m : Mgr} {method url : Str} {kw : Kw} {s : Sent}
    (h : MgrPass W m method url kw s) (hw : (kw.headers.getD m.headers).WF) :
    ∀ l ∈ s.headers, l.1 ∈ (kw.headers.getD m.headers).keys ∨ l.1 ∈ injected m := by
  obtain ⟨u, conn, s0, r0, hs, _, hconn, hpa, hs0⟩ := h
  obtain ⟨pu, _, hhs, _, hitems, _⟩ := poolAttempt_ok' hpa
  subst hs0
  intro l hl
  change l ∈ s0.headers at hl
  rw [hitems] at hl
  have hk := hs.items_names l hl
  rw [hhs] at hk
  simp only [Option.getD_some] at hk
  rcases poolMerge_keys conn pu.scheme _ (mgrHeaders_wf m u kw hw) l.1 hk with h1 | ⟨px, hpx, h1⟩
  · exact mgrHeaders_keys m u kw l.1 h1
  · right
    rw [connectionFromHost_proxy hconn] at hpx
    simp [injected, hpx, h1]

theorem MgrPass.headers_noproxy {W : World} {m : Mgr} {method url : Str} {kw : Kw} {s : Sent}
    (h : MgrPass W m method url kw s) (hp : m.proxy = none) (hw : (kw.headers.getD m.headers).WF) :
    s.headers = (kw.headers.getD m.headers).items := by
  obtain ⟨u, conn, s0, r0, hs, _, hconn, hpa, hs0⟩ := h
  obtain ⟨pu, _, hhs, _, hitems, _⟩ := poolAttempt_ok' hpa
  subst hs0
  change s0.headers = _
  rw [hitems, hhs]
  simp only [Option.getD_some]
  rw [poolMerge_noproxy conn pu.scheme _ (by rw [connectionFromHost_proxy hconn]; exact hp)
    (mgrHeaders_wf m u kw hw), mgrHeaders_noproxy m u kw hp]

end U3.Manager

namespace U3.Manager
open U3 U3.Headers U3.Retry

/-! ## the carrier from one pass of the manager to the next -/

theorem rewrite303_hdrs (st : Nat) (method : Str) (body : Option Bytes) (H : Hdrs) :
    (rewrite303 st method body H).2.2
      = if Gen.Redirect.methodRewriteStatuses.contains st then methodChange H else H := by
  unfold rewrite303; split <;> rfl

/-- invariant of the arguments `PoolManager.urlopen` threads through its recursion: the carrier is
well-formed and the strip set of the policy in force is `R` -/
def HdrInv (m : Mgr) (redirect : Bool) (R : List Str) (kw : Kw) : Prop :=
  (kw.headers.getD m.headers).WF ∧ (deriveRetry kw.retries redirect m.retries).removeHeadersOnRedirect = R

/-- what the next pass gets as `headers=` -/
theorem MgrNext.next_headers {W : World} {m : Mgr} {method url : Str} {redirect : Bool} {kw : Kw}
    {log : List Sent} {m' u' : Str} {kw' : Kw} (N : MgrNext W m method url redirect kw log m' u' kw')
    (hw : (kw.headers.getD m.headers).WF) :
    ∃ X, X = (if Gen.Redirect.methodRewriteStatuses.contains N.s.reply.status
          then methodChange (mgrHeaders m N.u kw) else mgrHeaders m N.u kw) ∧ X.WF ∧
      kw'.headers = some (if N.same then X
        else strip (deriveRetry kw.retries redirect m.retries).removeHeadersOnRedirect X) := by
  refine ⟨_, rfl, ?_, ?_⟩
  · split
    · exact methodChange_wf _ (mgrHeaders_wf m N.u kw hw)
    · exact mgrHeaders_wf m N.u kw hw
  · rw [N.headers_eq, rewrite303_hdrs]

theorem MgrNext.hdrInv {W : World} {m : Mgr} {method url : Str} {redirect : Bool} {kw : Kw}
    {log : List Sent} {m' u' : Str} {kw' : Kw} (N : MgrNext W m method url redirect kw log m' u' kw')
    {R : List Str} (hR : R.map lower = R) (h : HdrInv m redirect R kw) : HdrInv m redirect R kw' := by
  obtain ⟨X, _, hX, hk⟩ := N.next_headers h.1
  constructor
  · rw [hk]
    simp only [Option.getD_some]
    split
    · exact hX
    · exact strip_wf _ _ hX
  · rw [N.retries_eq, deriveRetry_retry, (increment_redirect_ok N.incr).2.2.2.2, h.2, hR]

/-- the keys the next pass starts from: a subset of this pass's (proxy-merged) keys; none of the
strip set when the hop was judged cross-host; no content-specific one after a 303 -/
theorem MgrNext.next_keys {W : World} {m : Mgr} {method url : Str} {redirect : Bool} {kw : Kw}
    {log : List Sent} {m' u' : Str} {kw' : Kw} (N : MgrNext W m method url redirect kw log m' u' kw')
    (hw : (kw.headers.getD m.headers).WF) :
    ∀ k ∈ (kw'.headers.getD m.headers).keys,
      (k ∈ (kw.headers.getD m.headers).keys ∨ k ∈ injected m) ∧
      (N.same = false →
        (deriveRetry kw.retries redirect m.retries).removeHeadersOnRedirect.contains (lower k) = false) ∧
      (Gen.Redirect.methodRewriteStatuses.contains N.s.reply.status = true →
        lower k ∉ contentSpecific.map lower) := by
  obtain ⟨X, hXdef, hX, hk⟩ := N.next_headers hw
  intro k hkk
  rw [hk] at hkk
  simp only [Option.getD_some] at hkk
  have hmem : k ∈ X.keys ∧ (N.same = false →
      (deriveRetry kw.retries redirect m.retries).removeHeadersOnRedirect.contains (lower k) = false) := by
    cases hs : N.same with
    | true => rw [hs] at hkk; exact ⟨hkk, fun h => by cases h⟩
    | false =>
      rw [hs] at hkk
      simp only [Bool.false_eq_true, if_false] at hkk
      rw [strip_keys _ _ hX, List.mem_filter] at hkk
      exact ⟨hkk.1, fun _ => by simpa using hkk.2⟩
  refine ⟨?_, hmem.2, ?_⟩
  · have : k ∈ (mgrHeaders m N.u kw).keys := by
      have := hmem.1
      rw [hXdef] at this
      split at this
      · exact (methodChange_keys _ (mgrHeaders_wf m N.u kw hw) k this).1
      · exact this
    exact mgrHeaders_keys m N.u kw k this
  · intro hst
    have := hmem.1
    rw [hXdef, if_pos hst] at this
    exact (methodChange_keys _ (mgrHeaders_wf m N.u kw hw) k this).2

/-- the carrier holds nothing named in `R` except what the proxy machinery injects -/
def Clean (m : Mgr) (R : List Str) (kw : Kw) : Prop :=
  ∀ k ∈ (kw.headers.getD m.headers).keys, R.contains (lower k) = true → k ∈ injected m

theorem MgrNext.clean {W : World} {m : Mgr} {method url : Str} {redirect : Bool} {kw : Kw}
    {log : List Sent} {m' u' : Str} {kw' : Kw} (N : MgrNext W m method url redirect kw log m' u' kw')
    {R : List Str} (hw : (kw.headers.getD m.headers).WF) (h : Clean m R kw) : Clean m R kw' := by
  intro k hk hR
  rcases (N.next_keys hw k hk).1 with h1 | h1
  · exact h k h1 hR
  · exact h1

theorem MgrPass.clean {W : World} {m : Mgr} {method url : Str} {kw : Kw} {s : Sent} {R : List Str}
    (h : MgrPass W m method url kw s) (hw : (kw.headers.getD m.headers).WF) (hc : Clean m R kw) :
    ∀ l ∈ s.headers, R.contains (lower l.1) = true → l.1 ∈ injected m := by
  intro l hl hR
  rcases h.headers hw l hl with h1 | h1
  · exact hc l.1 h1 hR
  · exact h1

/-- a hop that `PoolManager.urlopen` must judge cross-host: the URLs of the two requests name
different origins, the pool consulted is the current origin's own (no forwarding proxy) and the
target names a host at all (it is not a bare path `/…`; a scheme-relative `//host/…` does name one) -/
def Crossing (W : World) (m : Mgr) (a b : Sent) : Prop :=
  ∃ ua ub, W.parse a.url = some ua ∧ W.parse b.url = some ub ∧ urlOrigin ua ≠ urlOrigin ub ∧
    (m.proxy = none ∨ ua.scheme = some sHttps) ∧ pathOnly b.url = false

/-- **chain invariant of the strip loop** (manager level) -/
theorem mgr_stripped (W : World) (m : Mgr) (redirect : Bool) (R : List Str) (hR : R.map lower = R)
    (fuel : Nat) (method url : Str) (kw : Kw) (h0 : HdrInv m redirect R kw)
    (i j : Nat) (a b c : Sent) (hij : i < j)
    (ha : (mgrUrlopen W m fuel method url redirect kw).log[i]? = some a)
    (hb : (mgrUrlopen W m fuel method url redirect kw).log[i + 1]? = some b)
    (hx : Crossing W m a b)
    (hc : (mgrUrlopen W m fuel method url redirect kw).log[j]? = some c) :
    ∀ l ∈ c.headers, R.contains (lower l.1) = true → l.1 ∈ injected m := by
  refine mgr_after W m redirect (fun _ _ kw => HdrInv m redirect R kw)
    (fun _ _ kw => HdrInv m redirect R kw ∧ Clean m R kw) (Crossing W m)
    (fun c => ∀ l ∈ c.headers, R.contains (lower l.1) = true → l.1 ∈ injected m)
    ?_ ?_ ?_ ?_ fuel method url kw h0 i j a b c hij ha hb hx hc
  · intro method url kw log m' u' kw' hi N; exact N.hdrInv hR hi
  · intro method url kw log m' u' kw' hj N; exact ⟨N.hdrInv hR hj.1, N.clean hj.1.1 hj.2⟩
  · intro method url kw log m' u' kw' N b hi hpb hcross
    refine ⟨N.hdrInv hR hi, ?_⟩
    obtain ⟨ua, ub, hua, hub, hne, hown, hrel⟩ := hcross
    change W.parse url = some ua at hua
    rw [hpb.facts.1] at hub hrel
    have hua' : ua = N.u := by rw [N.parse] at hua; injection hua with h; exact h.symm
    subst hua'
    -- the hop was judged cross-host, unless the strip set is empty
    intro k hk hRk
    rcases N.same_eq with ⟨hempty, _⟩ | ⟨lu, hlu, hsame⟩
    · rw [hi.2] at hempty
      have : R = [] := by simpa using hempty
      rw [this] at hRk; simp at hRk
    · have hlu' : lu = ub := by rw [hub] at hlu; injection hlu with h; exact h.symm
      subst hlu'
      have hfalse : N.same = false := by
        rw [hsame]
        cases hh : isSameHost N.conn.id u' lu with
        | false => rfl
        | true =>
          exact absurd (isSameHost_pm (connectionFromHost_own N.connOk hown) hrel hh) (Ne.symm hne)
      have := ((N.next_keys hi.1 k hk).2.1 hfalse)
      rw [hi.2, hRk] at this
      cases this
  · intro method url kw s hj hp; exact hp.clean hj.1.1 hj.2

end U3.Manager

namespace U3.Manager
open U3 U3.Headers U3.Retry

/-! ## one user call -/

/-- every `HTTPHeaderDict` the caller hands in (per request, or as the client's default headers)
satisfies the representation invariant of `HTTPHeaderDict` -/
def CarriersWF (c : Client) (req : Req) : Prop :=
  c.headers.WF ∧ ∀ h, req.headers = some h → h.WF

theorem requestWrap_wf (c : Client) (req : Req) (h : CarriersWF c req) :
    (((requestWrap c req).2).getD c.headers).WF := by
  have hbase : (req.headers.getD c.headers).WF := by
    cases hr : req.headers with
    | none => exact h.1
    | some x => exact h.2 x hr
  unfold requestWrap
  split
  · dsimp only
    split
    · exact hbase
    · exact Hdrs.toHD_inv _ hbase
  · exact hbase

/-- `Retry.__init__` stores the strip set lower-cased -/
theorem init_remove_lower (p : Retry) :
    (Retry.init p).removeHeadersOnRedirect.map lower = (Retry.init p).removeHeadersOnRedirect := by
  unfold Retry.init
  dsimp only
  split <;> simp [Function.comp_def]

theorem run_stripped (W : World) (m : Mgr) (fuel : Nat) (req : Req)
    (hwf : CarriersWF (.manager m) req)
    (hlow : (effective (.manager m) req).removeHeadersOnRedirect.map lower
      = (effective (.manager m) req).removeHeadersOnRedirect)
    (i j : Nat) (a b c : Sent) (hij : i < j)
    (ha : (run W (.manager m) fuel req).log[i]? = some a)
    (hb : (run W (.manager m) fuel req).log[i + 1]? = some b)
    (hx : Crossing W m a b)
    (hc : (run W (.manager m) fuel req).log[j]? = some c) :
    ∀ l ∈ c.headers, lower l.1 ∈ (effective (.manager m) req).removeHeadersOnRedirect → l.1 ∈ injected m := by
  rw [run_manager] at ha hb hc
  intro l hl hmem
  exact mgr_stripped W m (req.redirect.getD true) _ hlow fuel _ _ _
    ⟨requestWrap_wf (.manager m) req hwf, rfl⟩ i j a b c hij ha hb hx hc l hl (by simpa using hmem)

/-! ## bare pool -/

theorem pool_all (W : World) (p : Pool) (redirect ash : Bool) (Q : Sent → Prop)
    (hQ : ∀ method url body headers retries s r hs,
      poolAttempt W p method url body headers retries redirect ash = .ok (s, r, hs) → Q s) :
    ∀ (fuel : Nat) (method url : Str) (body : Option Bytes) (headers : Option Hdrs) (retries : Arg),
      ∀ s ∈ (poolUrlopen W p fuel method url body headers retries redirect ash).log, Q s := by
  apply pool_induct W p redirect ash (fun _ _ _ _ _ R => ∀ s ∈ R.log, Q s)
  · intro _ _ _ _ _ s hs; cases hs
  · intro method url body headers retries R hR s hs
    rcases poolStep_done_shape hR with ⟨o, _, hRo⟩ | ⟨s', hs', hpa, hl, _⟩
    · rw [hRo] at hs; cases hs
    · rw [hl] at hs; simp at hs; subst hs; exact hQ _ _ _ _ _ _ _ _ hpa
  · intro method url body headers retries s0 m' u' b' h' r' R' hstep ih s hs
    obtain ⟨hs0, hpa, _⟩ := poolStep_next hstep
    simp only [Run.cons_log, List.mem_cons] at hs
    rcases hs with hs | hs
    · subst hs; exact hQ _ _ _ _ _ _ _ _ hpa
    · exact ih s hs

/-- a pool that asserts the host refuses a URL of another host before any I/O -/
theorem pool_refuses (W : World) (p : Pool) (fuel : Nat) (method url : Str) (body : Option Bytes)
    (headers : Option Hdrs) (retries : Arg) (redirect : Bool) (pu : PUrl)
    (hpu : W.parse url = some pu) (hs : isSameHost p.id url pu = false) :
    poolUrlopen W p (fuel + 1) method url body headers retries redirect true = ⟨[], .hostChanged⟩ := by
  simp only [poolUrlopen, poolStep, poolAttempt, hpu, hs, Bool.not_false, Bool.and_self, if_true]

end U3.Manager

namespace U3.Manager
open U3 U3.Headers U3.Retry

/-! ## the header lines, field by field (`specGetlist f n`: the values of field `n`, in order) -/

theorem specGetlist_congr (f : Flat) (n k : Str) (h : lower n = lower k) :
    specGetlist f n = specGetlist f k := by
  unfold specGetlist; rw [h]

theorem specGetlist_filter (f : Flat) (q : Str × Str → Bool) (n : Str)
    (h : ∀ l ∈ f, lower l.1 = lower n → q l = true) :
    specGetlist (f.filter q) n = specGetlist f n := by
  unfold specGetlist
  rw [List.filter_filter]
  congr 1
  apply List.filter_congr
  intro l hl
  by_cases hn : lower l.1 = lower n
  · simp [hn, h l hl hn]
  · simp [hn]

theorem specGetlist_specAdd (f : Flat) (k v n : Str) :
    specGetlist (specAdd f k v) n
      = if lower k = lower n then specGetlist f n ++ [v] else specGetlist f n := by
  split
  · rename_i h
    rw [specGetlist_congr _ n k h.symm, specGetlist_congr f n k h.symm]
    exact specAdd_getlist f k v
  · rename_i h
    have hq : ∀ (g : Flat), specGetlist g n = specGetlist (g.filter (other k)) n := by
      intro g
      symm
      apply specGetlist_filter
      intro l _ hl
      simp only [other, Bool.not_eq_true', beq_eq_false_iff_ne, ne_eq]
      intro hlk
      exact h (by rw [← hlk, hl])
    rw [hq (specAdd f k v), specAdd_frame, ← hq f]

theorem specGetlist_nil (n : Str) : specGetlist [] n = [] := rfl

theorem specGetlist_cons (p : Str × Str) (t : Flat) (n : Str) :
    specGetlist (p :: t) n = if lower p.1 = lower n then p.2 :: specGetlist t n else specGetlist t n := by
  unfold specGetlist
  by_cases h : lower p.1 = lower n <;> simp [List.filter_cons, h]

theorem specGetlist_foldl_specAdd (ps : List (Str × Str)) (acc : Flat) (n : Str) :
    specGetlist (ps.foldl (fun f p => specAdd f p.1 p.2) acc) n = specGetlist acc n ++ specGetlist ps n := by
  induction ps generalizing acc with
  | nil => simp [specGetlist_nil]
  | cons p t ih =>
    rw [List.foldl_cons, ih, specGetlist_specAdd, specGetlist_cons]
    split <;> simp

/-- the flat view of `HTTPHeaderDict(headers)` has the same fields with the same values in the same
order as `headers` itself (a dict with case-variant keys gets them grouped) -/
theorem Hdrs.toHD_getlist (h : Hdrs) (hw : h.WF) (n : Str) :
    specGetlist (iteritems h.toHD) n = specGetlist h.items n := by
  cases h with
  | dict ps =>
    simp only [Hdrs.toHD, Hdrs.items]
    rw [extend_refines ps [] inv_nil, iteritems_nil, specGetlist_foldl_specAdd, specGetlist_nil, List.nil_append]
  | hd x =>
    simp only [Hdrs.toHD, Hdrs.items]
    rw [Headers.copy_eq x hw]

/-- … and is literally the same list for an `HTTPHeaderDict` -/
theorem Hdrs.toHD_items_hd (x : HD) (hw : Inv x) : iteritems (Hdrs.hd x).toHD = iteritems x := by
  simp only [Hdrs.toHD]; rw [Headers.copy_eq x hw]

def notContent (l : Str × Str) : Bool := !(contentSpecific.any (fun k => lower l.1 == lower k))

theorem pmc_items (x : HD) (hinv : Inv x) :
    iteritems (prepareForMethodChange x) = (iteritems x).filter notContent := by
  unfold prepareForMethodChange
  rw [foldl_discard]
  have : x.filter (fun e => !(contentSpecific.any (fun k => e.key == lower k)))
      = x.filter (fun e => (fun n => !(contentSpecific.any (fun k => lower n == lower k))) e.name) := by
    apply List.filter_congr
    intro e he
    rw [(hinv.2 e he).1]
  rw [this]
  exact iteritems_filter_name x (fun n => !(contentSpecific.any (fun k => lower n == lower k)))

theorem notContent_of (l : Str × Str) (n : Str) (hl : lower l.1 = lower n)
    (hn : lower n ∉ contentSpecific.map lower) : notContent l = true := by
  simp only [notContent, Bool.not_eq_true', List.any_eq_false, beq_iff_eq]
  intro k hk hlk
  exact hn (by rw [← hl, hlk]; exact List.mem_map_of_mem hk)

/-- the 303 rewrite keeps every field that is not content-specific, values and order included -/
theorem methodChange_getlist (h : Hdrs) (hw : h.WF) (n : Str) (hn : lower n ∉ contentSpecific.map lower) :
    specGetlist (methodChange h).items n = specGetlist h.items n := by
  have : (methodChange h).items = iteritems (prepareForMethodChange h.toHD) := rfl
  rw [this, pmc_items _ (h.toHD_inv hw), specGetlist_filter _ _ n (fun l _ hl => notContent_of l n hl hn),
    h.toHD_getlist hw]

/-- … and for an `HTTPHeaderDict` the lines are literally the old ones minus the content-specific -/
theorem methodChange_items_hd (x : HD) (hw : Inv x) :
    (methodChange (.hd x)).items = (iteritems x).filter notContent := by
  have : (methodChange (.hd x)).items = iteritems (prepareForMethodChange (Hdrs.hd x).toHD) := rfl
  rw [this, pmc_items _ ((Hdrs.hd x).toHD_inv hw), Hdrs.toHD_items_hd x hw]

/-- what one redirect decision does to the header lines: the 303 rewrite (if any), then the strip
loop (if judged cross-host) -/
def nextLines (R : List Str) (st : Nat) (same : Bool) (H : Hdrs) : List (Str × Str) :=
  let X := if Gen.Redirect.methodRewriteStatuses.contains st then methodChange H else H
  if same then X.items else X.items.filter (fun l => !R.contains (lower l.1))

/-- **every other field survives a redirect decision**: a field that is neither in the strip set nor
(after a 303) content-specific has the same values in the same order afterwards -/
theorem nextLines_getlist (R : List Str) (st : Nat) (same : Bool) (H : Hdrs) (hw : H.WF) (n : Str)
    (hR : R.contains (lower n) = false)
    (hC : Gen.Redirect.methodRewriteStatuses.contains st = true → lower n ∉ contentSpecific.map lower) :
    specGetlist (nextLines R st same H) n = specGetlist H.items n := by
  have hX : specGetlist (if Gen.Redirect.methodRewriteStatuses.contains st then methodChange H else H).items n
      = specGetlist H.items n := by
    split
    · rename_i h; exact methodChange_getlist H hw n (hC h)
    · rfl
  unfold nextLines
  dsimp only
  split
  · exact hX
  · rw [specGetlist_filter _ _ n, hX]
    intro l _ hl
    rw [hl, hR]; rfl

/-- without a 303 the lines are literally the old ones, minus the stripped ones -/
theorem nextLines_plain (R : List Str) (st : Nat) (same : Bool) (H : Hdrs)
    (hst : Gen.Redirect.methodRewriteStatuses.contains st = false) :
    nextLines R st same H = if same then H.items else H.items.filter (fun l => !R.contains (lower l.1)) := by
  unfold nextLines
  simp only [hst, Bool.false_eq_true, if_false]

theorem MgrNext.wf {W : World} {m : Mgr} {method url : Str} {redirect : Bool} {kw : Kw}
    {log : List Sent} {m' u' : Str} {kw' : Kw} (N : MgrNext W m method url redirect kw log m' u' kw')
    (hw : (kw.headers.getD m.headers).WF) : (kw'.headers.getD m.headers).WF := by
  obtain ⟨X, _, hX, hk⟩ := N.next_headers hw
  rw [hk]
  simp only [Option.getD_some]
  split
  · exact hX
  · exact strip_wf _ _ hX

/-- the lines of the follow-up request of a `PoolManager` (no proxy) -/
theorem MgrNext.lines_noproxy {W : World} {m : Mgr} {method url : Str} {redirect : Bool} {kw : Kw}
    {log : List Sent} {m' u' : Str} {kw' : Kw} (N : MgrNext W m method url redirect kw log m' u' kw')
    (hp : m.proxy = none) (hw : (kw.headers.getD m.headers).WF) {b : Sent} (hb : MgrPass W m m' u' kw' b) :
    N.s.headers = (kw.headers.getD m.headers).items ∧
    b.headers = nextLines (deriveRetry kw.retries redirect m.retries).removeHeadersOnRedirect N.s.reply.status
      N.same (kw.headers.getD m.headers) := by
  have ha := N.pass.headers_noproxy hp hw
  refine ⟨ha, ?_⟩
  rw [hb.headers_noproxy hp (N.wf hw)]
  obtain ⟨X, hXdef, hX, hk⟩ := N.next_headers hw
  rw [hk]
  simp only [Option.getD_some]
  rw [mgrHeaders_noproxy m N.u kw hp] at hXdef
  unfold nextLines
  dsimp only
  rw [← hXdef]
  split
  · rfl
  · exact strip_items _ _ hX

end U3.Manager

namespace U3.Manager
open U3 U3.Headers U3.Retry

/-! ## hop-by-hop header facts: manager level -/

/-- `b`'s header lines are what one redirect decision makes of `a`'s -/
def LinesStep (R : List Str) (a b : Sent) : Prop :=
  ∃ H same, Hdrs.WF H ∧ a.headers = H.items ∧ b.headers = nextLines R a.reply.status same H

theorem mgr_lines (W : World) (m : Mgr) (redirect : Bool) (R : List Str) (hR : R.map lower = R)
    (hp : m.proxy = none) :
    ∀ (fuel : Nat) (method url : Str) (kw : Kw), HdrInv m redirect R kw →
      Chain2 (LinesStep R) (mgrUrlopen W m fuel method url redirect kw).log := by
  apply mgr_chain W m redirect (fun _ _ kw => HdrInv m redirect R kw) (LinesStep R)
  · intro method url kw log m' u' kw' hi N; exact N.hdrInv hR hi
  · intro method url kw log m' u' kw' N b hi hpb
    obtain ⟨h1, h2⟩ := N.lines_noproxy hp hi.1 hpb
    rw [hi.2] at h2
    exact ⟨_, N.same, hi.1, h1, h2⟩

/-- after a 303 the follow-up has no content-specific header of the caller's (only what the proxy
machinery injects could be one) -/
theorem mgr_303_headers (W : World) (m : Mgr) (redirect : Bool) :
    ∀ (fuel : Nat) (method url : Str) (kw : Kw), (kw.headers.getD m.headers).WF →
      Chain2 (fun a b => Gen.Redirect.methodRewriteStatuses.contains a.reply.status = true →
        ∀ l ∈ b.headers, lower l.1 ∈ contentSpecific.map lower → l.1 ∈ injected m)
        (mgrUrlopen W m fuel method url redirect kw).log := by
  apply mgr_chain W m redirect (fun _ _ kw => (kw.headers.getD m.headers).WF)
  · intro method url kw log m' u' kw' hi N; exact N.wf hi
  · intro method url kw log m' u' kw' N b hi hpb hst l hl hcs
    rcases hpb.headers (N.wf hi) l hl with h1 | h1
    · exact absurd hcs ((N.next_keys hi l.1 h1).2.2 hst)
    · exact h1

/-! ## hop-by-hop header facts: pool level -/

theorem pool_head_attempt (W : World) (p : Pool) (fuel : Nat) (method url : Str) (body : Option Bytes)
    (headers : Option Hdrs) (retries : Arg) (redirect ash : Bool) (s : Sent)
    (h : (poolUrlopen W p fuel method url body headers retries redirect ash).log.head? = some s) :
    ∃ r hs, poolAttempt W p method url body headers retries redirect ash = .ok (s, r, hs) := by
  cases fuel with
  | zero => simp [poolUrlopen] at h
  | succ n =>
    simp only [poolUrlopen] at h
    split at h
    · rename_i R hR
      rcases poolStep_done_shape hR with ⟨o, _, hRo⟩ | ⟨s', hs', hpa, hl, _⟩
      · rw [hRo] at h; cases h
      · rw [hl] at h; simp at h; subst h; exact ⟨_, _, hpa⟩
    · rename_i s0 m' u' b' h' r' hstep
      obtain ⟨hs, hpa, _⟩ := poolStep_next hstep
      simp at h; subst h
      exact ⟨_, _, hpa⟩

theorem pool_chain_gen (W : World) (p : Pool) (redirect ash : Bool) (I : Option Hdrs → Prop)
    (P : Sent → Sent → Prop)
    (hI : ∀ {method url body headers retries s m' u' b' h' r'}, I headers →
      poolStep W p method url body headers retries redirect ash = .next s m' u' b' h' r' → I (some h'))
    (hP : ∀ {method url body headers retries s m' u' b' h' r'} (b : Sent) (rb : Retry) (hsb : Hdrs),
      I headers → poolStep W p method url body headers retries redirect ash = .next s m' u' b' h' r' →
      poolAttempt W p m' u' b' (some h') (.retry r') redirect ash = .ok (b, rb, hsb) → P s b) :
    ∀ (fuel : Nat) (method url : Str) (body : Option Bytes) (headers : Option Hdrs) (retries : Arg),
      I headers → Chain2 P (poolUrlopen W p fuel method url body headers retries redirect ash).log := by
  intro fuel
  induction fuel with
  | zero => intros; simp [poolUrlopen, Chain2]
  | succ n ih =>
    intro method url body headers retries hi
    simp only [poolUrlopen]
    split
    · rename_i R hR
      have := poolStep_done_len hR
      match hl : R.log with
      | [] => trivial
      | [_] => trivial
      | _ :: _ :: _ => rw [hl] at this; simp at this
    · rename_i s m' u' b' h' r' hstep
      simp only [Run.cons_log]
      refine Chain2.cons_of_head (ih m' u' b' (some h') (.retry r') (hI hi hstep)) ?_
      intro s' hs'
      obtain ⟨rb, hsb, hpb⟩ := pool_head_attempt W p n m' u' b' (some h') (.retry r') redirect ash s' hs'
      exact hP s' rb hsb hi hstep hpb

theorem pool_next_wf {W : World} {p : Pool} {method url : Str} {body : Option Bytes}
    {headers : Option Hdrs} {retries : Arg} {redirect ash : Bool} {s : Sent} {m' u' : Str}
    {b' : Option Bytes} {h' : Hdrs} {r' : Retry}
    (hw : (headers.getD p.headers).WF)
    (h : poolStep W p method url body headers retries redirect ash = .next s m' u' b' h' r') :
    ∃ pu, W.parse url = some pu ∧ (poolMerge p pu.scheme (headers.getD p.headers)).WF ∧
      s.headers = (poolMerge p pu.scheme (headers.getD p.headers)).items ∧
      h' = (if Gen.Redirect.methodRewriteStatuses.contains s.reply.status
        then methodChange (poolMerge p pu.scheme (headers.getD p.headers))
        else poolMerge p pu.scheme (headers.getD p.headers)) ∧ h'.WF := by
  obtain ⟨hs, hpa, _, _, hrw, _⟩ := poolStep_next h
  obtain ⟨pu, hpu, hhs, _, hitems, _⟩ := poolAttempt_ok' hpa
  have hwm := poolMerge_wf p pu.scheme _ hw
  have hh' : h' = (rewrite303 s.reply.status method body hs).2.2 := by rw [← hrw]
  rw [rewrite303_hdrs, hhs] at hh'
  refine ⟨pu, hpu, hwm, by rw [hitems, hhs], hh', ?_⟩
  rw [hh']
  split
  · exact methodChange_wf _ hwm
  · exact hwm

theorem pool_lines (W : World) (p : Pool) (redirect ash : Bool) (hp : p.proxy = none) :
    ∀ (fuel : Nat) (method url : Str) (body : Option Bytes) (headers : Option Hdrs) (retries : Arg),
      (headers.getD p.headers).WF →
      Chain2 (LinesStep []) (poolUrlopen W p fuel method url body headers retries redirect ash).log := by
  apply pool_chain_gen W p redirect ash (fun headers => (headers.getD p.headers).WF) (LinesStep [])
  · intro method url body headers retries s m' u' b' h' r' hi hstep
    obtain ⟨_, _, _, _, _, hw'⟩ := pool_next_wf hi hstep
    exact hw'
  · intro method url body headers retries s m' u' b' h' r' b rb hsb hi hstep hpb
    obtain ⟨pu, _, _, hitems, hh', hw'⟩ := pool_next_wf hi hstep
    rw [poolMerge_noproxy p pu.scheme _ hp hi] at hitems hh'
    obtain ⟨pub, _, hhsb, _, hitb, _⟩ := poolAttempt_ok' hpb
    simp only [Option.getD_some] at hhsb
    rw [poolMerge_noproxy p pub.scheme _ hp hw'] at hhsb
    refine ⟨_, true, hi, hitems, ?_⟩
    rw [hitb, hhsb, hh']
    rfl

/-- the names a pool's proxy merge adds -/
def poolInjected (p : Pool) : List Str :=
  match p.proxy with
  | none => []
  | some px => px.headers.map (·.1)

theorem pool_303_headers (W : World) (p : Pool) (redirect ash : Bool) :
    ∀ (fuel : Nat) (method url : Str) (body : Option Bytes) (headers : Option Hdrs) (retries : Arg),
      (headers.getD p.headers).WF →
      Chain2 (fun a b => Gen.Redirect.methodRewriteStatuses.contains a.reply.status = true →
        ∀ l ∈ b.headers, lower l.1 ∈ contentSpecific.map lower → l.1 ∈ poolInjected p)
        (poolUrlopen W p fuel method url body headers retries redirect ash).log := by
  apply pool_chain_gen W p redirect ash (fun headers => (headers.getD p.headers).WF)
  · intro method url body headers retries s m' u' b' h' r' hi hstep
    obtain ⟨_, _, _, _, _, hw'⟩ := pool_next_wf hi hstep
    exact hw'
  · intro method url body headers retries s m' u' b' h' r' b rb hsb hi hstep hpb hst l hl hcs
    obtain ⟨pu, _, hwm, _, hh', hw'⟩ := pool_next_wf hi hstep
    obtain ⟨pub, _, hhsb, _, hitb, _⟩ := poolAttempt_ok' hpb
    simp only [Option.getD_some] at hhsb
    rw [hitb] at hl
    have hk := hsb.items_names l hl
    rw [hhsb] at hk
    rcases poolMerge_keys p pub.scheme h' hw' l.1 hk with h1 | ⟨px, hpx, h1⟩
    · rw [hh', if_pos hst] at h1
      exact absurd hcs (methodChange_keys _ hwm l.1 h1).2
    · simp [poolInjected, hpx, h1]

/-! ## one user call -/

/-- what the machinery of the client itself may add to a request -/
def Client.injected : Client → List Str
  | .manager m => Manager.injected m
  | .pool p => poolInjected p

def Client.noProxy : Client → Prop
  | .manager m => m.proxy = none
  | .pool p => p.proxy = none

/-- the strip set that applies to the client's redirects: a bare pool strips nothing -/
def stripSet (c : Client) (req : Req) : List Str :=
  match c with
  | .manager _ => (effective c req).removeHeadersOnRedirect
  | .pool _ => []

theorem run_303_headers (W : World) (c : Client) (fuel : Nat) (req : Req) (hwf : CarriersWF c req) :
    Chain2 (fun a b => Gen.Redirect.methodRewriteStatuses.contains a.reply.status = true →
        ∀ l ∈ b.headers, lower l.1 ∈ contentSpecific.map lower → l.1 ∈ c.injected)
      (run W c fuel req).log := by
  cases c with
  | manager m =>
    rw [run_manager]
    exact mgr_303_headers W m _ fuel _ _ _ (requestWrap_wf (.manager m) req hwf)
  | pool p =>
    rw [run_pool]
    exact pool_303_headers W p _ _ fuel _ _ _ _ _ (requestWrap_wf (.pool p) req hwf)

theorem run_lines (W : World) (c : Client) (fuel : Nat) (req : Req) (hwf : CarriersWF c req)
    (hp : c.noProxy)
    (hlow : (stripSet c req).map lower = stripSet c req) :
    Chain2 (LinesStep (stripSet c req)) (run W c fuel req).log := by
  cases c with
  | manager m =>
    rw [run_manager]
    exact mgr_lines W m _ _ hlow hp fuel _ _ _ ⟨requestWrap_wf (.manager m) req hwf, rfl⟩
  | pool p =>
    rw [run_pool]
    exact pool_lines W p _ _ hp fuel _ _ _ _ _ (requestWrap_wf (.pool p) req hwf)

end U3.Manager

namespace U3.Manager
open U3 U3.Headers U3.Retry

/-! ## the asserting pool: how a cross-host redirect ends -/

theorem poolStep_done_followable {W : World} {p : Pool} {method url : Str} {body : Option Bytes}
    {headers : Option Hdrs} {retries : Arg} {ash : Bool} {R : Run} {s : Sent} {r : Retry} {hs : Hdrs}
    {loc : Str}
    (h : poolStep W p method url body headers retries true ash = .done R)
    (hpa : poolAttempt W p method url body headers retries true ash = .ok (s, r, hs))
    (hloc : s.reply.redirectLocation = some loc) :
    R.outcome = .maxRetry ∨ R.outcome = .response s.reply := by
  unfold poolStep at h
  rw [hpa] at h
  simp only [if_true, hloc] at h
  split at h
  · injection h with h; subst h
    unfold onExhausted; split
    · exact Or.inl rfl
    · exact Or.inr rfl
  · injection h with h; subst h
    rename_i e hinc
    obtain ⟨c, hc⟩ := increment_redirect_err hinc
    cases hc
  · cases h

/-- a run of an asserting pool whose last request was answered by a redirect to another host ends in
`HostChangedError` — unless the redirect budget was exhausted right there (`MaxRetryError`, or the 3xx
itself with `raise_on_redirect=False`) or the model's fuel ran out -/
theorem pool_refuses_redirect (W : World) (p : Pool) :
    ∀ (fuel : Nat) (method url : Str) (body : Option Bytes) (headers : Option Hdrs) (retries : Arg),
      ((poolUrlopen W p fuel method url body headers retries true true).log = [] →
        (poolUrlopen W p fuel method url body headers retries true true).outcome = .outOfFuel ∨
        W.parse url = none ∨
        (poolUrlopen W p fuel method url body headers retries true true).outcome = .hostChanged) ∧
      (∀ pre a loc pu, (poolUrlopen W p fuel method url body headers retries true true).log = pre ++ [a] →
        a.reply.redirectLocation = some loc → W.parse loc = some pu → isSameHost p.id loc pu = false →
        (poolUrlopen W p fuel method url body headers retries true true).outcome = .hostChanged ∨
        (poolUrlopen W p fuel method url body headers retries true true).outcome = .outOfFuel ∨
        (poolUrlopen W p fuel method url body headers retries true true).outcome = .maxRetry ∨
        (poolUrlopen W p fuel method url body headers retries true true).outcome = .response a.reply) := by
  apply pool_induct W p true true (fun _ url _ _ _ R =>
    (R.log = [] → R.outcome = .outOfFuel ∨ W.parse url = none ∨ R.outcome = .hostChanged) ∧
    (∀ (pre : List Sent) (a : Sent) (loc : Str) (pu : PUrl), R.log = pre ++ [a] →
      a.reply.redirectLocation = some loc → W.parse loc = some pu →
      isSameHost p.id loc pu = false →
      R.outcome = .hostChanged ∨ R.outcome = .outOfFuel ∨ R.outcome = .maxRetry ∨ R.outcome = .response a.reply))
  · intro _ _ _ _ _
    exact ⟨fun _ => Or.inl rfl, fun pre a _ _ hl => by simp at hl⟩
  · intro method url body headers retries R hR
    rcases poolStep_done_shape hR with ⟨o, ho, hRo⟩ | ⟨s, hs, hpa, hl, _⟩
    · subst hRo
      refine ⟨fun _ => ?_, fun pre a _ _ hl => by simp at hl⟩
      rcases poolAttempt_error ho with h | h
      · exact Or.inr (Or.inl h.2)
      · exact Or.inr (Or.inr h.1)
    · refine ⟨fun h => (by rw [hl] at h; cases h), ?_⟩
      intro pre a loc pu hpre hloc _ _
      rw [hl] at hpre
      have ha : a = s := by
        cases pre with
        | nil => simp at hpre; exact hpre.symm
        | cons x t =>
          simp only [List.cons_append, List.cons.injEq] at hpre
          have := hpre.2
          cases t <;> simp at this
      subst ha
      rcases poolStep_done_followable hR hpa hloc with h | h
      · exact Or.inr (Or.inr (Or.inl h))
      · exact Or.inr (Or.inr (Or.inr h))
  · intro method url body headers retries s m' u' b' h' r' R' hstep ih
    obtain ⟨hs, hpa, _, hlocs, _, _⟩ := poolStep_next hstep
    refine ⟨fun h => by simp at h, ?_⟩
    intro pre a loc pu hpre hloc hpu hsame
    simp only [Run.cons_log] at hpre
    simp only [Run.cons_outcome]
    cases pre with
    | nil =>
      simp only [List.nil_append, List.cons.injEq] at hpre
      obtain ⟨hsa, hnil⟩ := hpre
      subst hsa
      rw [hlocs] at hloc
      injection hloc with hloc
      subst hloc
      rcases ih.1 hnil with h | h | h
      · exact Or.inr (Or.inl h)
      · rw [hpu] at h; cases h
      · exact Or.inl h
    | cons x t =>
      simp only [List.cons_append, List.cons.injEq] at hpre
      exact ih.2 t a loc pu hpre.2 hloc hpu hsame

end U3.Manager
