import U3.Model.Url
/-! Helper lemmas for `U3.Props.C14` (core Lean only). -/
namespace U3.Url
open U3

instance instDecEqExcept {ε α : Type} [DecidableEq ε] [DecidableEq α] : DecidableEq (Except ε α)
  | .ok a, .ok b => if h : a = b then isTrue (by rw [h]) else isFalse (by intro e; cases e; exact h rfl)
  | .error a, .error b => if h : a = b then isTrue (by rw [h]) else isFalse (by intro e; cases e; exact h rfl)
  | .ok _, .error _ => isFalse (by intro e; cases e)
  | .error _, .ok _ => isFalse (by intro e; cases e)

/-! ## tokens -/

def renderToks (ts : List Tok) : Str := ts.flatMap Tok.text

@[simp] theorem render_nil : renderToks [] = [] := rfl
@[simp] theorem render_cons (t : Tok) (ts : List Tok) : renderToks (t :: ts) = t.text ++ renderToks ts := by
  simp [renderToks]
@[simp] theorem render_append (a b : List Tok) : renderToks (a ++ b) = renderToks a ++ renderToks b := by
  simp [renderToks]

theorem hex2_some {t : Str} {a b : Nat} (h : hex2 t = some (a, b)) :
    ∃ t', t = a :: b :: t' ∧ isHexC a = true ∧ isHexC b = true := by
  match t, h with
  | x :: y :: t', h =>
    simp only [hex2] at h
    split at h
    · rename_i hh
      simp only [Option.some.injEq, Prod.mk.injEq] at h
      obtain ⟨rfl, rfl⟩ := h
      simp only [Bool.and_eq_true] at hh
      exact ⟨t', rfl, hh.1, hh.2⟩
    · simp at h
  | [], h => simp [hex2] at h
  | [_], h => simp [hex2] at h

theorem hex2_cons (a b : Nat) (t : Str) (ha : isHexC a = true) (hb : isHexC b = true) :
    hex2 (a :: b :: t) = some (a, b) := by
  simp [hex2, ha, hb]

theorem tokAux_skip (k : Nat) (s : Str) : tokAux k s = tokAux 0 (s.drop k) := by
  induction s generalizing k with
  | nil => cases k <;> simp [tokAux]
  | cons c t ih =>
    cases k with
    | zero => simp
    | succ k => simp only [tokAux, List.drop_succ_cons]; exact ih k

theorem render_tokAux (k : Nat) (s : Str) : renderToks (tokAux k s) = s.drop k := by
  induction s generalizing k with
  | nil => cases k <;> simp [tokAux]
  | cons c t ih =>
    cases k with
    | succ k => simp only [tokAux, List.drop_succ_cons]; exact ih k
    | zero =>
      simp only [tokAux, List.drop_zero]
      split
      · rename_i hc
        split
        · rename_i a b hh
          obtain ⟨t', rfl, -, -⟩ := hex2_some hh
          simp [Tok.text, ih 2, hc]
        · simp [Tok.text, ih 0, hc]
      · simp [Tok.text, ih 0]

theorem render_tokenize (s : Str) : renderToks (tokenize s) = s := by
  simpa [tokenize] using render_tokAux 0 s

/-- well-formed token: the two characters of an escape are hex digits -/
def Tok.ok : Tok → Bool
  | .chr _ => true
  | .esc a b => isHexC a && isHexC b

theorem tokAux_ok (k : Nat) (s : Str) : ∀ t ∈ tokAux k s, t.ok = true := by
  induction s generalizing k with
  | nil => cases k <;> simp [tokAux]
  | cons c r ih =>
    cases k with
    | succ k => simp only [tokAux]; exact ih k
    | zero =>
      simp only [tokAux]
      split
      · split
        · rename_i a b hh
          obtain ⟨t', rfl, ha, hb⟩ := hex2_some hh
          intro t ht
          simp only [List.mem_cons] at ht
          rcases ht with rfl | ht
          · simp [Tok.ok, ha, hb]
          · exact ih 2 t ht
        · intro t ht
          simp only [List.mem_cons] at ht
          rcases ht with rfl | ht
          · rfl
          · exact ih 0 t ht
      · intro t ht
        simp only [List.mem_cons] at ht
        rcases ht with rfl | ht
        · rfl
        · exact ih 0 t ht

theorem tokenize_ok (s : Str) : ∀ t ∈ tokenize s, t.ok = true := tokAux_ok 0 s

/-- a token list is *stable* when it contains no bare `%` and its escapes are well formed: then
scanning its text gives it back -/
def Tok.stable : Tok → Bool
  | .chr c => c != 37
  | .esc a b => isHexC a && isHexC b

theorem tokenize_render (ts : List Tok) (h : ∀ t ∈ ts, t.stable = true) :
    tokenize (renderToks ts) = ts := by
  induction ts with
  | nil => rfl
  | cons t r ih =>
    have hr := ih (fun x hx => h x (List.mem_cons_of_mem _ hx))
    have ht := h t (List.mem_cons_self ..)
    cases t with
    | chr c =>
      simp only [Tok.stable, bne_iff_ne, ne_eq] at ht
      simp only [tokenize] at hr ⊢
      simp [Tok.text, tokAux, ht, hr]
    | esc a b =>
      simp only [Tok.stable, Bool.and_eq_true] at ht
      simp only [tokenize] at hr ⊢
      simp only [render_cons, Tok.text, List.cons_append, List.nil_append, tokAux, if_true]
      rw [hex2_cons a b _ ht.1 ht.2]
      simp [hr]

/-! ## `_encode_invalid_chars` -/

def isHexUp (c : Nat) : Bool := isDigitC c || (65 ≤ c && c ≤ 70)

/-- normal-form token w.r.t. an allowed set: an allowed ASCII char other than `%`, or an escape
with upper-case hex digits -/
def Tok.good (allowed : List Nat) : Tok → Bool
  | .chr c => mem allowed c && decide (c < 128) && c != 37
  | .esc a b => isHexUp a && isHexUp b

/-- "every character is in the allowed set or part of an upper-case valid escape" -/
def NormalForm (allowed : List Nat) (s : Str) : Prop :=
  ∃ ts : List Tok, (∀ t ∈ ts, t.good allowed = true) ∧ s = renderToks ts

theorem isHexUp_isHexC {c : Nat} (h : isHexUp c = true) : isHexC c = true := by
  simp only [isHexUp, isHexC, isDigitC, Bool.or_eq_true, Bool.and_eq_true, decide_eq_true_eq] at *
  omega

theorem isHexUp_upperC {c : Nat} (h : isHexUp c = true) : upperC c = c := by
  simp only [isHexUp, isDigitC, Bool.or_eq_true, Bool.and_eq_true, decide_eq_true_eq] at h
  unfold upperC; split <;> omega

theorem isHexUp_upperC_of_hex {c : Nat} (h : isHexC c = true) : isHexUp (upperC c) = true := by
  simp only [isHexUp, isHexC, isDigitC, Bool.or_eq_true, Bool.and_eq_true, decide_eq_true_eq] at *
  unfold upperC; split <;> omega

theorem isHexUp_lt {c : Nat} (h : isHexUp c = true) : c < 128 ∧ c ≠ 37 := by
  simp only [isHexUp, isDigitC, Bool.or_eq_true, Bool.and_eq_true, decide_eq_true_eq] at h
  omega

theorem hexDigitU_up {n : Nat} (h : n < 16) : isHexUp (hexDigitU n) = true := by
  unfold hexDigitU
  split <;> simp [isHexUp, isDigitC] <;> omega

theorem good_stable {A : List Nat} {t : Tok} (h : t.good A = true) : t.stable = true := by
  cases t with
  | chr c => simp only [Tok.good, Bool.and_eq_true] at h; simpa [Tok.stable] using h.2
  | esc a b =>
    simp only [Tok.good, Bool.and_eq_true] at h
    simp [Tok.stable, isHexUp_isHexC h.1, isHexUp_isHexC h.2]

/-- the token a byte becomes in the `for` loop, when it is not a kept `%` -/
def byteTok (allowed : List Nat) (b : Nat) : Tok :=
  if decide (b < 128) && mem allowed b then .chr b else .esc (hexDigitU (b / 16)) (hexDigitU (b % 16))

theorem encByte_eq_byteTok (A : List Nat) (pe : Bool) (b : Nat) (h : pe = false ∨ b ≠ 37) :
    encByte A pe b = (byteTok A b).text := by
  unfold encByte byteTok
  have : (pe && b == 37) = false := by
    rcases h with h | h
    · simp [h]
    · simp [h]
  rw [this]
  simp only [Bool.false_or]
  split <;> simp [Tok.text, pctByte]

theorem byteTok_good (A : List Nat) (h37 : mem A 37 = false) (b : Nat) (hb : b < 256) :
    (byteTok A b).good A = true := by
  unfold byteTok
  split
  · rename_i hk
    simp only [Bool.and_eq_true, decide_eq_true_eq] at hk
    have : b ≠ 37 := by
      intro e; subst e; simp [h37] at hk
    simp [Tok.good, hk.1, hk.2, this]
  · simp only [Tok.good, Bool.and_eq_true]
    exact ⟨hexDigitU_up (by omega), hexDigitU_up (by omega)⟩

theorem utf8cp_lt (c : Nat) : ∀ b ∈ utf8cp c, b < 256 := by
  intro b hb
  unfold utf8cp at hb
  split at hb
  · simp at hb; omega
  · split at hb
    · simp at hb; omega
    · split at hb
      · simp at hb; omega
      · simp at hb; omega

theorem utf8cp_ne37 (c : Nat) (hc : c ≠ 37) : ∀ b ∈ utf8cp c, b ≠ 37 := by
  intro b hb
  unfold utf8cp at hb
  split at hb
  · simp at hb; omega
  · split at hb
    · simp at hb; omega
    · split at hb
      · simp at hb; omega
      · simp at hb; omega

theorem utf8cp_ascii {c : Nat} (h : c < 128) : utf8cp c = [c] := by simp [utf8cp, h]

theorem utf8_ascii {s : Str} (h : ∀ c ∈ s, c < 128) : utf8 s = s := by
  induction s with
  | nil => rfl
  | cons c t ih =>
    simp only [utf8, List.flatMap_cons] at ih ⊢
    rw [utf8cp_ascii (h c (List.mem_cons_self ..)), ih (fun x hx => h x (List.mem_cons_of_mem _ hx))]
    rfl

theorem hexC_lt {c : Nat} (h : isHexC c = true) : c < 128 ∧ c ≠ 37 := by
  simp only [isHexC, isDigitC, Bool.or_eq_true, Bool.and_eq_true, decide_eq_true_eq] at h
  omega

theorem upperC_lt {c : Nat} (h : c < 128) : upperC c < 128 := by unfold upperC; split <;> omega

theorem upperC_hex_ne37 {c : Nat} (h : isHexC c = true) : upperC c ≠ 37 := by
  have := isHexUp_lt (isHexUp_upperC_of_hex h); exact this.2

/-- output tokens of one input token -/
def outToks (A : List Nat) (pe : Bool) : Tok → List Tok
  | .esc a b =>
    if pe then [.esc (upperC a) (upperC b)]
    else [byteTok A 37, byteTok A (upperC a), byteTok A (upperC b)]
  | .chr c => (utf8cp c).map (byteTok A)

/-- the bytes produced by one input token -/
def encTok (A : List Nat) (pe : Bool) (t : Tok) : Str := (utf8 t.upper).flatMap (encByte A pe)

theorem encodeInvalidChars_eq (A : List Nat) (s : Str) :
    encodeInvalidChars A s =
      (tokenize s).flatMap (encTok A (countEscapes s == (utf8 (upperEscapes s)).count 37)) := by
  simp only [encodeInvalidChars, upperEscapes, utf8, List.flatMap_assoc]
  congr 1
  funext t
  simp [encTok, utf8, List.flatMap_assoc]

theorem encTok_eq (A : List Nat) (pe : Bool) (t : Tok) (hok : t.ok = true)
    (hhex : ∀ c, isHexUp c = true → mem A c = true)
    (hpe : pe = true → t ≠ .chr 37) :
    encTok A pe t = renderToks (outToks A pe t) := by
  cases t with
  | esc a b =>
    simp only [Tok.ok, Bool.and_eq_true] at hok
    have ha := hexC_lt hok.1
    have hb := hexC_lt hok.2
    have hua := upperC_lt ha.1
    have hub := upperC_lt hb.1
    have e : utf8 [37, upperC a, upperC b] = [37, upperC a, upperC b] :=
      utf8_ascii (by intro c hc; simp at hc; rcases hc with rfl | rfl | rfl <;> omega)
    simp only [encTok, Tok.upper, e, outToks]
    cases pe with
    | true =>
      have k1 : mem A (upperC a) = true := hhex _ (isHexUp_upperC_of_hex hok.1)
      have k2 : mem A (upperC b) = true := hhex _ (isHexUp_upperC_of_hex hok.2)
      simp [encByte, k1, k2, hua, hub, Tok.text]
    | false =>
      simp only [List.flatMap_cons, List.flatMap_nil, List.append_nil, if_neg, Bool.false_eq_true,
        render_cons, render_nil]
      rw [encByte_eq_byteTok A false 37 (Or.inl rfl), encByte_eq_byteTok A false _ (Or.inl rfl),
        encByte_eq_byteTok A false _ (Or.inl rfl)]
      simp
  | chr c =>
    simp only [encTok, Tok.upper, outToks, utf8, List.flatMap_cons, List.flatMap_nil, List.append_nil]
    have hne : pe = false ∨ c ≠ 37 := by
      cases pe with
      | false => exact Or.inl rfl
      | true => right; intro e; subst e; exact hpe rfl rfl
    have : ∀ l : List Nat, (∀ b ∈ l, pe = false ∨ b ≠ 37) →
        l.flatMap (encByte A pe) = renderToks (l.map (byteTok A)) := by
      intro l hl
      induction l with
      | nil => rfl
      | cons x r ih =>
        simp only [List.flatMap_cons, List.map_cons, render_cons]
        rw [encByte_eq_byteTok A pe x (hl x (List.mem_cons_self ..)),
          ih (fun y hy => hl y (List.mem_cons_of_mem _ hy))]
    apply this
    intro b hb
    rcases hne with h | h
    · exact Or.inl h
    · exact Or.inr (utf8cp_ne37 c h b hb)

theorem outToks_good (A : List Nat) (pe : Bool) (t : Tok) (hok : t.ok = true)
    (h37 : mem A 37 = false) : ∀ x ∈ outToks A pe t, x.good A = true := by
  cases t with
  | esc a b =>
    simp only [Tok.ok, Bool.and_eq_true] at hok
    have hua := upperC_lt (hexC_lt hok.1).1
    have hub := upperC_lt (hexC_lt hok.2).1
    simp only [outToks]
    split
    · intro x hx
      simp only [List.mem_singleton] at hx
      subst hx
      simp [Tok.good, isHexUp_upperC_of_hex hok.1, isHexUp_upperC_of_hex hok.2]
    · intro x hx
      simp only [List.mem_cons, List.not_mem_nil, or_false] at hx
      rcases hx with rfl | rfl | rfl
      · exact byteTok_good A h37 37 (by omega)
      · exact byteTok_good A h37 _ (by omega)
      · exact byteTok_good A h37 _ (by omega)
  | chr c =>
    intro x hx
    simp only [outToks, List.mem_map] at hx
    obtain ⟨b, hb, rfl⟩ := hx
    exact byteTok_good A h37 b (utf8cp_lt c b hb)

theorem utf8_append (a b : Str) : utf8 (a ++ b) = utf8 a ++ utf8 b := by simp [utf8]

theorem tok_count37 (t : Tok) (ht : t.ok = true) :
    (utf8 t.upper).count 37 = (if t.isEsc then 1 else 0) + (if t == Tok.chr 37 then 1 else 0) := by
  cases t with
  | esc a b =>
    simp only [Tok.ok, Bool.and_eq_true] at ht
    have ha := hexC_lt ht.1
    have hb := hexC_lt ht.2
    have hua := upperC_lt ha.1
    have hub := upperC_lt hb.1
    have na := upperC_hex_ne37 ht.1
    have nb := upperC_hex_ne37 ht.2
    have e : utf8 [37, upperC a, upperC b] = [37, upperC a, upperC b] :=
      utf8_ascii (by intro c hc; simp at hc; rcases hc with rfl | rfl | rfl <;> omega)
    simp only [Tok.upper, e]
    simp [List.count_cons, na, nb, Tok.isEsc]
  | chr c =>
    by_cases hc : c = 37
    · subst hc
      simp [Tok.upper, utf8, utf8cp, Tok.isEsc]
    · have : (utf8cp c).count 37 = 0 := by
        rw [List.count_eq_zero]
        intro hm
        exact utf8cp_ne37 c hc 37 hm rfl
      simp [Tok.upper, utf8, this, Tok.isEsc, hc]

/-- number of `%` bytes = escapes + bare `%` -/
theorem count37 (ts : List Tok) (hok : ∀ t ∈ ts, t.ok = true) :
    (utf8 (ts.flatMap Tok.upper)).count 37 = ts.countP Tok.isEsc + ts.countP (· == Tok.chr 37) := by
  induction ts with
  | nil => rfl
  | cons t r ih =>
    have ihr := ih (fun x hx => hok x (List.mem_cons_of_mem _ hx))
    have ht := tok_count37 t (hok t (List.mem_cons_self ..))
    simp only [List.flatMap_cons, utf8_append, List.count_append, ihr, ht, List.countP_cons]
    omega

theorem pe_iff (s : Str) :
    (countEscapes s == (utf8 (upperEscapes s)).count 37) = true ↔
      ∀ t ∈ tokenize s, t ≠ Tok.chr 37 := by
  rw [upperEscapes, count37 _ (tokenize_ok s), countEscapes]
  simp only [beq_iff_eq]
  constructor
  · intro h t ht e
    subst e
    have : 0 < (tokenize s).countP (· == Tok.chr 37) := List.countP_pos_iff.mpr ⟨_, ht, by simp⟩
    omega
  · intro h
    have : (tokenize s).countP (· == Tok.chr 37) = 0 := by
      rw [List.countP_eq_zero]
      intro t ht
      simpa using h t ht
    omega

theorem flatMap_render {α} (l : List α) (f : α → Str) (g : α → List Tok)
    (h : ∀ x ∈ l, f x = renderToks (g x)) : l.flatMap f = renderToks (l.flatMap g) := by
  induction l with
  | nil => rfl
  | cons x r ih =>
    simp only [List.flatMap_cons, render_append]
    rw [h x (List.mem_cons_self ..), ih (fun y hy => h y (List.mem_cons_of_mem _ hy))]

theorem flatMap_text (l : List Tok) (f : Tok → Str) (h : ∀ t ∈ l, f t = t.text) :
    l.flatMap f = renderToks l := by
  induction l with
  | nil => rfl
  | cons x r ih =>
    simp only [List.flatMap_cons, render_cons]
    rw [h x (List.mem_cons_self ..), ih (fun y hy => h y (List.mem_cons_of_mem _ hy))]

/-- the output of the encoder is in normal form -/
theorem encode_normal (A : List Nat) (h37 : mem A 37 = false)
    (hhex : ∀ c, isHexUp c = true → mem A c = true) (s : Str) :
    NormalForm A (encodeInvalidChars A s) := by
  rw [encodeInvalidChars_eq]
  generalize hpe : (countEscapes s == (utf8 (upperEscapes s)).count 37) = pe
  refine ⟨(tokenize s).flatMap (outToks A pe), ?_, ?_⟩
  · intro x hx
    simp only [List.mem_flatMap] at hx
    obtain ⟨t, ht, hxt⟩ := hx
    exact outToks_good A pe t (tokenize_ok s t ht) h37 x hxt
  · apply flatMap_render
    intro t ht
    apply encTok_eq A pe t (tokenize_ok s t ht) hhex
    intro hp
    subst hp
    exact (pe_iff s).mp hpe t ht

/-- a string in normal form is a fixed point of the encoder -/
theorem encode_fixed (A : List Nat) (hhex : ∀ c, isHexUp c = true → mem A c = true)
    (ts : List Tok) (hg : ∀ t ∈ ts, t.good A = true) :
    encodeInvalidChars A (renderToks ts) = renderToks ts := by
  have hst : ∀ t ∈ ts, t.stable = true := fun t ht => good_stable (hg t ht)
  have hpe : (countEscapes (renderToks ts) == (utf8 (upperEscapes (renderToks ts))).count 37) = true := by
    rw [pe_iff, tokenize_render ts hst]
    intro t ht e
    subst e
    have := hg _ ht
    simp [Tok.good] at this
  rw [encodeInvalidChars_eq, hpe, tokenize_render ts hst]
  apply flatMap_text
  · intro t ht
    have hgt := hg t ht
    cases t with
    | esc a b =>
      simp only [Tok.good, Bool.and_eq_true] at hgt
      have ha := isHexUp_lt hgt.1
      have hb := isHexUp_lt hgt.2
      have e : utf8 [37, a, b] = [37, a, b] :=
        utf8_ascii (by intro c hc; simp at hc; rcases hc with rfl | rfl | rfl <;> omega)
      simp [encTok, Tok.upper, isHexUp_upperC hgt.1, isHexUp_upperC hgt.2, e, encByte,
        hhex a hgt.1, hhex b hgt.2, ha.1, hb.1, Tok.text]
    | chr c =>
      simp only [Tok.good, Bool.and_eq_true, decide_eq_true_eq] at hgt
      simp [encTok, Tok.upper, utf8, utf8cp_ascii hgt.1.2, encByte, hgt.1.1, hgt.1.2, Tok.text]

theorem encode_idempotent (A : List Nat) (h37 : mem A 37 = false)
    (hhex : ∀ c, isHexUp c = true → mem A c = true) (s : Str) :
    encodeInvalidChars A (encodeInvalidChars A s) = encodeInvalidChars A s := by
  obtain ⟨ts, hg, e⟩ := encode_normal A h37 hhex s
  rw [e]
  exact encode_fixed A hhex ts hg

/-! ## `split` / `join` -/

theorem splitOn1_no_sep (c : Nat) (s : Str) : ∀ p ∈ splitOn1 c s, c ∉ p := by
  induction s with
  | nil => simp [splitOn1]
  | cons x t ih =>
    unfold splitOn1
    split
    · intro p hp
      simp only [List.mem_cons] at hp
      rcases hp with rfl | hp
      · simp
      · exact ih p hp
    · rename_i hx
      split
      · intro p hp
        simp only [List.mem_singleton] at hp
        subst hp
        simp [Ne.symm hx]
      · rename_i q qs heq
        intro p hp
        simp only [List.mem_cons] at hp
        rcases hp with rfl | hp
        · have := ih q (by rw [heq]; exact List.mem_cons_self ..)
          simp [Ne.symm hx, this]
        · exact ih p (by rw [heq]; exact List.mem_cons_of_mem _ hp)

theorem splitOn1_single (c : Nat) (p : Str) (h : c ∉ p) : splitOn1 c p = [p] := by
  induction p with
  | nil => rfl
  | cons x t ih =>
    simp only [List.mem_cons, not_or] at h
    unfold splitOn1
    rw [if_neg (Ne.symm h.1), ih h.2]

theorem splitOn1_append (c : Nat) (p rest : Str) (h : c ∉ p) :
    splitOn1 c (p ++ c :: rest) = p :: splitOn1 c rest := by
  induction p with
  | nil => simp [splitOn1]
  | cons x t ih =>
    simp only [List.mem_cons, not_or] at h
    simp only [List.cons_append]
    rw [splitOn1, if_neg (Ne.symm h.1), ih h.2]

theorem splitOn1_join (c : Nat) (l : List Str) (hne : l ≠ []) (h : ∀ p ∈ l, c ∉ p) :
    splitOn1 c (joinWith [c] l) = l := by
  induction l with
  | nil => exact absurd rfl hne
  | cons x r ih =>
    cases r with
    | nil => simpa [joinWith] using splitOn1_single c x (h x (List.mem_cons_self ..))
    | cons y t =>
      simp only [joinWith, List.append_assoc, List.singleton_append]
      rw [splitOn1_append c x _ (h x (List.mem_cons_self ..)),
        ih (by simp) (fun p hp => h p (List.mem_cons_of_mem _ hp))]

theorem joinWith_head (sep : Str) (x : Str) (r : List Str) :
    ∃ rest, joinWith sep (x :: r) = x ++ rest := by
  cases r with
  | nil => exact ⟨[], by simp [joinWith]⟩
  | cons y t => exact ⟨sep ++ joinWith sep (y :: t), by simp [joinWith]⟩

/-- the text of a joined non-empty list ends with its last element, preceded by a separator when
there is more than one element -/
theorem joinWith_last (c : Nat) (l : List Str) (hne : l ≠ []) :
    ∃ z, l.getLast? = some z ∧ (joinWith [c] l = z ∨ ∃ pre, joinWith [c] l = pre ++ c :: z) := by
  induction l with
  | nil => exact absurd rfl hne
  | cons x r ih =>
    cases r with
    | nil => exact ⟨x, by simp, Or.inl (by simp [joinWith])⟩
    | cons y t =>
      obtain ⟨z, hz, hj⟩ := ih (by simp)
      refine ⟨z, by simpa [List.getLast?_cons_cons] using hz, Or.inr ?_⟩
      rcases hj with hj | ⟨pre, hj⟩
      · exact ⟨x, by simp [joinWith, hj]⟩
      · exact ⟨x ++ c :: pre, by simp [joinWith, hj]⟩

/-! ## `_remove_path_dot_segments` -/

/-- a segment that may stay in the output: no `/` inside, neither `.` nor `..` -/
def CleanSeg (x : Str) : Prop := 47 ∉ x ∧ x ≠ dot ∧ x ≠ dotdot

theorem cleanSeg_nil : CleanSeg [] := by simp [CleanSeg, dot, dotdot]

theorem dotLoop_clean (l out : List Str) (hl : ∀ x ∈ l, 47 ∉ x) (ho : ∀ x ∈ out, CleanSeg x) :
    ∀ x ∈ dotLoop l out, CleanSeg x := by
  induction l generalizing out with
  | nil => simpa [dotLoop] using ho
  | cons seg rest ih =>
    have hrest : ∀ x ∈ rest, 47 ∉ x := fun x hx => hl x (List.mem_cons_of_mem _ hx)
    unfold dotLoop
    split
    · exact ih out hrest ho
    · rename_i h1
      split
      · rename_i h2
        apply ih _ hrest
        intro x hx
        simp only [List.mem_cons] at hx
        rcases hx with rfl | hx
        · exact ⟨hl _ (List.mem_cons_self ..), h1, h2⟩
        · exact ho x hx
      · apply ih _ hrest
        intro x hx
        exact ho x (List.mem_of_mem_tail hx)

theorem dotLoop_nodots (l out : List Str) (hl : ∀ x ∈ l, x ≠ dot ∧ x ≠ dotdot) :
    dotLoop l out = l.reverse ++ out := by
  induction l generalizing out with
  | nil => simp [dotLoop]
  | cons seg rest ih =>
    have h := hl seg (List.mem_cons_self ..)
    unfold dotLoop
    rw [if_neg h.1, if_pos h.2, ih _ (fun x hx => hl x (List.mem_cons_of_mem _ hx))]
    simp

/-- the final `output` list of `_remove_path_dot_segments` -/
def dotOutput (path : Str) : List Str :=
  let output := (dotLoop (splitOn1 47 path) []).reverse
  let output :=
    if path.head? = some 47 && (output.isEmpty || output.head? != some []) then [] :: output else output
  if endsWith path [47, 46] || endsWith path [47, 46, 46] then output ++ [[]] else output

theorem removeDotSegments_eq (p : Str) : removeDotSegments p = joinWith [47] (dotOutput p) := rfl

theorem dotOutput_clean (p : Str) : ∀ x ∈ dotOutput p, CleanSeg x := by
  have h0 : ∀ x ∈ (dotLoop (splitOn1 47 p) []).reverse, CleanSeg x := by
    intro x hx
    rw [List.mem_reverse] at hx
    exact dotLoop_clean _ [] (splitOn1_no_sep 47 p) (by simp) x hx
  intro x hx
  unfold dotOutput at hx
  simp only at hx
  split at hx
  · simp only [List.mem_append, List.mem_singleton] at hx
    rcases hx with hx | rfl
    · split at hx
      · simp only [List.mem_cons] at hx
        rcases hx with rfl | hx
        · exact cleanSeg_nil
        · exact h0 x hx
      · exact h0 x hx
    · exact cleanSeg_nil
  · split at hx
    · simp only [List.mem_cons] at hx
      rcases hx with rfl | hx
      · exact cleanSeg_nil
      · exact h0 x hx
    · exact h0 x hx

/-- no `.` / `..` segment remains -/
theorem removeDotSegments_no_dots (p : Str) :
    ∀ seg ∈ splitOn1 47 (removeDotSegments p), seg ≠ dot ∧ seg ≠ dotdot := by
  rw [removeDotSegments_eq]
  by_cases hne : dotOutput p = []
  · rw [hne]
    simp [joinWith, splitOn1, dot, dotdot]
  · rw [splitOn1_join 47 _ hne (fun x hx => (dotOutput_clean p x hx).1)]
    intro seg hs
    exact (dotOutput_clean p seg hs).2

theorem not_endsWith_dot (r w : Str) (hr : 47 ∉ r) (hw : w = [] ∨ ∃ w', w = 47 :: w')
    (h : isPrefix [46, 47] (r ++ w) = true) : r = [46] := by
  match r, hr with
  | [], _ =>
    rcases hw with rfl | ⟨w', rfl⟩ <;> simp [isPrefix] at h
  | [a], _ =>
    rcases hw with rfl | ⟨w', rfl⟩
    · simp [isPrefix] at h
    · simp [isPrefix] at h; simp [h]
  | a :: b :: t, hr =>
    simp only [List.mem_cons, not_or] at hr
    simp [isPrefix] at h
    omega

theorem not_endsWith_dotdot (r w : Str) (hr : 47 ∉ r) (hw : w = [] ∨ ∃ w', w = 47 :: w')
    (h : isPrefix [46, 46, 47] (r ++ w) = true) : r = [46, 46] := by
  match r, hr with
  | [], _ =>
    rcases hw with rfl | ⟨w', rfl⟩ <;> simp [isPrefix] at h
  | [a], _ =>
    rcases hw with rfl | ⟨w', rfl⟩
    · simp [isPrefix] at h
    · simp [isPrefix] at h
  | [a, b], _ =>
    rcases hw with rfl | ⟨w', rfl⟩
    · simp [isPrefix] at h
    · simp [isPrefix] at h; simp [h]
  | a :: b :: c :: t, hr =>
    simp only [List.mem_cons, not_or] at hr
    simp [isPrefix] at h
    omega

theorem join_clean_not_endsWith (l : List Str) (hne : l ≠ []) (hc : ∀ x ∈ l, CleanSeg x) :
    endsWith (joinWith [47] l) [47, 46] = false ∧ endsWith (joinWith [47] l) [47, 46, 46] = false := by
  obtain ⟨z, hz, hj⟩ := joinWith_last 47 l hne
  have hzc : CleanSeg z := hc z (List.mem_of_getLast? hz)
  have hrz : 47 ∉ z.reverse := by simpa using hzc.1
  have hrev : ∃ w, (joinWith [47] l).reverse = z.reverse ++ w ∧ (w = [] ∨ ∃ w', w = 47 :: w') := by
    rcases hj with hj | ⟨pre, hj⟩
    · exact ⟨[], by simp [hj], Or.inl rfl⟩
    · exact ⟨47 :: pre.reverse, by simp [hj], Or.inr ⟨_, rfl⟩⟩
  obtain ⟨w, hw, hww⟩ := hrev
  constructor
  · cases hE : endsWith (joinWith [47] l) [47, 46] with
    | false => rfl
    | true =>
      simp only [endsWith, hw] at hE
      have := not_endsWith_dot z.reverse w hrz hww (by simpa using hE)
      have hz' : z = [46] := by simpa using congrArg List.reverse this
      exact absurd hz' hzc.2.1
  · cases hE : endsWith (joinWith [47] l) [47, 46, 46] with
    | false => rfl
    | true =>
      simp only [endsWith, hw] at hE
      have := not_endsWith_dotdot z.reverse w hrz hww (by simpa using hE)
      have hz' : z = [46, 46] := by simpa using congrArg List.reverse this
      exact absurd hz' hzc.2.2

/-- a `/`-joined list of clean segments is a fixed point -/
theorem removeDotSegments_fixed (l : List Str) (hc : ∀ x ∈ l, CleanSeg x) :
    removeDotSegments (joinWith [47] l) = joinWith [47] l := by
  by_cases hne : l = []
  · subst hne; decide
  · have hsplit := splitOn1_join 47 l hne (fun x hx => (hc x hx).1)
    have hend := join_clean_not_endsWith l hne hc
    have hloop : (dotLoop l []).reverse = l := by
      rw [dotLoop_nodots l [] (fun x hx => (hc x hx).2)]; simp
    have hhead : ((joinWith [47] l).head? = some 47 && (l.isEmpty || l.head? != some [])) = false := by
      match l, hne, hc with
      | x :: r, _, hc =>
        obtain ⟨rest, hr⟩ := joinWith_head [47] x r
        cases x with
        | nil => simp
        | cons a t =>
          have : a ≠ 47 := by
            have := (hc (a :: t) (List.mem_cons_self ..)).1
            simp only [List.mem_cons, not_or] at this
            exact Ne.symm this.1
          simp [hr, this]
    simp only [removeDotSegments, hsplit, hloop, hhead, hend.1, hend.2]
    simp

theorem removeDotSegments_idempotent (p : Str) :
    removeDotSegments (removeDotSegments p) = removeDotSegments p := by
  rw [removeDotSegments_eq p]
  exact removeDotSegments_fixed _ (dotOutput_clean p)

/-! ## facts about the generated character sets -/

theorem isHexUp_cases {c : Nat} (h : isHexUp c = true) :
    c ∈ [48, 49, 50, 51, 52, 53, 54, 55, 56, 57, 65, 66, 67, 68, 69, 70] := by
  simp only [isHexUp, isDigitC, Bool.or_eq_true, Bool.and_eq_true, decide_eq_true_eq] at h
  simp only [List.mem_cons, List.not_mem_nil, or_false]
  omega

/-- the property of an allowed set the encoder's idempotence needs: `%` is not in it, the upper-case
hex digits are -/
def EncSet (A : List Nat) : Prop :=
  mem A 37 = false ∧ ∀ c, isHexUp c = true → mem A c = true

theorem encSet_of (A : List Nat) (h37 : mem A 37 = false)
    (h : ∀ c ∈ [48, 49, 50, 51, 52, 53, 54, 55, 56, 57, 65, 66, 67, 68, 69, 70], mem A c = true) :
    EncSet A := ⟨h37, fun c hc => h c (isHexUp_cases hc)⟩

theorem encSet_unreserved : EncSet Gen.unreservedChars := encSet_of _ (by decide) (by decide)
theorem encSet_userinfo : EncSet Gen.userinfoChars := encSet_of _ (by decide) (by decide)
theorem encSet_path : EncSet Gen.pathChars := encSet_of _ (by decide) (by decide)
theorem encSet_query : EncSet Gen.queryChars := encSet_of _ (by decide) (by decide)
theorem encSet_fragment : EncSet Gen.fragmentChars := encSet_of _ (by decide) (by decide)

theorem normalForm_nil (A : List Nat) : NormalForm A [] := ⟨[], by simp, rfl⟩

theorem normalForm_cons (A : List Nat) (c : Nat) (s : Str) (hc : (Tok.chr c).good A = true)
    (h : NormalForm A s) : NormalForm A (c :: s) := by
  obtain ⟨ts, hg, e⟩ := h
  refine ⟨.chr c :: ts, ?_, by simp [e, Tok.text]⟩
  intro t ht
  simp only [List.mem_cons] at ht
  rcases ht with rfl | ht
  · exact hc
  · exact hg t ht

/-! ## the `Except` plumbing of `parse_url` -/

theorem bind_ok {α β : Type} {x : Except Exc α} {f : α → Except Exc β} {b : β}
    (h : (x >>= f) = .ok b) : ∃ a, x = .ok a ∧ f a = .ok b := by
  cases x with
  | error e => simp [bind, Except.bind] at h
  | ok a => exact ⟨a, rfl, by simpa [bind, Except.bind] using h⟩

theorem bind_err {α β : Type} {x : Except Exc α} {f : α → Except Exc β} {e : Exc}
    (h : (x >>= f) = .error e) : x = .error e ∨ ∃ a, x = .ok a ∧ f a = .error e := by
  cases x with
  | error e' => left; simpa [bind, Except.bind] using h
  | ok a => right; exact ⟨a, rfl, by simpa [bind, Except.bind] using h⟩

theorem parseAuthority_err {n : Bool} {a : Option Str} {e : Exc}
    (h : parseAuthority n a = .error e) : e = .attributeError := by
  unfold parseAuthority at h
  split at h
  · simp at h
  · split at h
    · simp at h
    · simp only at h
      split at h
      · simpa using h.symm
      · simp at h

theorem portToInt_err {p : Option Str} {e : Exc} (h : portToInt p = .error e) :
    e = .locationParseError := by
  unfold portToInt at h
  split at h
  · split at h
    · simp at h
    · simpa using h.symm
  · simp at h

theorem portToInt_ok {p : Option Str} {r : Option Nat} (h : portToInt p = .ok r) :
    ∀ n, r = some n → n ≤ 65535 := by
  unfold portToInt at h
  split at h
  · split at h
    · rename_i hle
      intro n hn
      simp only [Except.ok.injEq] at h
      subst h
      simp only [Option.some.injEq] at hn
      omega
    · simp at h
  · intro n hn
    simp only [Except.ok.injEq] at h
    subst h
    simp at hn

theorem mapM_err {α β : Type} (f : α → Except Exc β) (l : List α) (e : Exc)
    (h : l.mapM f = .error e) : ∃ x ∈ l, f x = .error e := by
  induction l with
  | nil => simp [pure, Except.pure] at h
  | cons x r ih =>
    rw [List.mapM_cons] at h
    rcases bind_err h with h1 | ⟨b, _, h2⟩
    · exact ⟨x, List.mem_cons_self .., h1⟩
    · rcases bind_err h2 with h3 | ⟨bs, _, h4⟩
      · obtain ⟨y, hy, hf⟩ := ih h3
        exact ⟨y, List.mem_cons_of_mem _ hy, hf⟩
      · simp [pure, Except.pure] at h4

theorem idnaEncode_err {idna : Str → Option Str} {l : Str} {e : Exc}
    (h : idnaEncode idna l = .error e) : e = .locationParseError := by
  unfold idnaEncode at h
  split at h
  · simp at h
  · split at h
    · simp at h
    · simpa using h.symm

theorem normalizeHost_err {idna : Str → Option Str} {h : Option Str} {sc : Option Str} {e : Exc}
    (he : normalizeHost idna h sc = .error e) : e = .locationParseError := by
  unfold normalizeHost at he
  split at he
  · simp at he
  · split at he
    · simp at he
    · split at he
      · split at he
        · simp only at he
          split at he <;> simp at he
        · split at he
          · simp at he
          · rcases bind_err he with h1 | ⟨ls, _, h2⟩
            · obtain ⟨x, _, hx⟩ := mapM_err _ _ _ h1
              exact idnaEncode_err hx
            · simp at h2
      · simp at he

theorem parseCore_err {idna : Str → Option Str} {s : Str} {e : Exc}
    (h : parseCore idna s = .error e) : e = .attributeError ∨ e = .locationParseError := by
  unfold parseCore at h
  simp only at h
  rcases bind_err h with h1 | ⟨ahp, _, h2⟩
  · exact Or.inl (parseAuthority_err h1)
  · rcases bind_err h2 with h3 | ⟨pi, _, h4⟩
    · exact Or.inr (portToInt_err h3)
    · rcases bind_err h4 with h5 | ⟨ho, _, h6⟩
      · exact Or.inr (normalizeHost_err h5)
      · simp [pure, Except.pure] at h6

theorem funnel_ok {α : Type} {x : Except Exc α} {a : α} (h : funnel x = .ok a) : x = .ok a := by
  cases x with
  | ok b => simpa [funnel] using h
  | error e => cases e <;> simp [funnel] at h

/-- a successful parse of a non-empty string, taken apart -/
theorem parseUrlWith_ok {idna : Str → Option Str} {s : Str} {u : Url} (h : parseUrlWith idna s = .ok u) :
    u = Url.empty ∨ ∃ sc au ho po pa q f, parseCore idna s = .ok (sc, au, ho, po, pa, q, f) ∧
      u = mkUrl sc au ho po
        (if pa.isEmpty then (if q.isSome || f.isSome then some [] else none) else some pa) q f := by
  unfold parseUrlWith at h
  split at h
  · left; simpa using h.symm
  · right
    split at h
    · simp at h
    · rename_i sc au ho po pa q f hf
      exact ⟨sc, au, ho, po, pa, q, f, funnel_ok hf, by simpa using h.symm⟩

theorem parseCore_ok {idna : Str → Option Str} {s : Str}
    {sc au ho : Option Str} {po : Option Nat} {pa : Str} {q f : Option Str}
    (h : parseCore idna s = .ok (sc, au, ho, po, pa, q, f)) :
    ∃ (sc0 : Option Str) (authority : Option Str) (p0 : Str) (q0 f0 : Option Str)
      (h0 : Option Str) (port : Option Str),
      sc = sc0.map lower ∧
      parseAuthority (normalizeUriOf sc0) authority = .ok (au, h0, port) ∧
      portToInt port = .ok po ∧
      normalizeHost idna h0 sc = .ok ho ∧
      pa = normPath (normalizeUriOf sc0) p0 ∧
      q = normOpt (normalizeUriOf sc0) Gen.queryChars q0 ∧
      f = normOpt (normalizeUriOf sc0) Gen.fragmentChars f0 := by
  unfold parseCore at h
  simp only at h
  obtain ⟨ahp, h1, h2⟩ := bind_ok h
  obtain ⟨pi, h3, h4⟩ := bind_ok h2
  obtain ⟨hh, h5, h6⟩ := bind_ok h4
  simp only [pure, Except.pure, Except.ok.injEq, Prod.mk.injEq] at h6
  obtain ⟨e1, e2, e3, e4, e5, e6, e7⟩ := h6
  refine ⟨_, (splitAuthority (splitScheme (if schemeRe s = true then s else 47 :: 47 :: s)).2).1,
    _, _, _, ahp.2.1, ahp.2.2, e1.symm, ?_, ?_, ?_, e5.symm, e6.symm, e7.symm⟩
  · rw [h1, ← e2]
  · rw [h3, e4]
  · rw [← e1, h5, e3]

theorem normalizeUriOf_of_scheme {sc0 : Option Str}
    (h : (sc0.map lower).map lower ∈ [some [104, 116, 116, 112], some [104, 116, 116, 112, 115], none]) :
    normalizeUriOf sc0 = true := by
  cases sc0 with
  | none => rfl
  | some s =>
    simp only [Option.map_some, lower_idem, List.mem_cons, Option.some.injEq, List.not_mem_nil,
      or_false, reduceCtorEq] at h
    rcases h with h | h <;> simp [normalizeUriOf, h] <;> decide

theorem parseAuthority_auth_normal {a : Option Str} {au h0 port : Option Str}
    (h : parseAuthority true a = .ok (au, h0, port)) : ∀ x, au = some x → NormalForm Gen.userinfoChars x := by
  unfold parseAuthority at h
  split at h
  · simp only [Except.ok.injEq, Prod.mk.injEq] at h
    intro x hx; rw [← h.1] at hx; simp at hx
  · split at h
    · simp only [Except.ok.injEq, Prod.mk.injEq] at h
      intro x hx; rw [← h.1] at hx; simp at hx
    · simp only at h
      split at h
      · simp at h
      · simp only [Except.ok.injEq, Prod.mk.injEq, if_true] at h
        intro x hx
        rw [← h.1] at hx
        split at hx
        · simp at hx
        · simp only [Option.some.injEq] at hx
          rw [← hx]
          exact encode_normal _ encSet_userinfo.1 encSet_userinfo.2 _

theorem normOpt_normal {A : List Nat} (hA : EncSet A) {q : Option Str} :
    ∀ x, normOpt true A q = some x → NormalForm A x := by
  intro x hx
  unfold normOpt at hx
  split at hx
  · rename_i q'
    split at hx
    · simp only [Option.some.injEq] at hx
      rw [← hx]
      exact encode_normal _ hA.1 hA.2 _
    · rename_i hne
      simp only [Option.some.injEq] at hx
      have : q' = [] := by simpa using hne
      rw [← hx, this]
      exact normalForm_nil A
  · simp at hx

theorem normPath_normal (p : Str) : NormalForm Gen.pathChars (normPath true p) := by
  unfold normPath
  split
  · exact encode_normal _ encSet_path.1 encSet_path.2 _
  · rename_i hne
    have : p = [] := by simpa using hne
    rw [this]
    exact normalForm_nil _

/-! ## host lower-casing -/

theorem mapM_ok {α β : Type} (f : α → Except Exc β) (l : List α) (ls : List β)
    (h : l.mapM f = .ok ls) : ∀ y ∈ ls, ∃ x ∈ l, f x = .ok y := by
  induction l generalizing ls with
  | nil => simp [pure, Except.pure] at h; subst h; simp
  | cons x r ih =>
    rw [List.mapM_cons] at h
    obtain ⟨b, hb, h2⟩ := bind_ok h
    obtain ⟨bs, hbs, h3⟩ := bind_ok h2
    simp only [pure, Except.pure, Except.ok.injEq] at h3
    subst h3
    intro y hy
    simp only [List.mem_cons] at hy
    rcases hy with rfl | hy
    · exact ⟨x, List.mem_cons_self .., hb⟩
    · obtain ⟨z, hz, hf⟩ := ih bs hbs y hy
      exact ⟨z, List.mem_cons_of_mem _ hz, hf⟩

theorem lower_joinWith (sep : Str) (l : List Str) :
    lower (joinWith sep l) = joinWith (lower sep) (l.map lower) := by
  induction l with
  | nil => rfl
  | cons x r ih =>
    cases r with
    | nil => simp [joinWith]
    | cons y t => simp only [joinWith, lower_append, List.map_cons] at ih ⊢; rw [ih]

theorem idnaEncode_lower {idna : Str → Option Str} (hc : ∀ l r, idna l = some r → lower r = r)
    {l y : Str} (h : idnaEncode idna l = .ok y) : lower y = y := by
  unfold idnaEncode at h
  split at h
  · simp only [Except.ok.injEq] at h; subst h; exact lower_idem l
  · split at h
    · rename_i r hr
      simp only [Except.ok.injEq] at h; subst h; exact hc _ _ hr
    · simp at h

theorem normalizeHost_lower {idna : Str → Option Str} (hc : ∀ l r, idna l = some r → lower r = r)
    (h : Str) (sc : Option Str) (hs : Gen.normalizableSchemes.contains sc = true)
    (h4 : ipv4Match h = false)
    (hz : ipv6AddrzMatch h = true → h.dropWhile (· != 37) = [])
    (h' : Str) (hh : normalizeHost idna (some h) sc = .ok (some h')) : lower h' = h' := by
  unfold normalizeHost at hh
  simp only [hs, if_true] at hh
  split at hh
  · simp only [Except.ok.injEq, Option.some.injEq] at hh; subst hh
    rename_i he
    have : h = [] := by simpa using he
    subst this; rfl
  · split at hh
    · rename_i h6
      have := hz h6
      simp only [this, List.isEmpty_nil, if_true, Except.ok.injEq, Option.some.injEq] at hh
      subst hh; exact lower_idem h
    · simp only [h4, Bool.false_eq_true, if_false] at hh
      obtain ⟨ls, hls, h2⟩ := bind_ok hh
      simp only [Except.ok.injEq, Option.some.injEq] at h2
      subst h2
      rw [lower_joinWith]
      have hl : ∀ y ∈ ls, lower y = id y := fun y hy => by
        obtain ⟨x, _, hx⟩ := mapM_ok _ _ _ hls y hy
        exact idnaEncode_lower hc hx
      rw [List.map_congr_left hl, List.map_id]
      rfl

/-! ## agreement with the reference reading -/

theorem takeWhile_append_stop {p : Nat → Bool} (r : Str) (y : Nat) (b : Str)
    (hr : ∀ x ∈ r, p x = true) (hy : p y = false) :
    (r ++ y :: b).takeWhile p = r ∧ (r ++ y :: b).dropWhile p = y :: b := by
  induction r with
  | nil => simp [List.takeWhile, List.dropWhile, hy]
  | cons x t ih =>
    have hx := hr x (List.mem_cons_self ..)
    have := ih (fun z hz => hr z (List.mem_cons_of_mem _ hz))
    simp [List.takeWhile, List.dropWhile, hx, this]

theorem takeWhile_all {p : Nat → Bool} (r : Str) (hr : ∀ x ∈ r, p x = true) :
    r.takeWhile p = r ∧ r.dropWhile p = [] := by
  induction r with
  | nil => simp
  | cons x t ih =>
    have hx := hr x (List.mem_cons_self ..)
    have := ih (fun z hz => hr z (List.mem_cons_of_mem _ hz))
    simp [List.takeWhile, List.dropWhile, hx, this]

theorem hexC_ne58 {c : Nat} (h : isHexC c = true) : c ≠ 58 := by
  simp only [isHexC, isDigitC, Bool.or_eq_true, Bool.and_eq_true, decide_eq_true_eq] at h
  omega

/-- the reg-name run contains no `:` -/
theorem regName_no58 (ts : List Tok) (hok : ∀ t ∈ ts, t.ok = true) (hr : ∀ t ∈ ts, regNameTok t = true) :
    ∀ x ∈ renderToks ts, (x != 58) = true := by
  induction ts with
  | nil => simp
  | cons t r ih =>
    have ih' := ih (fun x hx => hok x (List.mem_cons_of_mem _ hx)) (fun x hx => hr x (List.mem_cons_of_mem _ hx))
    have ht := hr t (List.mem_cons_self ..)
    have hk := hok t (List.mem_cons_self ..)
    intro x hx
    simp only [render_cons, List.mem_append] at hx
    rcases hx with hx | hx
    · cases t with
      | chr c =>
        simp only [Tok.text, List.mem_singleton] at hx
        subst hx
        simp only [regNameTok, regNameChar] at ht
        simp only [bne_iff_ne, ne_eq]
        intro e; subst e; simp at ht
      | esc a b =>
        simp only [Tok.ok, Bool.and_eq_true] at hk
        simp only [Tok.text, List.mem_cons, List.not_mem_nil, or_false] at hx
        simp only [bne_iff_ne, ne_eq]
        rcases hx with rfl | rfl | rfl
        · decide
        · exact hexC_ne58 hk.1
        · exact hexC_ne58 hk.2
    · exact ih' x hx

/-- what is left after the reg-name run is empty or starts with a character outside the reg-name
class -/
theorem regName_rest (ts : List Tok) :
    renderToks (ts.dropWhile regNameTok) = [] ∨
      ∃ c r, renderToks (ts.dropWhile regNameTok) = c :: r ∧ regNameChar c = false := by
  induction ts with
  | nil => simp
  | cons t r ih =>
    simp only [List.dropWhile]
    cases ht : regNameTok t with
    | true => simpa using ih
    | false =>
      right
      cases t with
      | chr c => exact ⟨c, renderToks r, by simp [Tok.text], by simpa [regNameTok] using ht⟩
      | esc a b => simp [regNameTok] at ht

theorem mem_takeWhile_p {p : Nat → Bool} {l : Str} {x : Nat} (h : x ∈ l.takeWhile p) : p x = true := by
  induction l with
  | nil => simp at h
  | cons y t ih =>
    simp only [List.takeWhile] at h
    split at h
    · simp only [List.mem_cons] at h
      rcases h with rfl | h
      · assumption
      · exact ih h
    · simp at h

theorem mem_takeWhile_tok {p : Tok → Bool} {l : List Tok} {x : Tok} (h : x ∈ l.takeWhile p) : p x = true := by
  induction l with
  | nil => simp at h
  | cons y t ih =>
    simp only [List.takeWhile] at h
    split at h
    · simp only [List.mem_cons] at h
      rcases h with rfl | h
      · assumption
      · exact ih h
    · simp at h

theorem decNat_zeros (z d : Str) (hz : ∀ c ∈ z, c = 48) : decNat (z ++ d) = decNat d := by
  unfold decNat
  rw [List.foldl_append]
  congr 1
  induction z with
  | nil => rfl
  | cons c t ih =>
    have hc := hz c (List.mem_cons_self ..)
    subst hc
    simpa using ih (fun x hx => hz x (List.mem_cons_of_mem _ hx))

/-- value of the captured port = value of the whole port text; the text is all digits -/
theorem portCapture_value (b cap : Str) (h : portCapture b = some cap) :
    (if cap.isEmpty then none else some (decNat cap)) = (if b.isEmpty then none else some (decNat b)) ∧
    b.all isDigitC = true := by
  have hsplit : b = b.takeWhile (· == 48) ++ b.dropWhile (· == 48) := (List.takeWhile_append_dropWhile).symm
  have hz : ∀ c ∈ b.takeWhile (· == 48), c = 48 := by
    intro c hc
    simpa using mem_takeWhile_p hc
  have hzd : (b.takeWhile (· == 48)).all isDigitC = true := by
    rw [List.all_eq_true]
    intro c hc
    rw [hz c hc]; decide
  unfold portCapture at h
  simp only at h
  split at h
  · rename_i hd
    have hd' : b.dropWhile (· == 48) = [] := by simpa using hd
    split at h
    · rename_i hb
      have hb' : b = [] := by simpa using hb
      simp only [Option.some.injEq] at h
      subst h; subst hb'
      simp
    · rename_i hb
      simp only [Option.some.injEq] at h
      subst h
      have e : decNat b = 0 := by
        rw [hsplit, hd', decNat_zeros _ _ hz]; rfl
      constructor
      · have e0 : decNat [48] = 0 := rfl
        simp [hb, e, e0]
      · rw [hsplit, hd']; simpa using hzd
  · split at h
    · rename_i hd hall
      simp only [Option.some.injEq] at h
      subst h
      simp only [Bool.and_eq_true, decide_eq_true_eq] at hall
      have hbne : b.isEmpty = false := by
        cases b with
        | nil => simp at hd
        | cons _ _ => rfl
      constructor
      · rw [if_neg hd, hbne]
        simp only [Bool.false_eq_true, if_false, Option.some.injEq]
        conv => rhs; rw [hsplit, decNat_zeros _ _ hz]
      · rw [hsplit, List.all_append, hzd, hall.1]; rfl
    · simp at h

theorem stripNl_of_not_nl (b : Str) (h : b.getLast? ≠ some 10) : stripNl b = b := by
  simp [stripNl, h]

/-- the port value `parse_url` computes from group 2 of `_HOST_PORT_RE` -/
def portVal : Option Str → Option Nat
  | some d => if d.isEmpty then none else some (decNat d)
  | none => none

theorem portPart_colon (q : Str) (p : Option Str)
    (h : portPart (58 :: q) = some p) :
    portVal p = refPortValue (some q) ∧ q.all isDigitC = true := by
  simp only [portPart] at h
  cases hc : portCapture q with
  | none => simp [hc] at h
  | some cap =>
    simp only [hc, Option.map_some, Option.some.injEq] at h
    subst h
    have := portCapture_value q cap hc
    exact ⟨by simpa [portVal, refPortValue] using this.1, this.2⟩

theorem tokenize_bracket (t : Str) : tokenize (91 :: t) = .chr 91 :: tokenize t := by
  simp [tokenize, tokAux]

theorem hostPortBracket_ref (hp h : Str) (p : Option Str) (hm : hostPortBracket hp = some (h, p)) :
    h = (refHostPort hp).1 ∧ portVal p = refPortValue (refHostPort hp).2.1 ∧
    (∀ q, (refHostPort hp).2.1 = some q → q.all isDigitC = true) ∧
    (refHostPort hp).2.2 = true := by
  match hp, hm with
  | 91 :: t, hm =>
    cases hd : t.dropWhile (· != 93) with
    | nil => simp [hostPortBracket, hd] at hm
    | cons y rest' =>
      by_cases hy : y = 93
      · subst hy
        simp only [hostPortBracket, hd] at hm
        split at hm
        · cases rest' with
          | nil =>
            simp only [portPart, Option.map_some, Option.some.injEq, Prod.mk.injEq] at hm
            obtain ⟨rfl, rfl⟩ := hm
            simp [refHostPort, hd, portVal, refPortValue]
          | cons x q =>
            by_cases hx : x = 58
            · subst hx
              simp only [refHostPort, hd]
              cases hpp : portPart (58 :: q) with
              | none => simp [hpp] at hm
              | some p' =>
                simp only [hpp, Option.map_some, Option.some.injEq, Prod.mk.injEq] at hm
                obtain ⟨rfl, rfl⟩ := hm
                have := portPart_colon q p' hpp
                refine ⟨rfl, this.1, ?_, by first | rfl | trivial⟩
                intro q' hq'
                simp only [Option.some.injEq] at hq'
                subst hq'
                exact this.2
            · -- junk after the `]`: with `\Z` the port part does not match
              exfalso
              have : portPart (x :: q) = none := by
                unfold portPart
                split
                · rename_i heq; exact absurd heq (by simp)
                · rename_i heq; injection heq with h1 _; exact absurd h1 hx
                · rfl
              simp [this] at hm
        · simp at hm
      · simp only [hostPortBracket, hd] at hm
        split at hm
        · rename_i heq; injection heq with h1 _; exact absurd h1 hy
        · simp at hm
  | [], hm => simp [hostPortBracket] at hm

theorem refHostPort_nb (hp : Str) (h : ∀ t, hp ≠ 91 :: t) :
    refHostPort hp = (match hp.dropWhile (· != 58) with
      | 58 :: p => (hp.takeWhile (· != 58), some p, true)
      | _ => (hp.takeWhile (· != 58), none, true)) := by
  unfold refHostPort
  split
  · exact absurd rfl (h _)
  · rfl

theorem hostPortBracket_nb (hp : Str) (h : ∀ t, hp ≠ 91 :: t) : hostPortBracket hp = none := by
  unfold hostPortBracket
  split
  · exact absurd rfl (h _)
  · rfl

theorem portPart_head (c : Nat) (r : Str) (p : Option Str) (hc : regNameChar c = false)
    (h : portPart (c :: r) = some p) : c = 58 := by
  by_cases h58 : c = 58
  · exact h58
  · exfalso
    unfold portPart at h
    split at h
    · simp at *
    · rename_i heq
      injection heq with h1 _
      exact h58 h1
    · simp at h

/-- `_HOST_PORT_RE` and the reference reading cut `host [":" port]` at the same places -/
theorem hostPortRe_ref (hp h : Str) (p : Option Str) (hm : hostPortRe hp = some (h, p)) :
    h = (refHostPort hp).1 ∧ portVal p = refPortValue (refHostPort hp).2.1 ∧
    (∀ q, (refHostPort hp).2.1 = some q → q.all isDigitC = true) ∧
    (refHostPort hp).2.2 = true := by
  by_cases hb : ∃ t, hp = 91 :: t
  · obtain ⟨t, rfl⟩ := hb
    have e : List.flatMap Tok.text (Tok.chr 91 :: tokenize t) = 91 :: t := by
      have := render_tokenize (91 :: t)
      rw [tokenize_bracket] at this
      exact this
    have hp0 : portPart (91 :: t) = none := by simp [portPart]
    unfold hostPortRe at hm
    simp only [tokenize_bracket, List.dropWhile, regNameTok, regNameChar, beq_self_eq_true,
      Bool.true_or, Bool.not_true, e, hp0] at hm
    exact hostPortBracket_ref _ h p hm
  · have hnb : ∀ t, hp ≠ 91 :: t := fun t e => hb ⟨t, e⟩
    rw [refHostPort_nb hp hnb]
    unfold hostPortRe at hm
    simp only at hm
    have hok : ∀ x ∈ tokenize hp, x.ok = true := tokenize_ok _
    have hjoin : renderToks ((tokenize hp).takeWhile regNameTok) ++
        renderToks ((tokenize hp).dropWhile regNameTok) = hp := by
      rw [← render_append, List.takeWhile_append_dropWhile, render_tokenize]
    have hR58 := regName_no58 ((tokenize hp).takeWhile regNameTok)
      (fun x hx => hok x ((List.takeWhile_prefix _).subset hx))
      (fun x hx => mem_takeWhile_tok hx)
    change (match portPart (renderToks ((tokenize hp).dropWhile regNameTok)) with
      | some p => some (renderToks ((tokenize hp).takeWhile regNameTok), p)
      | none => hostPortBracket hp) = some (h, p) at hm
    generalize renderToks ((tokenize hp).takeWhile regNameTok) = R at hm hjoin hR58
    rcases regName_rest (tokenize hp) with hr | ⟨c, r, hr, hc⟩
    · rw [hr] at hm hjoin
      simp only [portPart, Option.some.injEq, Prod.mk.injEq] at hm
      obtain ⟨rfl, rfl⟩ := hm
      simp only [List.append_nil] at hjoin
      subst hjoin
      have := takeWhile_all R hR58
      simp [this.1, this.2, portVal, refPortValue]
    · rw [hr] at hm hjoin
      cases hpp : portPart (c :: r) with
      | none =>
        rw [hpp] at hm
        rw [hostPortBracket_nb hp hnb] at hm
        simp at hm
      | some p' =>
        rw [hpp] at hm
        simp only [Option.some.injEq, Prod.mk.injEq] at hm
        obtain ⟨rfl, rfl⟩ := hm
        have hc58 := portPart_head c r p' hc hpp
        subst hc58
        have hs := takeWhile_append_stop R 58 r hR58 (by decide)
        rw [← hjoin]
        simp only [hs.1, hs.2]
        have := portPart_colon r p' hpp
        refine ⟨by first | rfl | trivial, this.1, ?_, by first | rfl | trivial⟩
        intro q' hq'
        simp only [Option.some.injEq] at hq'
        subst hq'
        exact this.2

theorem parseCore_ok' {idna : Str → Option Str} {s : Str}
    {sc au ho : Option Str} {po : Option Nat} {pa : Str} {q f : Option Str}
    (h : parseCore idna s = .ok (sc, au, ho, po, pa, q, f)) :
    ∃ (h0 : Option Str) (port : Option Str),
      sc = (splitScheme (if schemeRe s = true then s else 47 :: 47 :: s)).1.map lower ∧
      parseAuthority (normalizeUriOf (splitScheme (if schemeRe s = true then s else 47 :: 47 :: s)).1)
        (splitAuthority (splitScheme (if schemeRe s = true then s else 47 :: 47 :: s)).2).1
          = .ok (au, h0, port) ∧
      portToInt port = .ok po ∧
      normalizeHost idna h0 sc = .ok ho := by
  unfold parseCore at h
  simp only at h
  obtain ⟨ahp, h1, h2⟩ := bind_ok h
  obtain ⟨pi, h3, h4⟩ := bind_ok h2
  obtain ⟨hh, h5, h6⟩ := bind_ok h4
  simp only [pure, Except.pure, Except.ok.injEq, Prod.mk.injEq] at h6
  obtain ⟨e1, e2, e3, e4, -, -, -⟩ := h6
  refine ⟨ahp.2.1, ahp.2.2, e1.symm, ?_, ?_, ?_⟩
  · rw [h1, ← e2]
  · rw [h3, e4]
  · rw [← e1, h5, e3]

theorem dropWhile_scheme1 (t : Str) (h : 46 ∉ t.takeWhile schemeChar) :
    t.dropWhile schemeChar1 = t.dropWhile schemeChar := by
  induction t with
  | nil => rfl
  | cons x r ih =>
    cases hx : schemeChar x with
    | true =>
      simp only [List.takeWhile, hx, List.mem_cons, not_or] at h
      have h1 : schemeChar1 x = true := by
        simp only [schemeChar, Bool.or_eq_true, beq_iff_eq] at hx
        rcases hx with hx | hx
        · exact hx
        · exact absurd hx.symm h.1
      simp only [List.dropWhile, hx, h1]
      exact ih h.2
    | false =>
      have h1 : schemeChar1 x = false := by
        cases h1 : schemeChar1 x with
        | false => rfl
        | true => simp [schemeChar, h1] at hx
      simp [List.dropWhile, hx, h1]

theorem refAuthOfHier_some {x : Str} {r : RefAuth} (h : refAuthOfHier x = some r) :
    ∃ t' : Str, x = 47 :: 47 :: t' ∧ r = refAuthOfText (t'.takeWhile authChar) := by
  unfold refAuthOfHier at h
  split at h
  · rename_i t'
    simp only [Option.some.injEq] at h
    exact ⟨t', rfl, h.symm⟩
  · simp at h

theorem alpha_ne47 {c : Nat} (h : isAlphaC c = true) : c ≠ 47 := by
  intro e; subst e; simp [isAlphaC, isUpperC, isLowerC] at h

/-- the front end (`_SCHEME_RE`, `_URI_RE`) hands the matcher the authority text of the reference
reading, provided the RFC scheme has no `.` -/
theorem front_end (s : Str) (r : RefAuth) (hr : refAuthority s = some r)
    (hdot : ∀ sch, refScheme s = some sch → 46 ∉ sch) :
    schemeRe s = true ∧ ∃ t' : Str, (splitAuthority (splitScheme s).2).1 = some (t'.takeWhile authChar) ∧
      r = refAuthOfText (t'.takeWhile authChar) := by
  cases s with
  | nil => simp [refAuthority, refSchemeRest, refAuthOfHier] at hr
  | cons c t =>
    by_cases ha : isAlphaC c = true
    · have hc47 := alpha_ne47 ha
      have hno : ∀ r', refAuthOfHier (c :: t) = some r' → False := by
        intro r' h'
        obtain ⟨t', e, -⟩ := refAuthOfHier_some h'
        injection e with e1 _
        exact hc47 e1
      cases hd : t.dropWhile schemeChar with
      | nil =>
        have : refSchemeRest (c :: t) = none := by simp [refSchemeRest, ha, hd]
        simp only [refAuthority, this] at hr
        exact absurd hr (fun h' => hno r h')
      | cons y rest =>
        by_cases hy : y = 58
        · subst hy
          have : refSchemeRest (c :: t) = some rest := by simp [refSchemeRest, ha, hd]
          simp only [refAuthority, this] at hr
          obtain ⟨t', rfl, hrr⟩ := refAuthOfHier_some hr
          have hsch : refScheme (c :: t) = some (c :: t.takeWhile schemeChar) := by
            simp [refScheme, ha, hd]
          have hnd := hdot _ hsch
          simp only [List.mem_cons, not_or] at hnd
          have hd1 := dropWhile_scheme1 t hnd.2
          refine ⟨by simp [schemeRe, hc47, ha, hd1, hd], t', ?_, hrr⟩
          simp [splitScheme, ha, hd, splitAuthority]
        · exfalso
          have : refSchemeRest (c :: t) = none := by
            simp only [refSchemeRest, ha, if_true, hd]
            split
            · rename_i heq; injection heq with h1 _; exact absurd h1 hy
            · rfl
          simp only [refAuthority, this] at hr
          exact hno r hr
    · have : refSchemeRest (c :: t) = none := by simp [refSchemeRest, ha]
      simp only [refAuthority, this] at hr
      obtain ⟨t', e, hrr⟩ := refAuthOfHier_some hr
      injection e with e1 e2
      subst e1; subst e2
      refine ⟨by simp [schemeRe], t', ?_, hrr⟩
      simp [splitScheme, isAlphaC, isUpperC, isLowerC, splitAuthority]

theorem normalizeHost_some {idna : Str → Option Str} {h : Str} {sc ho : Option Str}
    (he : normalizeHost idna (some h) sc = .ok ho) : ∃ x, ho = some x := by
  unfold normalizeHost at he
  simp only at he
  split at he
  · exact ⟨_, by simpa using he.symm⟩
  · split at he
    · split at he
      · split at he <;> exact ⟨_, by simpa using he.symm⟩
      · split at he
        · exact ⟨_, by simpa using he.symm⟩
        · obtain ⟨ls, _, h2⟩ := bind_ok he
          exact ⟨_, by simpa using h2.symm⟩
    · exact ⟨_, by simpa using he.symm⟩

theorem normalizeUriOf_eq (sc0 : Option Str) (hn : Gen.normalizableSchemes.contains none = true) :
    normalizeUriOf sc0 = Gen.normalizableSchemes.contains ((sc0.map lower).map lower) := by
  cases sc0 with
  | none => simpa [normalizeUriOf] using hn.symm
  | some x => simp [normalizeUriOf]

theorem parseUrlWith_ok' {idna : Str → Option Str} {s : Str} {u : Url} (h : parseUrlWith idna s = .ok u) :
    s = [] ∨ ∃ sc au ho po pa q f, parseCore idna s = .ok (sc, au, ho, po, pa, q, f) ∧
      u = mkUrl sc au ho po
        (if pa.isEmpty then (if q.isSome || f.isSome then some [] else none) else some pa) q f := by
  unfold parseUrlWith at h
  split at h
  · left; rename_i he; simpa using he
  · right
    split at h
    · simp at h
    · rename_i sc au ho po pa q f hf
      exact ⟨sc, au, ho, po, pa, q, f, funnel_ok hf, by simpa using h.symm⟩

theorem ite_none_some {c : Bool} {h : Str} {h0 : Option Str}
    (e : (if c = true then none else some h) = h0) :
    (c = true ∧ h0 = none) ∨ (c = false ∧ h0 = some h) := by
  cases c <;> simp_all

/-- `parse_url` and the reference reading agree on userinfo, host and port -/
theorem agrees_with_rfc (idna : Str → Option Str) (s : Str) (u : Url) (r : RefAuth)
    (h : parseUrlWith idna s = .ok u) (hr : refAuthority s = some r)
    (hdot : ∀ sch, refScheme s = some sch → 46 ∉ sch) :
    normalizeHost idna (some r.host) u.scheme = .ok (some (u.host.getD [])) ∧
    (u.host = none → r.host = []) ∧
    u.port = refPortValue r.port ∧
    (∀ p, r.port = some p → p.all isDigitC = true) ∧
    u.auth = refAuthValue (Gen.normalizableSchemes.contains u.scheme) r.userinfo ∧
    r.wellFormed = true := by
  obtain ⟨hsre, t', hauth, rfl⟩ := front_end s r hr hdot
  rcases parseUrlWith_ok' h with rfl | ⟨sc, au, ho, po, pa, q, f, hc, rfl⟩
  · simp [schemeRe] at hsre
  · obtain ⟨h0, port, hsc, hpa, hport, hhost⟩ := parseCore_ok' hc
    simp only [hsre, if_true] at hsc hpa
    rw [hauth] at hpa
    have hscl : sc.map lower = sc := by
      rw [hsc]; cases (splitScheme s).1 <;> simp
    have hnu : normalizeUriOf (splitScheme s).1 = Gen.normalizableSchemes.contains (sc.map lower) := by
      rw [hsc]; exact normalizeUriOf_eq _ (by decide)
    simp only [mkUrl, hscl]
    generalize t'.takeWhile authChar = a at hpa ⊢
    unfold parseAuthority at hpa
    simp only at hpa
    split at hpa
    · rename_i hae
      have : a = [] := by simpa using hae
      subst this
      simp only [Except.ok.injEq, Prod.mk.injEq] at hpa
      obtain ⟨rfl, rfl, rfl⟩ := hpa
      simp only [portToInt, Except.ok.injEq] at hport
      subst hport
      simp only [normalizeHost, Except.ok.injEq] at hhost
      subst hhost
      have e0 : refAuthOfText [] = ⟨none, [], none, true⟩ := by decide
      rw [e0]
      simp [normalizeHost, refPortValue, refAuthValue]
    · split at hpa
      · simp at hpa
      · rename_i hne hh pp hhp
        simp only [Except.ok.injEq, Prod.mk.injEq] at hpa
        obtain ⟨rfl, hh0, rfl⟩ := hpa
        simp only [refAuthOfText]
        obtain ⟨e1, e2, e3, e4⟩ := hostPortRe_ref _ hh pp hhp
        have hpo : po = refPortValue (refHostPort (rpartitionAt a).2).2.1 := by
          rw [← e2]
          unfold portToInt at hport
          cases pp with
          | none => simp at hport; simp [portVal, hport]
          | some d =>
            by_cases hd : d.isEmpty = true
            · simp [hd] at hport; simp [portVal, hd, hport]
            · simp only [hd, Bool.false_eq_true, if_false] at hport
              split at hport
              · simp only [Except.ok.injEq] at hport
                simp [portVal, hd, hport]
              · simp at hport
        have hau : (if (rpartitionAt a).1.isEmpty = true then none
              else some (if normalizeUriOf (splitScheme s).1 = true
                then encodeInvalidChars Gen.userinfoChars (rpartitionAt a).1 else (rpartitionAt a).1)) =
            refAuthValue (Gen.normalizableSchemes.contains sc) ((rpart 64 a).map (·.1)) := by
          rw [hnu, hscl]
          unfold rpartitionAt refAuthValue
          cases rpart 64 a with
          | none => simp
          | some pr => simp
        rcases ite_none_some hh0 with ⟨hcnd, rfl⟩ | ⟨-, rfl⟩
        · -- the authority consists of delimiters only: host `None`, the reading has host `""`
          have hhe : hh = [] := by
            simp only [Bool.and_eq_true, List.isEmpty_iff] at hcnd
            exact hcnd.2
          simp only [normalizeHost, Except.ok.injEq] at hhost
          subst hhost
          refine ⟨?_, ?_, hpo, e3, hau, e4⟩
          · rw [← e1, hhe]; simp [normalizeHost]
          · intro _; rw [← e1, hhe]
        · obtain ⟨x, rfl⟩ := normalizeHost_some hhost
          refine ⟨?_, by simp, hpo, e3, hau, e4⟩
          rw [← e1]; simpa using hhost


/-! ## an empty host is only reported next to a port or userinfo -/

theorem splitOn1_eq_nilnil {c : Nat} {h : Str} (e : splitOn1 c h = [[]]) : h = [] := by
  cases h with
  | nil => rfl
  | cons x t =>
    exfalso
    simp only [splitOn1] at e
    split at e
    · simp only [List.cons.injEq, true_and] at e
      exact splitOn1_ne_nil c t e
    · split at e <;> simp at e

theorem joinWith_eq_nil {sep : Str} (hs : sep ≠ []) {l : List Str} (e : joinWith sep l = []) :
    l = [] ∨ l = [[]] := by
  match l, e with
  | [], _ => exact Or.inl rfl
  | [x], e => simp only [joinWith] at e; subst e; exact Or.inr rfl
  | x :: y :: t, e =>
    exfalso
    simp only [joinWith, List.append_eq_nil_iff] at e
    exact hs e.1.2

theorem mapM_length {α β : Type} (f : α → Except Exc β) (l : List α) (ls : List β)
    (h : l.mapM f = .ok ls) : ls.length = l.length := by
  induction l generalizing ls with
  | nil => simp [pure, Except.pure] at h; subst h; rfl
  | cons x r ih =>
    rw [List.mapM_cons] at h
    obtain ⟨b, _, h2⟩ := bind_ok h
    obtain ⟨bs, hbs, h3⟩ := bind_ok h2
    simp only [pure, Except.pure, Except.ok.injEq] at h3
    subst h3
    simp [ih bs hbs]

theorem lower_eq_nil {l : Str} (h : lower l = []) : l = [] := by
  have := lower_length l
  rw [h] at this
  exact List.eq_nil_of_length_eq_zero this.symm

theorem idnaEncode_eq_nil {idna : Str → Option Str} (hc : ∀ l r, idna l = some r → r ≠ [])
    {l : Str} (h : idnaEncode idna l = .ok []) : l = [] := by
  unfold idnaEncode at h
  split at h
  · simp only [Except.ok.injEq] at h; exact lower_eq_nil h
  · split at h
    · rename_i r hr
      simp only [Except.ok.injEq] at h
      exact absurd h (hc _ _ hr)
    · simp at h

/-- `_normalize_host` never turns a non-empty host into the empty one (given that `idna.encode`
never answers with an empty label) -/
theorem normalizeHost_nonempty {idna : Str → Option Str} (hc : ∀ l r, idna l = some r → r ≠ [])
    {h : Str} (hne : h ≠ []) {sc : Option Str} {x : Str}
    (he : normalizeHost idna (some h) sc = .ok (some x)) : x ≠ [] := by
  have hie : h.isEmpty = false := by cases h <;> simp_all
  unfold normalizeHost at he
  simp only [hie, Bool.false_eq_true, if_false] at he
  split at he
  · split at he
    · split at he
      · simp only [Except.ok.injEq, Option.some.injEq] at he
        subst he
        exact fun e => hne (lower_eq_nil e)
      · simp only [Except.ok.injEq, Option.some.injEq] at he
        subst he
        simp
    · split at he
      · simp only [Except.ok.injEq, Option.some.injEq] at he
        subst he; exact hne
      · obtain ⟨ls, hls, h2⟩ := bind_ok he
        simp only [Except.ok.injEq, Option.some.injEq] at h2
        subst h2
        intro e
        have hlen := mapM_length _ _ _ hls
        rcases joinWith_eq_nil (by decide) e with rfl | rfl
        · exact splitOn1_ne_nil 46 h (List.eq_nil_of_length_eq_zero hlen.symm)
        · -- one label, encoded to `""`: the label, hence the host, is empty
          cases hsp : splitOn1 46 h with
          | nil => exact splitOn1_ne_nil 46 h hsp
          | cons p ps =>
            rw [hsp] at hlen hls
            have hps : ps = [] := by
              simp only [List.length_cons, List.length_nil] at hlen
              exact List.eq_nil_of_length_eq_zero (by omega)
            subst hps
            obtain ⟨z, hz, hf⟩ := mapM_ok _ _ _ hls [] (List.mem_cons_self ..)
            simp only [List.mem_cons, List.not_mem_nil, or_false] at hz
            subst hz
            have := idnaEncode_eq_nil hc hf
            subst this
            exact hne (splitOn1_eq_nilnil hsp)
  · simp only [Except.ok.injEq, Option.some.injEq] at he
    subst he; exact hne

/-- **the general form of the repaired `reparse-mismatch:empty-host`**: when `parse_url` reports the
host `""`, it also reports a port or a userinfo (so the string form `…//…@` / `…//:port` shows the
empty host and re-parsing finds it again).  `hc`: `idna.encode` never answers with an empty label. -/
theorem empty_host_has_port_or_userinfo (idna : Str → Option Str) (hc : ∀ l r, idna l = some r → r ≠ [])
    (s : Str) (u : Url) (h : parseUrlWith idna s = .ok u) (hh : u.host = some []) :
    u.auth.isSome = true ∨ u.port.isSome = true := by
  rcases parseUrlWith_ok' h with rfl | ⟨sc, au, ho, po, pa, q, f, hc', rfl⟩
  · simp only [parseUrlWith, List.isEmpty_nil, if_true, Except.ok.injEq] at h
    subst h
    simp [Url.empty] at hh
  · obtain ⟨h0, port, -, hpa, hport, hhost⟩ := parseCore_ok' hc'
    simp only [mkUrl] at hh ⊢
    subst hh
    unfold parseAuthority at hpa
    simp only at hpa
    split at hpa
    · simp only [Except.ok.injEq, Prod.mk.injEq] at hpa
      obtain ⟨-, rfl, -⟩ := hpa
      simp [normalizeHost] at hhost
    · split at hpa
      · simp only [Except.ok.injEq, Prod.mk.injEq] at hpa
        obtain ⟨-, rfl, -⟩ := hpa
        simp [normalizeHost] at hhost
      · split at hpa
        · simp at hpa
        · rename_i hx pp _
          simp only [Except.ok.injEq, Prod.mk.injEq] at hpa
          obtain ⟨rfl, hh0, rfl⟩ := hpa
          rcases ite_none_some hh0 with ⟨-, rfl⟩ | ⟨hcnd, rfl⟩
          · simp [normalizeHost] at hhost
          · by_cases hxe : hx = []
            · subst hxe
              simp only [List.isEmpty_nil, Bool.and_true, Bool.and_eq_false_iff] at hcnd
              rcases hcnd with ha | hp
              · left
                cases hau : (if (rpartitionAt _).1.isEmpty = true then (none : Option Str) else _) with
                | none => rw [hau] at ha; simp at ha
                | some _ => rfl
              · right
                revert hp hport
                cases pp with
                | none => simp
                | some d =>
                  by_cases hd : d.isEmpty = true
                  · simp [hd]
                  · simp only [hd, Bool.false_eq_true, if_false, portToInt]
                    intro hport _
                    split at hport
                    · simp only [Except.ok.injEq] at hport
                      rw [← hport]; rfl
                    · simp at hport
            · exact absurd rfl (normalizeHost_nonempty hc hxe hhost)

/-! ## the encoder acts segment-wise on a path -/

theorem hex2_append_slash (x y : Str) : hex2 (x ++ 47 :: y) = hex2 x := by
  match x with
  | [] => cases y <;> simp [hex2, isHexC, isDigitC]
  | [a] => simp [hex2, isHexC, isDigitC]
  | a :: b :: t => simp [hex2]

theorem tokAux_append_slash (n : Nat) : ∀ (x y : Str), x.length ≤ n →
    tokAux 0 (x ++ 47 :: y) = tokAux 0 x ++ Tok.chr 47 :: tokAux 0 y := by
  induction n with
  | zero =>
    intro x y hx
    have : x = [] := by cases x with | nil => rfl | cons _ _ => simp at hx
    subst this
    simp [tokAux]
  | succ n ih =>
    intro x y hx
    cases x with
    | nil => simp [tokAux]
    | cons c t =>
      simp only [List.length_cons, Nat.add_le_add_iff_right] at hx
      simp only [List.cons_append, tokAux]
      by_cases hc : c = 37
      · simp only [hc, if_true, hex2_append_slash]
        cases hh : hex2 t with
        | none => simp only; rw [ih t y hx]; simp
        | some ab =>
          obtain ⟨a, b⟩ := ab
          obtain ⟨t', rfl, -, -⟩ := hex2_some hh
          simp only [List.cons_append, tokAux]
          have : t'.length ≤ n := by simp only [List.length_cons] at hx; omega
          rw [ih t' y this]
      · simp only [hc, if_false]
        rw [ih t y hx]; simp

theorem tokenize_append_slash (x y : Str) :
    tokenize (x ++ 47 :: y) = tokenize x ++ Tok.chr 47 :: tokenize y :=
  tokAux_append_slash x.length x y (Nat.le_refl _)

/-- what a segment becomes under the encoder (the `%`-flag `pe` is that of the whole component) -/
def encSeg (A : List Nat) (pe : Bool) (x : Str) : Str := (tokenize x).flatMap (encTok A pe)

theorem encTok_slash (A : List Nat) (pe : Bool) (h47 : mem A 47 = true) : encTok A pe (.chr 47) = [47] := by
  simp [encTok, Tok.upper, utf8, utf8cp, encByte, h47]

theorem enc_join (A : List Nat) (pe : Bool) (h47 : mem A 47 = true) (L : List Str) :
    (tokenize (joinWith [47] L)).flatMap (encTok A pe) = joinWith [47] (L.map (encSeg A pe)) := by
  induction L with
  | nil => rfl
  | cons x r ih =>
    cases r with
    | nil => simp [joinWith, encSeg]
    | cons y t =>
      simp only [joinWith, List.append_assoc, List.singleton_append, List.map_cons] at ih ⊢
      rw [tokenize_append_slash, List.flatMap_append, List.flatMap_cons, encTok_slash A pe h47, ih]
      simp [encSeg]

theorem hexDigitU_ne47 (n : Nat) : hexDigitU n ≠ 47 := by
  unfold hexDigitU; split <;> omega

theorem hexDigitU_ne46 (n : Nat) : hexDigitU n ≠ 46 := by
  unfold hexDigitU; split <;> omega

theorem encByte_no47 (A : List Nat) (pe : Bool) (b : Nat) (hb : b ≠ 47) : 47 ∉ encByte A pe b := by
  unfold encByte
  split
  · simpa using Ne.symm hb
  · simp [pctByte, hexDigitU_ne47, Ne.symm (hexDigitU_ne47 _)]

theorem utf8cp_ne47 (c : Nat) (hc : c ≠ 47) : ∀ b ∈ utf8cp c, b ≠ 47 := by
  intro b hb
  unfold utf8cp at hb
  split at hb
  · simp at hb; omega
  · split at hb
    · simp at hb; omega
    · split at hb
      · simp at hb; omega
      · simp at hb; omega

theorem hexC_ne47 {c : Nat} (h : isHexC c = true) : upperC c ≠ 47 := by
  have := isHexUp_upperC_of_hex h
  simp only [isHexUp, isDigitC, Bool.or_eq_true, Bool.and_eq_true, decide_eq_true_eq] at this
  omega

theorem flatMap_no47 (l : List Nat) (f : Nat → Str) (h : ∀ b ∈ l, 47 ∉ f b) : 47 ∉ l.flatMap f := by
  simp only [List.mem_flatMap, not_exists, not_and]
  intro b hb; exact h b hb

theorem encTok_no47 (A : List Nat) (pe : Bool) (t : Tok) (hok : t.ok = true) (ht : t ≠ .chr 47) :
    47 ∉ encTok A pe t := by
  unfold encTok
  apply flatMap_no47
  intro b hb
  apply encByte_no47
  cases t with
  | chr c =>
    have hc : c ≠ 47 := fun e => ht (by rw [e])
    simp only [Tok.upper, utf8, List.flatMap_cons, List.flatMap_nil, List.append_nil] at hb
    exact utf8cp_ne47 c hc b hb
  | esc x y =>
    simp only [Tok.ok, Bool.and_eq_true] at hok
    have hx := upperC_lt (hexC_lt hok.1).1
    have hy := upperC_lt (hexC_lt hok.2).1
    have e : utf8 [37, upperC x, upperC y] = [37, upperC x, upperC y] :=
      utf8_ascii (by intro c hc; simp at hc; rcases hc with rfl | rfl | rfl <;> omega)
    simp only [Tok.upper, e, List.mem_cons, List.not_mem_nil, or_false] at hb
    rcases hb with rfl | rfl | rfl
    · decide
    · exact hexC_ne47 hok.1
    · exact hexC_ne47 hok.2

theorem tokens_no47 (x : Str) (hx : 47 ∉ x) : ∀ t ∈ tokenize x, t ≠ .chr 47 := by
  intro t ht e
  subst e
  apply hx
  rw [← render_tokenize x]
  simp only [renderToks, List.mem_flatMap]
  exact ⟨_, ht, by simp [Tok.text]⟩

theorem encSeg_no47 (A : List Nat) (pe : Bool) (x : Str) (hx : 47 ∉ x) : 47 ∉ encSeg A pe x := by
  unfold encSeg
  simp only [List.mem_flatMap, not_exists, not_and]
  intro t ht
  exact encTok_no47 A pe t (tokenize_ok x t ht) (tokens_no47 x hx t ht)

theorem encByte_head (A : List Nat) (pe : Bool) (b : Nat) :
    ∃ h r, encByte A pe b = h :: r ∧ (h = 46 → b = 46 ∧ r = []) := by
  unfold encByte
  split
  · exact ⟨b, [], rfl, fun e => ⟨e, rfl⟩⟩
  · exact ⟨37, _, rfl, fun e => by omega⟩

theorem encByte_high (A : List Nat) (pe : Bool) (b : Nat) (hb : 128 ≤ b) :
    encByte A pe b = pctByte b := by
  unfold encByte
  have h1 : (b == 37) = false := by simp; omega
  have h2 : decide (b < 128) = false := by simp; omega
  simp [h1, h2]

/-- every token produces at least one character, and a leading `.` only comes from the token `.` -/
theorem encTok_head (A : List Nat) (pe : Bool) (t : Tok) (hok : t.ok = true) :
    ∃ h r, encTok A pe t = h :: r ∧ (h = 46 → t = .chr 46 ∧ r = []) := by
  cases t with
  | esc x y =>
    simp only [Tok.ok, Bool.and_eq_true] at hok
    have hx := upperC_lt (hexC_lt hok.1).1
    have hy := upperC_lt (hexC_lt hok.2).1
    have e : utf8 [37, upperC x, upperC y] = [37, upperC x, upperC y] :=
      utf8_ascii (by intro c hc; simp at hc; rcases hc with rfl | rfl | rfl <;> omega)
    simp only [encTok, Tok.upper, e, List.flatMap_cons]
    obtain ⟨h, r, hb, hh⟩ := encByte_head A pe 37
    rw [hb]
    exact ⟨h, _, rfl, fun e => by have := (hh e).1; omega⟩
  | chr c =>
    simp only [encTok, Tok.upper, utf8, List.flatMap_cons, List.flatMap_nil, List.append_nil]
    by_cases hc : c < 128
    · simp only [utf8cp_ascii hc, List.flatMap_cons, List.flatMap_nil, List.append_nil]
      obtain ⟨h, r, hb, hh⟩ := encByte_head A pe c
      exact ⟨h, r, hb, fun e => by obtain ⟨e1, e2⟩ := hh e; exact ⟨by rw [e1], e2⟩⟩
    · have hc' : 128 ≤ c := by omega
      unfold utf8cp
      simp only [hc, if_false]
      split
      · simp only [List.flatMap_cons]
        rw [encByte_high A pe _ (by omega)]
        exact ⟨37, _, rfl, fun e => by omega⟩
      · split
        · simp only [List.flatMap_cons]
          rw [encByte_high A pe _ (by omega)]
          exact ⟨37, _, rfl, fun e => by omega⟩
        · simp only [List.flatMap_cons]
          rw [encByte_high A pe _ (by omega)]
          exact ⟨37, _, rfl, fun e => by omega⟩

theorem encToks_nil (A : List Nat) (pe : Bool) (ts : List Tok) (hok : ∀ t ∈ ts, t.ok = true)
    (h : ts.flatMap (encTok A pe) = []) : ts = [] := by
  cases ts with
  | nil => rfl
  | cons t r =>
    obtain ⟨hd, tl, e, -⟩ := encTok_head A pe t (hok t (List.mem_cons_self ..))
    simp [e] at h

theorem encToks_dot (A : List Nat) (pe : Bool) (ts : List Tok) (hok : ∀ t ∈ ts, t.ok = true)
    (h : ts.flatMap (encTok A pe) = [46]) : ts = [.chr 46] := by
  cases ts with
  | nil => simp at h
  | cons t r =>
    obtain ⟨hd, tl, e, hh⟩ := encTok_head A pe t (hok t (List.mem_cons_self ..))
    simp only [List.flatMap_cons, e, List.cons_append, List.cons.injEq] at h
    obtain ⟨rfl, rfl⟩ := hh h.1
    simp only [List.nil_append] at h
    rw [encToks_nil A pe r (fun x hx => hok x (List.mem_cons_of_mem _ hx)) h.2]

theorem encToks_dotdot (A : List Nat) (pe : Bool) (ts : List Tok) (hok : ∀ t ∈ ts, t.ok = true)
    (h : ts.flatMap (encTok A pe) = [46, 46]) : ts = [.chr 46, .chr 46] := by
  cases ts with
  | nil => simp at h
  | cons t r =>
    obtain ⟨hd, tl, e, hh⟩ := encTok_head A pe t (hok t (List.mem_cons_self ..))
    simp only [List.flatMap_cons, e, List.cons_append, List.cons.injEq] at h
    obtain ⟨rfl, rfl⟩ := hh h.1
    simp only [List.nil_append] at h
    rw [encToks_dot A pe r (fun x hx => hok x (List.mem_cons_of_mem _ hx)) h.2]

/-- encoding never turns a segment into `.` or `..`, nor puts a `/` into it -/
theorem encSeg_clean (A : List Nat) (pe : Bool) (x : Str) (hx : CleanSeg x) : CleanSeg (encSeg A pe x) := by
  refine ⟨encSeg_no47 A pe x hx.1, ?_, ?_⟩
  · intro e
    have := encToks_dot A pe (tokenize x) (tokenize_ok x) e
    apply hx.2.1
    rw [← render_tokenize x, this]; rfl
  · intro e
    have := encToks_dotdot A pe (tokenize x) (tokenize_ok x) e
    apply hx.2.2
    rw [← render_tokenize x, this]; rfl

/-- the encoder maps a `/`-joined list of clean segments to a `/`-joined list of clean segments -/
theorem encode_join_clean (A : List Nat) (h47 : mem A 47 = true) (L : List Str) (hL : ∀ x ∈ L, CleanSeg x) :
    ∃ L', (∀ x ∈ L', CleanSeg x) ∧ L'.length = L.length ∧
      encodeInvalidChars A (joinWith [47] L) = joinWith [47] L' := by
  rw [encodeInvalidChars_eq]
  generalize (countEscapes (joinWith [47] L) == (utf8 (upperEscapes (joinWith [47] L))).count 37) = pe
  refine ⟨L.map (encSeg A pe), ?_, by simp, enc_join A pe h47 L⟩
  intro x hx
  simp only [List.mem_map] at hx
  obtain ⟨y, hy, rfl⟩ := hx
  exact encSeg_clean A pe y (hL y hy)

/-- the path normalisation of `parse_url` yields a `/`-joined list of clean segments -/
theorem normPath_clean (p : Str) : ∃ L, (∀ x ∈ L, CleanSeg x) ∧ normPath true p = joinWith [47] L := by
  unfold normPath
  split
  · rw [removeDotSegments_eq]
    obtain ⟨L', h1, -, h3⟩ := encode_join_clean Gen.pathChars (by decide) (dotOutput p) (dotOutput_clean p)
    exact ⟨L', h1, h3⟩
  · rename_i hne
    have : p = [] := by simpa using hne
    exact ⟨[], by simp, by rw [this]; rfl⟩

/-- a text that is a `/`-joined list of clean segments -/
def CleanJoin (p : Str) : Prop := ∃ L, (∀ x ∈ L, CleanSeg x) ∧ p = joinWith [47] L

theorem cleanJoin_no_dots {p : Str} (h : CleanJoin p) :
    ∀ seg ∈ splitOn1 47 p, seg ≠ dot ∧ seg ≠ dotdot := by
  obtain ⟨L, hL, rfl⟩ := h
  by_cases hne : L = []
  · subst hne; simp [joinWith, splitOn1, dot, dotdot]
  · rw [splitOn1_join 47 L hne (fun x hx => (hL x hx).1)]
    intro seg hs; exact (hL seg hs).2

theorem cleanJoin_fixed {p : Str} (h : CleanJoin p) : removeDotSegments p = p := by
  obtain ⟨L, hL, rfl⟩ := h
  exact removeDotSegments_fixed L hL

theorem cleanJoin_slash {p : Str} (h : CleanJoin p) (hne : p ≠ []) : CleanJoin (47 :: p) := by
  obtain ⟨L, hL, rfl⟩ := h
  cases L with
  | nil => exact absurd rfl hne
  | cons y t =>
    refine ⟨[] :: y :: t, ?_, by simp [joinWith]⟩
    intro x hx
    simp only [List.mem_cons] at hx
    rcases hx with rfl | hx
    · exact cleanSeg_nil
    · exact hL x (by simpa using hx)

/-- the path `Url.__new__` stores: a leading `/` is added to a non-empty relative path -/
def finalPath (pa : Str) : Str := if !pa.isEmpty && pa.head? != some 47 then 47 :: pa else pa

theorem finalPath_clean (p0 : Str) : CleanJoin (finalPath (normPath true p0)) := by
  obtain ⟨L, hL, e⟩ := normPath_clean p0
  unfold finalPath
  split
  · rename_i hc
    apply cleanJoin_slash ⟨L, hL, e⟩
    intro e0; rw [e0] at hc; simp at hc
  · exact ⟨L, hL, e⟩


theorem mkUrl_path {sc au ho : Option Str} {po : Option Nat} {pa : Str} {c : Bool} {q f : Option Str} {x : Str}
    (h : (mkUrl sc au ho po (if pa.isEmpty then (if c then some [] else none) else some pa) q f).path = some x) :
    x = finalPath pa := by
  simp only [mkUrl] at h
  by_cases hp : pa.isEmpty = true
  · have : pa = [] := by simpa using hp
    subst this
    cases c <;> simp [finalPath] at h ⊢
    exact h
  · have hp' : pa.isEmpty = false := by simpa using hp
    simp only [hp', Bool.false_eq_true, if_false] at h
    unfold finalPath
    rw [hp']
    split at h <;> rename_i hc
    · simp only [Option.some.injEq] at h; rw [if_pos hc]; exact h.symm
    · simp only [Option.some.injEq] at h; rw [if_neg hc]; exact h.symm

end U3.Url
